//! C17 ground truth: the `rv emit <spec-file>` child and the generator of what it writes.
//!
//! The child writes generator-chosen bytes to fd 1 / fd 2 with chosen write sizes and pauses and
//! exits with a chosen code, so the harness knows every byte written per stream. After every
//! successful write(2) it records the cumulative per-stream byte counts in a progress file, which
//! gives a lower bound on what was written when the child is killed by a cancellation.
//!
//! Pipe lifetime ≠ process lifetime: a spec may carry `tails` — descendants (`rv emit <tail spec>`)
//! that the child starts after its own writes and does not wait for. A tail inherits stdout and/or
//! stderr (so the pipe stays open after the direct child is gone), waits `pre_ms`, writes its own
//! payload, may linger, may sit in its own session (escapes a process-group kill). The pseudo fds 11
//! and 12 in `ops` give up fd 1 / fd 2 (re-pointed at /dev/null) while the process keeps running.
//! Every process appends what it did and when (unix ms) to its own journal file (`journal`).

use crate::prng::Rng;
use serde_json::{json, Value};
use std::path::Path;

/// `rv emit <spec-file>` — returns the exit code chosen by the spec (97/98 on harness errors).
pub fn emit_main(args: &[String]) -> i32 {
    let Some(path) = args.first() else {
        return 97;
    };
    let Ok(bytes) = std::fs::read(path) else {
        return 97;
    };
    let Ok(spec) = serde_json::from_slice::<Value>(&bytes) else {
        return 97;
    };
    let out = hex::decode(spec["out"].as_str().unwrap_or("")).unwrap_or_default();
    let err = hex::decode(spec["err"].as_str().unwrap_or("")).unwrap_or_default();
    let progress_fd: i32 = match spec["progress"].as_str() {
        Some(p) => {
            let Ok(c) = std::ffi::CString::new(p) else {
                return 97;
            };
            unsafe { libc::open(c.as_ptr(), libc::O_WRONLY | libc::O_CREAT, 0o600) }
        }
        None => -1,
    };
    let journal_fd: i32 = match spec["journal"].as_str() {
        Some(p) => {
            let Ok(c) = std::ffi::CString::new(p) else {
                return 97;
            };
            unsafe { libc::open(c.as_ptr(), libc::O_WRONLY | libc::O_CREAT | libc::O_APPEND | libc::O_CLOEXEC, 0o600) }
        }
        None => -1,
    };
    let journal = |kind: u64, a: u64, b: u64| {
        if journal_fd >= 0 {
            let mut rec = [0u8; 32];
            rec[..8].copy_from_slice(&kind.to_le_bytes());
            rec[8..16].copy_from_slice(&unix_ms().to_le_bytes());
            rec[16..24].copy_from_slice(&a.to_le_bytes());
            rec[24..].copy_from_slice(&b.to_le_bytes());
            unsafe {
                libc::write(journal_fd, rec.as_ptr() as *const libc::c_void, 32);
            }
        }
    };
    journal(J_START, std::process::id() as u64, 0);
    let pre_ms = spec["pre_ms"].as_u64().unwrap_or(0);
    if pre_ms > 0 {
        std::thread::sleep(std::time::Duration::from_millis(pre_ms));
    }
    let mut pos = [0usize; 2];
    let record = |pos: &[usize; 2]| {
        if progress_fd >= 0 {
            let mut b = [0u8; 16];
            b[..8].copy_from_slice(&(pos[0] as u64).to_le_bytes());
            b[8..].copy_from_slice(&(pos[1] as u64).to_le_bytes());
            unsafe {
                libc::pwrite(progress_fd, b.as_ptr() as *const libc::c_void, 16, 0);
            }
        }
    };
    record(&pos);
    if let Some(ops) = spec["ops"].as_array() {
        for op in ops {
            let fd = op[0].as_u64().unwrap_or(1) as i32;
            let n = op[1].as_u64().unwrap_or(0) as usize;
            let pause_us = op[2].as_u64().unwrap_or(0);
            if pause_us > 0 {
                std::thread::sleep(std::time::Duration::from_micros(pause_us));
            }
            if fd == 11 || fd == 12 {
                // give up the pipe, keep running
                unsafe {
                    let null = libc::open(b"/dev/null\0".as_ptr() as *const libc::c_char, libc::O_WRONLY);
                    if null >= 0 {
                        libc::dup2(null, fd - 10);
                        libc::close(null);
                    }
                }
                journal(J_CLOSED, (fd - 10) as u64, 0);
                continue;
            }
            let (data, k) = if fd == 2 { (&err, 1usize) } else { (&out, 0usize) };
            let end = (pos[k] + n).min(data.len());
            while pos[k] < end {
                let slice = &data[pos[k]..end];
                let r = unsafe { libc::write(fd, slice.as_ptr() as *const libc::c_void, slice.len()) };
                if r < 0 {
                    let e = std::io::Error::last_os_error();
                    if e.kind() == std::io::ErrorKind::Interrupted {
                        continue;
                    }
                    return 98;
                }
                pos[k] += r as usize;
                record(&pos);
                journal(J_WROTE, pos[0] as u64, pos[1] as u64);
            }
        }
    }
    // descendants: started after the own writes (so per stream the order of bytes is causal), never waited for
    if let Some(tails) = spec["tails"].as_array() {
        use std::os::unix::process::CommandExt;
        use std::process::{Command, Stdio};
        let exe = std::env::current_exe().unwrap_or_else(|_| "rv".into());
        for (i, t) in tails.iter().enumerate() {
            let mut cmd = Command::new(&exe);
            cmd.arg("emit").arg(t["spec"].as_str().unwrap_or(""));
            cmd.stdin(Stdio::null());
            cmd.stdout(if t["keep_out"].as_bool().unwrap_or(true) { Stdio::inherit() } else { Stdio::null() });
            cmd.stderr(if t["keep_err"].as_bool().unwrap_or(true) { Stdio::inherit() } else { Stdio::null() });
            if t["setsid"].as_bool().unwrap_or(false) {
                unsafe {
                    cmd.pre_exec(|| {
                        libc::setsid();
                        Ok(())
                    });
                }
            }
            match cmd.spawn() {
                Ok(child) => journal(J_SPAWNED, child.id() as u64, i as u64),
                Err(_) => journal(J_SPAWN_FAILED, 0, i as u64),
            }
        }
    }
    let linger = spec["linger_ms"].as_u64().unwrap_or(0);
    if linger > 0 {
        std::thread::sleep(std::time::Duration::from_millis(linger));
    }
    journal(J_EXIT, pos[0] as u64, pos[1] as u64);
    spec["exit"].as_i64().unwrap_or(0) as i32
}

pub const J_START: u64 = 0;
pub const J_WROTE: u64 = 1;
pub const J_CLOSED: u64 = 2;
pub const J_EXIT: u64 = 3;
pub const J_SPAWNED: u64 = 4;
pub const J_SPAWN_FAILED: u64 = 5;

pub fn unix_ms() -> u64 {
    std::time::SystemTime::now()
        .duration_since(std::time::UNIX_EPOCH)
        .map(|d| d.as_millis() as u64)
        .unwrap_or(0)
}

#[derive(Clone, Copy, Debug, PartialEq, Eq)]
pub enum Content {
    Empty,
    Ascii,
    Utf8,
    Binary,
    BinaryBadStart,
    MostlyText,
}

impl Content {
    pub fn pick(rng: &mut Rng) -> Content {
        match rng.below(12) {
            0 => Content::Empty,
            1..=3 => Content::Ascii,
            4..=6 => Content::Utf8,
            7..=8 => Content::Binary,
            9 => Content::BinaryBadStart,
            _ => Content::MostlyText,
        }
    }
    pub fn tag(&self) -> &'static str {
        match self {
            Content::Empty => "empty",
            Content::Ascii => "ascii",
            Content::Utf8 => "utf8",
            Content::Binary => "bin",
            Content::BinaryBadStart => "binbad",
            Content::MostlyText => "mostly",
        }
    }
}

/// One stream's payload of exactly `size` bytes (0 for `Empty`).
pub fn gen_payload(rng: &mut Rng, content: Content, size: usize) -> Vec<u8> {
    match content {
        Content::Empty => Vec::new(),
        Content::Ascii => {
            let mut v = Vec::with_capacity(size);
            while v.len() < size {
                let line = rng.usize(90);
                v.extend_from_slice(rng.ascii(line).as_bytes());
                match rng.below(6) {
                    0 => v.extend_from_slice(b"\r\n"),
                    1 => {}
                    _ => v.push(b'\n'),
                }
            }
            v.truncate(size);
            v
        }
        Content::Utf8 => utf8_exact(rng, size),
        Content::Binary => rng.bytes(size),
        Content::BinaryBadStart => {
            let mut v = rng.bytes(size);
            // an invalid byte wherever a read is likely to start
            let mut i = 0;
            while i < v.len() {
                v[i] = [0xFFu8, 0x80, 0xC0, 0xFE][rng.usize(4)];
                i += [1usize << 10, 1 << 12, 1 << 13][rng.usize(3)];
            }
            v
        }
        Content::MostlyText => {
            let mut v = utf8_exact(rng, size);
            let flips = 1 + rng.usize(6);
            for _ in 0..flips {
                if v.is_empty() {
                    break;
                }
                let i = rng.usize(v.len());
                v[i] = [0xFFu8, 0x00, 0xC0, 0x80, 0xED][rng.usize(5)];
            }
            v
        }
    }
}

fn utf8_exact(rng: &mut Rng, size: usize) -> Vec<u8> {
    let mut s = String::new();
    // dense multi-byte text half of the time, mixed otherwise
    let dense = rng.bool();
    while s.len() < size {
        if dense {
            const P: &[&str] = &["中", "文", "é", "🙂", "𝄞", "ß", "→", "\n", "日", "本"];
            s.push_str(P[rng.usize(P.len())]);
        } else {
            s.push_str(&rng.unicode(16));
        }
    }
    let mut end = size;
    while end > 0 && !s.is_char_boundary(end) {
        end -= 1;
    }
    let mut v = s.as_bytes()[..end].to_vec();
    while v.len() < size {
        v.push(b'x');
    }
    v
}

/// Sizes that straddle the preview limit, the 8 KiB read size and the artifact cap.
pub fn gen_size(rng: &mut Rng, limit: usize, cap: usize, max_size: usize) -> usize {
    let mut c: Vec<usize> = vec![0, 1, 2, 5, 8191, 8192, 8193, 16384, 16385, 24577];
    for base in [limit, cap] {
        for d in [-2i64, -1, 0, 1, 2, 3, 8191, 8192, 8193] {
            let v = base as i64 + d;
            if v >= 0 {
                c.push(v as usize);
            }
        }
    }
    c.retain(|v| *v <= max_size);
    match rng.below(10) {
        0..=5 => c[rng.usize(c.len())],
        6..=7 => rng.usize(300),
        _ => rng.usize(max_size.min(40_000) + 1),
    }
}

#[derive(Clone, Debug)]
pub struct Plan {
    pub out: Vec<u8>,
    pub err: Vec<u8>,
    /// (fd, bytes, pause before the write in µs)
    pub ops: Vec<(u8, usize, u64)>,
    pub exit: i32,
    pub linger_ms: u64,
    pub shape: String,
}

fn write_sizes(rng: &mut Rng, data: &[u8], max_writes: usize) -> (Vec<usize>, &'static str) {
    let size = data.len();
    if size == 0 {
        return (Vec::new(), "none");
    }
    let floor = size.div_ceil(max_writes.max(1)).max(1);
    let style = rng.below(4);
    match style {
        0 => (vec![size], "single"),
        1 => {
            let k = *rng.pick(&[1usize, 2, 3, 7, 100, 1000, 4096, 8191, 8192, 8193, 16384, 65536, 65537]);
            let k = k.max(floor);
            let mut v = Vec::new();
            let mut left = size;
            while left > 0 {
                let n = k.min(left);
                v.push(n);
                left -= n;
            }
            (v, "fixed")
        }
        2 => {
            let hi = (size / (1 + rng.usize(40))).max(floor).max(1);
            let mut v = Vec::new();
            let mut left = size;
            while left > 0 {
                let n = (floor + rng.usize(hi)).min(left).max(1);
                v.push(n);
                left -= n;
            }
            (v, "random")
        }
        _ => {
            // cut inside multi-byte characters (one byte after a lead byte)
            let mut cuts: Vec<usize> = Vec::new();
            let stride = floor.max(1);
            let mut i = 0usize;
            let mut last = 0usize;
            while i < size && cuts.len() < max_writes {
                if data[i] >= 0xC0 && i + 1 < size && i + 1 - last >= stride && rng.chance(1, 2) {
                    cuts.push(i + 1);
                    last = i + 1;
                }
                i += 1;
            }
            let mut v = Vec::new();
            let mut prev = 0;
            for c in cuts {
                v.push(c - prev);
                prev = c;
            }
            if size > prev {
                v.push(size - prev);
            }
            (v, "splitchar")
        }
    }
}

/// A full plan: two payloads, an interleaved write schedule, an exit code.
pub fn gen_plan(rng: &mut Rng, limit: usize, cap: usize, max_size: usize, max_writes: usize) -> Plan {
    let c_out = Content::pick(rng);
    let c_err = if rng.chance(1, 3) { Content::Empty } else { Content::pick(rng) };
    let s_out = gen_size(rng, limit, cap, max_size);
    let s_err = if rng.chance(1, 2) { rng.usize(400) } else { gen_size(rng, limit, cap, max_size) };
    let out = gen_payload(rng, c_out, s_out);
    let err = gen_payload(rng, c_err, s_err);
    plan_from(rng, out, err, max_writes, &format!("{}/{}", c_out.tag(), c_err.tag()))
}

pub fn plan_from(rng: &mut Rng, out: Vec<u8>, err: Vec<u8>, max_writes: usize, tag: &str) -> Plan {
    let (w_out, st_out) = write_sizes(rng, &out, max_writes);
    let (w_err, st_err) = write_sizes(rng, &err, max_writes);
    let pause_p = *rng.pick(&[0u64, 0, 1, 3, 10]);
    let mut budget_us: u64 = 120_000;
    let mut ops = Vec::new();
    let (mut i, mut j) = (0usize, 0usize);
    while i < w_out.len() || j < w_err.len() {
        let take_out = if i >= w_out.len() {
            false
        } else if j >= w_err.len() {
            true
        } else {
            rng.below((w_out.len() - i + w_err.len() - j) as u64) < (w_out.len() - i) as u64
        };
        let mut pause = 0u64;
        let splitting = (take_out && st_out == "splitchar") || (!take_out && st_err == "splitchar");
        if budget_us > 0 && (splitting || (pause_p > 0 && rng.below(10) < pause_p)) {
            pause = (200 + rng.below(2300)).min(budget_us);
            budget_us -= pause;
        }
        if take_out {
            ops.push((1u8, w_out[i], pause));
            i += 1;
        } else {
            ops.push((2u8, w_err[j], pause));
            j += 1;
        }
    }
    let exit = *rng.pick(&[0i32, 0, 0, 1, 2, 3, 7, 42, 126, 127, 255]);
    Plan {
        shape: format!("{tag}|{st_out}/{st_err}|p{pause_p}"),
        out,
        err,
        ops,
        exit,
        linger_ms: 0,
    }
}

impl Plan {
    pub fn spec(&self, progress: Option<&Path>) -> Value {
        json!({
            "out": hex::encode(&self.out),
            "err": hex::encode(&self.err),
            "ops": self.ops.iter().map(|(fd, n, p)| json!([fd, n, p])).collect::<Vec<_>>(),
            "exit": self.exit,
            "linger_ms": self.linger_ms,
            "progress": progress.map(|p| p.to_string_lossy().to_string()),
        })
    }

    /// Write the spec and return the shell command that runs it.
    pub fn command(&self, dir: &Path, name: &str, progress: bool) -> (String, Option<std::path::PathBuf>) {
        let spec_path = dir.join(format!("{name}.spec.json"));
        let prog_path = dir.join(format!("{name}.progress"));
        let spec = self.spec(if progress { Some(&prog_path) } else { None });
        let _ = std::fs::write(&spec_path, serde_json::to_vec(&spec).unwrap_or_default());
        let exe = std::env::current_exe().unwrap_or_else(|_| "rv".into());
        (
            format!("{} emit {}", sh_quote(&exe.to_string_lossy()), sh_quote(&spec_path.to_string_lossy())),
            if progress { Some(prog_path) } else { None },
        )
    }

    /// Like `command`, with descendants: writes the tail specs next to the child's spec and makes
    /// every process journal into `<name>[.t<i>].journal`.
    pub fn command_with_tails(&self, dir: &Path, name: &str, progress: bool, tails: &[Tail]) -> (String, Option<std::path::PathBuf>, Journals) {
        let spec_path = dir.join(format!("{name}.spec.json"));
        let prog_path = dir.join(format!("{name}.progress"));
        let journals = Journals {
            child: dir.join(format!("{name}.journal")),
            tails: (0..tails.len()).map(|i| dir.join(format!("{name}.t{i}.journal"))).collect(),
        };
        let mut tail_refs = Vec::new();
        for (i, t) in tails.iter().enumerate() {
            let tp = dir.join(format!("{name}.t{i}.spec.json"));
            let mut ts = t.plan.spec(None);
            ts["pre_ms"] = json!(t.delay_ms);
            ts["journal"] = json!(journals.tails[i].to_string_lossy());
            let _ = std::fs::write(&tp, serde_json::to_vec(&ts).unwrap_or_default());
            tail_refs.push(json!({"spec": tp.to_string_lossy(), "keep_out": t.keep_out, "keep_err": t.keep_err, "setsid": t.setsid}));
        }
        let mut spec = self.spec(if progress { Some(&prog_path) } else { None });
        spec["journal"] = json!(journals.child.to_string_lossy());
        spec["tails"] = json!(tail_refs);
        let _ = std::fs::write(&spec_path, serde_json::to_vec(&spec).unwrap_or_default());
        let exe = std::env::current_exe().unwrap_or_else(|_| "rv".into());
        (
            format!("{} emit {}", sh_quote(&exe.to_string_lossy()), sh_quote(&spec_path.to_string_lossy())),
            if progress { Some(prog_path) } else { None },
            journals,
        )
    }

    pub fn stream(&self, s: &str) -> &[u8] {
        if s == "stderr" {
            &self.err
        } else {
            &self.out
        }
    }
}

/// A descendant of the emit child that outlives it on the pipes.
#[derive(Clone, Debug)]
pub struct Tail {
    /// pause before the tail's first op, counted from its own start (= the child's last write)
    pub delay_ms: u64,
    pub keep_out: bool,
    pub keep_err: bool,
    /// own session: a kill of the task's process group misses it
    pub setsid: bool,
    /// payloads, ops (may contain 11/12), linger after the ops
    pub plan: Plan,
}

impl Tail {
    pub fn holder(delay_ms: u64, keep_out: bool, keep_err: bool) -> Tail {
        Tail {
            delay_ms,
            keep_out,
            keep_err,
            setsid: false,
            plan: Plan { out: Vec::new(), err: Vec::new(), ops: Vec::new(), exit: 0, linger_ms: 0, shape: "holder".into() },
        }
    }
    /// One write of `out` to stdout and/or `err` to stderr after the delay.
    pub fn writer(delay_ms: u64, out: Vec<u8>, err: Vec<u8>) -> Tail {
        let mut ops = Vec::new();
        if !out.is_empty() {
            ops.push((1u8, out.len(), 0u64));
        }
        if !err.is_empty() {
            ops.push((2u8, err.len(), 0u64));
        }
        Tail {
            delay_ms,
            keep_out: true,
            keep_err: true,
            setsid: false,
            plan: Plan { out, err, ops, exit: 0, linger_ms: 0, shape: "writer".into() },
        }
    }
    pub fn describe(&self) -> Value {
        json!({
            "delay_ms": self.delay_ms, "holds_stdout": self.keep_out, "holds_stderr": self.keep_err,
            "own_session": self.setsid, "writes_stdout": self.plan.out.len(), "writes_stderr": self.plan.err.len(),
            "writes": self.plan.ops.len(), "linger_ms": self.plan.linger_ms,
        })
    }
    /// How long after its start the tail is gone at the latest (without scheduling noise).
    pub fn life_ms(&self) -> u64 {
        self.delay_ms + self.plan.linger_ms + self.plan.ops.iter().map(|o| o.2).sum::<u64>() / 1000
    }
}

/// Shape tag of a tail set (for distinct counting): bucketed delays, what is held, what is written.
pub fn tails_shape(tails: &[Tail]) -> String {
    if tails.is_empty() {
        return "notail".into();
    }
    tails
        .iter()
        .map(|t| {
            format!(
                "d{}{}{}{}w{}{}",
                match t.delay_ms {
                    0..=49 => "0",
                    50..=399 => "s",
                    400..=999 => "m",
                    1000..=1999 => "l",
                    _ => "xl",
                },
                if t.keep_out { "O" } else { "" },
                if t.keep_err { "E" } else { "" },
                if t.setsid { "S" } else { "" },
                if t.plan.out.is_empty() { "" } else { "o" },
                if t.plan.err.is_empty() { "" } else { "e" },
            )
        })
        .collect::<Vec<_>>()
        .join("+")
}

/// Seeded descendants for a random case: mostly short delays (the slow ones are directed cases).
pub fn gen_tails(rng: &mut Rng) -> Vec<Tail> {
    let n = 1 + rng.usize(2);
    let mut tails = Vec::new();
    // per stream at most one descendant writes, so that the order of bytes per stream is known
    let (mut out_taken, mut err_taken) = (false, false);
    for _ in 0..n {
        let delay_ms = match rng.below(20) {
            0..=13 => 20 + rng.below(230),
            14..=18 => 250 + rng.below(650),
            _ => 1100 + rng.below(300),
        };
        let (keep_out, keep_err) = *rng.pick(&[(true, true), (true, true), (true, false), (false, true)]);
        let w_out = keep_out && !out_taken && rng.chance(2, 3);
        let w_err = keep_err && !err_taken && rng.chance(1, 2);
        out_taken |= w_out;
        err_taken |= w_err;
        let size = |rng: &mut Rng| *rng.pick(&[1usize, 5, 100, 4096, 8192, 8193, 20000]);
        let payload = |rng: &mut Rng, on: bool| -> Vec<u8> {
            if !on {
                return Vec::new();
            }
            let n = size(rng);
            let c = Content::pick(rng);
            let c = if c == Content::Empty { Content::Ascii } else { c };
            gen_payload(rng, c, n)
        };
        let out = payload(rng, w_out);
        let err = payload(rng, w_err);
        let mut plan = plan_from(rng, out, err, 20, "tail");
        plan.exit = 0;
        // sometimes give a pipe up after the writes and stay around a little, or just stay around
        match rng.below(4) {
            0 => plan.linger_ms = rng.below(150),
            1 => {
                plan.ops.push((if rng.bool() { 11 } else { 12 }, 0, 0));
                plan.linger_ms = rng.below(150);
            }
            _ => {}
        }
        tails.push(Tail { delay_ms, keep_out, keep_err, setsid: rng.chance(1, 4), plan });
    }
    tails
}

/// Where the processes of one case journal what they did.
#[derive(Clone, Debug)]
pub struct Journals {
    pub child: std::path::PathBuf,
    pub tails: Vec<std::path::PathBuf>,
}

#[derive(Clone, Copy, Debug)]
pub struct Rec {
    pub kind: u64,
    pub t_ms: u64,
    pub a: u64,
    pub b: u64,
}

pub fn read_journal(path: &Path) -> Vec<Rec> {
    let b = std::fs::read(path).unwrap_or_default();
    b.chunks_exact(32)
        .map(|c| {
            let f = |i: usize| u64::from_le_bytes(c[i * 8..i * 8 + 8].try_into().unwrap_or([0; 8]));
            Rec { kind: f(0), t_ms: f(1), a: f(2), b: f(3) }
        })
        .collect()
}

/// /proc says the process is gone (or a zombie: its descriptors are closed).
pub fn pid_gone(pid: u64) -> bool {
    match std::fs::read_to_string(format!("/proc/{pid}/stat")) {
        Err(_) => true,
        Ok(s) => match s.rfind(')') {
            Some(i) => matches!(s[i + 1..].trim_start().chars().next(), Some('Z') | Some('X') | None),
            None => false,
        },
    }
}

/// What the journals say about the processes of a case.
pub struct Lives {
    pub child_started: bool,
    pub child_over: bool,
    pub tails_spawned: usize,
    /// every process that was started has exited (marker) or is gone (/proc)
    pub all_over: bool,
    pub tails_killed: usize,
}

impl Journals {
    pub fn lives(&self) -> Lives {
        let cj = read_journal(&self.child);
        let child_pid = cj.iter().find(|r| r.kind == J_START).map(|r| r.a);
        let child_over = cj.iter().any(|r| r.kind == J_EXIT) || child_pid.map(pid_gone).unwrap_or(false);
        let spawned: Vec<(u64, usize)> = cj.iter().filter(|r| r.kind == J_SPAWNED).map(|r| (r.a, r.b as usize)).collect();
        let mut all_over = child_pid.is_some() && child_over;
        let mut killed = 0;
        for (pid, i) in &spawned {
            let exited = self.tails.get(*i).map(|p| read_journal(p).iter().any(|r| r.kind == J_EXIT)).unwrap_or(false);
            if !exited {
                if pid_gone(*pid) {
                    killed += 1;
                } else {
                    all_over = false;
                }
            }
        }
        Lives { child_started: child_pid.is_some(), child_over, tails_spawned: spawned.len(), all_over, tails_killed: killed }
    }
}

/// After the run's terminal frame: wait until every process of the case is over (exit marker in its
/// journal, or gone according to /proc), at most `max`. A child that never journalled its start was
/// never run (the shell has been reaped by then).
pub async fn wait_all_over(j: &Journals, max: std::time::Duration) -> Lives {
    let t = std::time::Instant::now();
    loop {
        let mut l = j.lives();
        if !l.child_started {
            l.all_over = true;
        }
        if l.all_over || t.elapsed() >= max {
            return l;
        }
        tokio::time::sleep(std::time::Duration::from_millis(10)).await;
    }
}

/// Ground truth of one case with descendants: per stream the child's bytes followed by the bytes of
/// the (at most one) tail that writes to that stream, and — from the journals — how much of that had
/// been written by when.
pub struct TailTruth {
    /// [stdout, stderr]
    pub full: [Vec<u8>; 2],
    /// per stream: (unix ms at which a write had returned, cumulative bytes of `full` written by then, process)
    pub marks: [Vec<(u64, u64, usize)>; 2],
    /// per stream: every process that writes to it has journalled its exit
    pub complete: [bool; 2],
}

impl TailTruth {
    pub fn build(plan: &Plan, tails: &[Tail], j: Option<&Journals>) -> TailTruth {
        let mut full = [plan.out.clone(), plan.err.clone()];
        let mut marks: [Vec<(u64, u64, usize)>; 2] = [Vec::new(), Vec::new()];
        let mut complete = [true, true];
        let cj = j.map(|j| read_journal(&j.child)).unwrap_or_default();
        let child_exited = cj.iter().any(|r| r.kind == J_EXIT);
        for k in 0..2 {
            for r in cj.iter().filter(|r| r.kind == J_WROTE || r.kind == J_EXIT) {
                marks[k].push((r.t_ms, if k == 0 { r.a } else { r.b }, 0));
            }
            if !child_exited && !full[k].is_empty() {
                complete[k] = false;
            }
        }
        for (i, t) in tails.iter().enumerate() {
            let tj = j.and_then(|j| j.tails.get(i)).map(|p| read_journal(p)).unwrap_or_default();
            let exited = tj.iter().any(|r| r.kind == J_EXIT);
            for k in 0..2 {
                let data = if k == 0 { &t.plan.out } else { &t.plan.err };
                let keeps = if k == 0 { t.keep_out } else { t.keep_err };
                if data.is_empty() || !keeps {
                    continue;
                }
                let base = if k == 0 { plan.out.len() } else { plan.err.len() } as u64;
                full[k].extend_from_slice(data);
                for r in tj.iter().filter(|r| r.kind == J_WROTE || r.kind == J_EXIT) {
                    marks[k].push((r.t_ms, base + if k == 0 { r.a } else { r.b }, i + 1));
                }
                if !exited {
                    complete[k] = false;
                }
            }
        }
        TailTruth { full, marks, complete }
    }

    /// Bounds on the number of bytes of stream `k` that were in the pipe when a frame stamped
    /// `t_ms` was made: at least what had been written `slack` earlier, at most what writes that
    /// may have begun up to `slack` later carried.
    pub fn bounds(&self, k: usize, t_ms: u64, slack_ms: u64) -> (u64, u64) {
        let lo = self.marks[k].iter().filter(|(t, _, _)| t + slack_ms <= t_ms).map(|(_, n, _)| *n).max().unwrap_or(0);
        let hi = if self.complete[k] {
            // everything journalled up to the cut-off, plus per process the first write that returned after it
            let cut = t_ms + slack_ms;
            let mut hi = self.marks[k].iter().filter(|(t, _, _)| *t <= cut).map(|(_, n, _)| *n).max().unwrap_or(0);
            let mut seen: Vec<usize> = Vec::new();
            for (t, n, p) in &self.marks[k] {
                if *t > cut && !seen.contains(p) {
                    seen.push(*p);
                    hi = hi.max(*n);
                }
            }
            hi
        } else {
            self.full[k].len() as u64
        };
        (lo, hi.max(lo))
    }
}

pub fn read_progress(path: &Path) -> Option<(u64, u64)> {
    let b = std::fs::read(path).ok()?;
    if b.len() < 16 {
        return None;
    }
    Some((
        u64::from_le_bytes(b[..8].try_into().ok()?),
        u64::from_le_bytes(b[8..16].try_into().ok()?),
    ))
}

pub fn sh_quote(s: &str) -> String {
    format!("'{}'", s.replace('\'', "'\\''"))
}

pub fn lossy(b: &[u8]) -> String {
    String::from_utf8_lossy(b).into_owned()
}

/// Relation of a size to the three boundaries, for shape hashing.
pub fn bucket(size: usize, limit: usize, cap: usize) -> String {
    let rel = |b: usize| -> &'static str {
        if size < b {
            "<"
        } else if size == b {
            "="
        } else {
            ">"
        }
    };
    format!(
        "{}L{}R{}C{}",
        if size == 0 { "0" } else { "n" },
        rel(limit),
        rel(8192),
        rel(cap)
    )
}
