//! C17 ground truth: the `rv emit <spec-file>` child and the generator of what it writes.
//!
//! The child writes generator-chosen bytes to fd 1 / fd 2 with chosen write sizes and pauses and
//! exits with a chosen code, so the harness knows every byte written per stream. After every
//! successful write(2) it records the cumulative per-stream byte counts in a progress file, which
//! gives a lower bound on what was written when the child is killed by a cancellation.

use crate::prng::Rng;
use serde_json::{json, Value};
use std::path::Path;

/// `rv emit <spec-file>` — returns the exit code chosen by the spec (97/98 on harness errors).
pub fn emit_main(args: &[String]) -> i32 {
    let Some(path) = args.first() else {
        return 97;
    };
    let Ok(bytes) = std::fs::read(path) else {
        return 97;
    };
    let Ok(spec) = serde_json::from_slice::<Value>(&bytes) else {
        return 97;
    };
    let out = hex::decode(spec["out"].as_str().unwrap_or("")).unwrap_or_default();
    let err = hex::decode(spec["err"].as_str().unwrap_or("")).unwrap_or_default();
    let progress_fd: i32 = match spec["progress"].as_str() {
        Some(p) => {
            let Ok(c) = std::ffi::CString::new(p) else {
                return 97;
            };
            unsafe { libc::open(c.as_ptr(), libc::O_WRONLY | libc::O_CREAT, 0o600) }
        }
        None => -1,
    };
    let mut pos = [0usize; 2];
    let record = |pos: &[usize; 2]| {
        if progress_fd >= 0 {
            let mut b = [0u8; 16];
            b[..8].copy_from_slice(&(pos[0] as u64).to_le_bytes());
            b[8..].copy_from_slice(&(pos[1] as u64).to_le_bytes());
            unsafe {
                libc::pwrite(progress_fd, b.as_ptr() as *const libc::c_void, 16, 0);
            }
        }
    };
    record(&pos);
    if let Some(ops) = spec["ops"].as_array() {
        for op in ops {
            let fd = op[0].as_u64().unwrap_or(1) as i32;
            let n = op[1].as_u64().unwrap_or(0) as usize;
            let pause_us = op[2].as_u64().unwrap_or(0);
            if pause_us > 0 {
                std::thread::sleep(std::time::Duration::from_micros(pause_us));
            }
            let (data, k) = if fd == 2 { (&err, 1usize) } else { (&out, 0usize) };
            let end = (pos[k] + n).min(data.len());
            while pos[k] < end {
                let slice = &data[pos[k]..end];
                let r = unsafe { libc::write(fd, slice.as_ptr() as *const libc::c_void, slice.len()) };
                if r < 0 {
                    let e = std::io::Error::last_os_error();
                    if e.kind() == std::io::ErrorKind::Interrupted {
                        continue;
                    }
                    return 98;
                }
                pos[k] += r as usize;
                record(&pos);
            }
        }
    }
    let linger = spec["linger_ms"].as_u64().unwrap_or(0);
    if linger > 0 {
        std::thread::sleep(std::time::Duration::from_millis(linger));
    }
    spec["exit"].as_i64().unwrap_or(0) as i32
}

#[derive(Clone, Copy, Debug, PartialEq, Eq)]
pub enum Content {
    Empty,
    Ascii,
    Utf8,
    Binary,
    BinaryBadStart,
    MostlyText,
}

impl Content {
    pub fn pick(rng: &mut Rng) -> Content {
        match rng.below(12) {
            0 => Content::Empty,
            1..=3 => Content::Ascii,
            4..=6 => Content::Utf8,
            7..=8 => Content::Binary,
            9 => Content::BinaryBadStart,
            _ => Content::MostlyText,
        }
    }
    pub fn tag(&self) -> &'static str {
        match self {
            Content::Empty => "empty",
            Content::Ascii => "ascii",
            Content::Utf8 => "utf8",
            Content::Binary => "bin",
            Content::BinaryBadStart => "binbad",
            Content::MostlyText => "mostly",
        }
    }
}

/// One stream's payload of exactly `size` bytes (0 for `Empty`).
pub fn gen_payload(rng: &mut Rng, content: Content, size: usize) -> Vec<u8> {
    match content {
        Content::Empty => Vec::new(),
        Content::Ascii => {
            let mut v = Vec::with_capacity(size);
            while v.len() < size {
                let line = rng.usize(90);
                v.extend_from_slice(rng.ascii(line).as_bytes());
                match rng.below(6) {
                    0 => v.extend_from_slice(b"\r\n"),
                    1 => {}
                    _ => v.push(b'\n'),
                }
            }
            v.truncate(size);
            v
        }
        Content::Utf8 => utf8_exact(rng, size),
        Content::Binary => rng.bytes(size),
        Content::BinaryBadStart => {
            let mut v = rng.bytes(size);
            // an invalid byte wherever a read is likely to start
            let mut i = 0;
            while i < v.len() {
                v[i] = [0xFFu8, 0x80, 0xC0, 0xFE][rng.usize(4)];
                i += [1usize << 10, 1 << 12, 1 << 13][rng.usize(3)];
            }
            v
        }
        Content::MostlyText => {
            let mut v = utf8_exact(rng, size);
            let flips = 1 + rng.usize(6);
            for _ in 0..flips {
                if v.is_empty() {
                    break;
                }
                let i = rng.usize(v.len());
                v[i] = [0xFFu8, 0x00, 0xC0, 0x80, 0xED][rng.usize(5)];
            }
            v
        }
    }
}

fn utf8_exact(rng: &mut Rng, size: usize) -> Vec<u8> {
    let mut s = String::new();
    // dense multi-byte text half of the time, mixed otherwise
    let dense = rng.bool();
    while s.len() < size {
        if dense {
            const P: &[&str] = &["中", "文", "é", "🙂", "𝄞", "ß", "→", "\n", "日", "本"];
            s.push_str(P[rng.usize(P.len())]);
        } else {
            s.push_str(&rng.unicode(16));
        }
    }
    let mut end = size;
    while end > 0 && !s.is_char_boundary(end) {
        end -= 1;
    }
    let mut v = s.as_bytes()[..end].to_vec();
    while v.len() < size {
        v.push(b'x');
    }
    v
}

/// Sizes that straddle the preview limit, the 8 KiB read size and the artifact cap.
pub fn gen_size(rng: &mut Rng, limit: usize, cap: usize, max_size: usize) -> usize {
    let mut c: Vec<usize> = vec![0, 1, 2, 5, 8191, 8192, 8193, 16384, 16385, 24577];
    for base in [limit, cap] {
        for d in [-2i64, -1, 0, 1, 2, 3, 8191, 8192, 8193] {
            let v = base as i64 + d;
            if v >= 0 {
                c.push(v as usize);
            }
        }
    }
    c.retain(|v| *v <= max_size);
    match rng.below(10) {
        0..=5 => c[rng.usize(c.len())],
        6..=7 => rng.usize(300),
        _ => rng.usize(max_size.min(40_000) + 1),
    }
}

#[derive(Clone, Debug)]
pub struct Plan {
    pub out: Vec<u8>,
    pub err: Vec<u8>,
    /// (fd, bytes, pause before the write in µs)
    pub ops: Vec<(u8, usize, u64)>,
    pub exit: i32,
    pub linger_ms: u64,
    pub shape: String,
}

fn write_sizes(rng: &mut Rng, data: &[u8], max_writes: usize) -> (Vec<usize>, &'static str) {
    let size = data.len();
    if size == 0 {
        return (Vec::new(), "none");
    }
    let floor = size.div_ceil(max_writes.max(1)).max(1);
    let style = rng.below(4);
    match style {
        0 => (vec![size], "single"),
        1 => {
            let k = *rng.pick(&[1usize, 2, 3, 7, 100, 1000, 4096, 8191, 8192, 8193, 16384, 65536, 65537]);
            let k = k.max(floor);
            let mut v = Vec::new();
            let mut left = size;
            while left > 0 {
                let n = k.min(left);
                v.push(n);
                left -= n;
            }
            (v, "fixed")
        }
        2 => {
            let hi = (size / (1 + rng.usize(40))).max(floor).max(1);
            let mut v = Vec::new();
            let mut left = size;
            while left > 0 {
                let n = (floor + rng.usize(hi)).min(left).max(1);
                v.push(n);
                left -= n;
            }
            (v, "random")
        }
        _ => {
            // cut inside multi-byte characters (one byte after a lead byte)
            let mut cuts: Vec<usize> = Vec::new();
            let stride = floor.max(1);
            let mut i = 0usize;
            let mut last = 0usize;
            while i < size && cuts.len() < max_writes {
                if data[i] >= 0xC0 && i + 1 < size && i + 1 - last >= stride && rng.chance(1, 2) {
                    cuts.push(i + 1);
                    last = i + 1;
                }
                i += 1;
            }
            let mut v = Vec::new();
            let mut prev = 0;
            for c in cuts {
                v.push(c - prev);
                prev = c;
            }
            if size > prev {
                v.push(size - prev);
            }
            (v, "splitchar")
        }
    }
}

/// A full plan: two payloads, an interleaved write schedule, an exit code.
pub fn gen_plan(rng: &mut Rng, limit: usize, cap: usize, max_size: usize, max_writes: usize) -> Plan {
    let c_out = Content::pick(rng);
    let c_err = if rng.chance(1, 3) { Content::Empty } else { Content::pick(rng) };
    let s_out = gen_size(rng, limit, cap, max_size);
    let s_err = if rng.chance(1, 2) { rng.usize(400) } else { gen_size(rng, limit, cap, max_size) };
    let out = gen_payload(rng, c_out, s_out);
    let err = gen_payload(rng, c_err, s_err);
    plan_from(rng, out, err, max_writes, &format!("{}/{}", c_out.tag(), c_err.tag()))
}

pub fn plan_from(rng: &mut Rng, out: Vec<u8>, err: Vec<u8>, max_writes: usize, tag: &str) -> Plan {
    let (w_out, st_out) = write_sizes(rng, &out, max_writes);
    let (w_err, st_err) = write_sizes(rng, &err, max_writes);
    let pause_p = *rng.pick(&[0u64, 0, 1, 3, 10]);
    let mut budget_us: u64 = 120_000;
    let mut ops = Vec::new();
    let (mut i, mut j) = (0usize, 0usize);
    while i < w_out.len() || j < w_err.len() {
        let take_out = if i >= w_out.len() {
            false
        } else if j >= w_err.len() {
            true
        } else {
            rng.below((w_out.len() - i + w_err.len() - j) as u64) < (w_out.len() - i) as u64
        };
        let mut pause = 0u64;
        let splitting = (take_out && st_out == "splitchar") || (!take_out && st_err == "splitchar");
        if budget_us > 0 && (splitting || (pause_p > 0 && rng.below(10) < pause_p)) {
            pause = (200 + rng.below(2300)).min(budget_us);
            budget_us -= pause;
        }
        if take_out {
            ops.push((1u8, w_out[i], pause));
            i += 1;
        } else {
            ops.push((2u8, w_err[j], pause));
            j += 1;
        }
    }
    let exit = *rng.pick(&[0i32, 0, 0, 1, 2, 3, 7, 42, 126, 127, 255]);
    Plan {
        shape: format!("{tag}|{st_out}/{st_err}|p{pause_p}"),
        out,
        err,
        ops,
        exit,
        linger_ms: 0,
    }
}

impl Plan {
    pub fn spec(&self, progress: Option<&Path>) -> Value {
        json!({
            "out": hex::encode(&self.out),
            "err": hex::encode(&self.err),
            "ops": self.ops.iter().map(|(fd, n, p)| json!([fd, n, p])).collect::<Vec<_>>(),
            "exit": self.exit,
            "linger_ms": self.linger_ms,
            "progress": progress.map(|p| p.to_string_lossy().to_string()),
        })
    }

    /// Write the spec and return the shell command that runs it.
    pub fn command(&self, dir: &Path, name: &str, progress: bool) -> (String, Option<std::path::PathBuf>) {
        let spec_path = dir.join(format!("{name}.spec.json"));
        let prog_path = dir.join(format!("{name}.progress"));
        let spec = self.spec(if progress { Some(&prog_path) } else { None });
        let _ = std::fs::write(&spec_path, serde_json::to_vec(&spec).unwrap_or_default());
        let exe = std::env::current_exe().unwrap_or_else(|_| "rv".into());
        (
            format!("{} emit {}", sh_quote(&exe.to_string_lossy()), sh_quote(&spec_path.to_string_lossy())),
            if progress { Some(prog_path) } else { None },
        )
    }

    pub fn stream(&self, s: &str) -> &[u8] {
        if s == "stderr" {
            &self.err
        } else {
            &self.out
        }
    }
}

pub fn read_progress(path: &Path) -> Option<(u64, u64)> {
    let b = std::fs::read(path).ok()?;
    if b.len() < 16 {
        return None;
    }
    Some((
        u64::from_le_bytes(b[..8].try_into().ok()?),
        u64::from_le_bytes(b[8..16].try_into().ok()?),
    ))
}

pub fn sh_quote(s: &str) -> String {
    format!("'{}'", s.replace('\'', "'\\''"))
}

pub fn lossy(b: &[u8]) -> String {
    String::from_utf8_lossy(b).into_owned()
}

/// Relation of a size to the three boundaries, for shape hashing.
pub fn bucket(size: usize, limit: usize, cap: usize) -> String {
    let rel = |b: usize| -> &'static str {
        if size < b {
            "<"
        } else if size == b {
            "="
        } else {
            ">"
        }
    };
    format!(
        "{}L{}R{}C{}",
        if size == 0 { "0" } else { "n" },
        rel(limit),
        rel(8192),
        rel(cap)
    )
}
