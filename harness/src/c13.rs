//! C13 — no path argument reaches outside the workspace root.
//!
//! Layout per case: `K/top/` is the monitored region — sentinel files and directories with unique
//! canaries at three levels above the root, `top/o1/o2/ws/` = workspace root, sibling `ws2/`, a planted
//! foreign checkpoint directory; `K/data` = data dir (outside the monitored region). Every operation
//! runs in a child process (`rv c13-child`, one per configuration: cwd = root / outer / "/" / sibling /
//! a sub-directory of the root) because the working directory is process-global.
//!
//! Monitors (per operation): (1) manifest of everything in `top/` outside the root before/after — any
//! difference is a violation; (2) a canary of an outside sentinel in the op's frames / output or in any
//! file under the root (incl. `.rip/`) means an outside file was read; (3) a path that is absolute or
//! has a `..` component (harness decides with `Path::components`) must make the op report failure and
//! leave the manifest of the whole root incl. `.rip/checkpoints` unchanged; (4) thorough tier: a sample
//! of children runs under `strace -f -e trace=%file` and every successful file syscall between the
//! step markers whose lexically resolved path is outside root / data / system prefixes is reported.
//!
//! Stored-path injection (`planted_rewind_*`): the checkpoint store lives inside the root, so a well-formed manifest whose
//! `files[]` entries carry a path of the grammar (`exists` true and false, a clean entry before / after the hostile one,
//! hostile `id` / `session_id` fields) is planted under the session's store directory — through the system's own `write`
//! tool (runner / router) or directly on disk — and then rewound by id with each driver; monitors (1)-(4) judge the
//! rewind step (the plant is a legitimate in-root write, role "setup").
//!
//! Policy notes: for checkpoint `files[]` an absolute path that lies lexically inside the root (no `..`)
//! is legitimate (C14 quantifies over it, the repo's tests use it) and is not required to be refused;
//! log artifacts a task creates under `.rip/artifacts` before refusing its cwd are counted, not judged.

#[path = "ws_child.rs"]
pub mod ws_child;

use crate::fixture::scratch_root;
use crate::prng::Rng;
use crate::report::{Cfg, Report};
use serde_json::{json, Value};
use std::collections::BTreeMap;
use std::path::{Component, Path, PathBuf};
use std::time::Duration;

pub fn child_main(args: &[String]) -> i32 {
    ws_child::child_main(args)
}

pub struct Layout {
    pub k: PathBuf,
    pub top: PathBuf,
    pub outer: PathBuf,
    pub root: PathBuf,
    pub ws2: PathBuf,
    pub data: PathBuf,
    pub sentinels: BTreeMap<String, String>,
    pub sentinel_dirs: Vec<String>,
    pub canaries: Vec<String>,
}

pub fn build_layout(k: &Path, rng: &mut Rng) -> Layout {
    let _ = std::fs::remove_dir_all(k);
    let top = k.join("top");
    let outer = top.join("o1").join("o2");
    let root = outer.join("ws");
    let ws2 = outer.join("ws2");
    let data = k.join("data");
    for d in [&root, &ws2, &data, &outer.join("sdir"), &outer.join("emptyd"), &outer.join("evilcp").join("files")] {
        let _ = std::fs::create_dir_all(d);
    }
    let mut canaries = Vec::new();
    let mut can = |tag: &str, rng: &mut Rng| -> String {
        let c = format!("RVCANARY-{tag}-{}", rng.hex(10));
        canaries.push(c.clone());
        c
    };
    let mut sentinels: BTreeMap<String, String> = BTreeMap::new();
    let mut put = |p: PathBuf, content: String| {
        sentinels.insert(p.to_string_lossy().to_string(), content);
    };
    put(top.join("sent0.txt"), format!("{}\n", can("top", rng)));
    put(top.join("o1").join("sent1.txt"), format!("{}\n", can("o1", rng)));
    put(outer.join("sent.txt"), format!("{}\n", can("outer", rng)));
    put(outer.join("a.txt"), format!("{}\n", can("outer-a", rng)));
    put(outer.join("sdir").join("inner.txt"), format!("{}\n", can("inner", rng)));
    let name_can = can("name", rng);
    put(outer.join("sdir").join(format!("{name_can}.txt")), "named\n".to_string());
    put(ws2.join("peer.txt"), format!("{}\n", can("peer", rng)));
    put(ws2.join("a.txt"), format!("{}\n", can("ws2-a", rng)));
    let label = can("evil-label", rng);
    put(
        outer.join("evilcp").join("checkpoint.json"),
        json!({"id": "evilcp", "session_id": "s", "label": label, "created_at_ms": 1,
               "files": [{"path": "a.txt", "exists": true, "sha256": null}, {"path": "planted.txt", "exists": true, "sha256": null}]})
        .to_string(),
    );
    put(outer.join("evilcp").join("files").join("a.txt"), format!("{}\n", can("evil-a", rng)));
    put(outer.join("evilcp").join("files").join("planted.txt"), format!("{}\n", can("evil-planted", rng)));
    for (p, c) in &sentinels {
        let _ = std::fs::write(p, c);
    }
    // inside the root (no canaries)
    let _ = std::fs::create_dir_all(root.join("sub").join("deep"));
    let _ = std::fs::create_dir_all(root.join("d"));
    let _ = std::fs::write(root.join("a.txt"), "inside a\n");
    let _ = std::fs::write(root.join("sub").join("b.txt"), "inside b\n");
    let _ = std::fs::write(root.join("sub").join("deep").join("c.txt"), "inside c\n");
    let _ = std::fs::write(root.join("sp ace.txt"), "inside space\n");
    let _ = std::fs::write(root.join("only_in_root.txt"), "inside only\n");
    Layout {
        k: k.to_path_buf(),
        sentinel_dirs: vec![outer.join("emptyd").to_string_lossy().to_string()],
        top,
        outer,
        root,
        ws2,
        data,
        sentinels,
        canaries,
    }
}

pub const CWDS: &[&str] = &["root", "outer", "fsroot", "sibling", "subdir"];

pub fn cwd_path(l: &Layout, name: &str) -> PathBuf {
    match name {
        "root" => l.root.clone(),
        "outer" => l.outer.clone(),
        "fsroot" => PathBuf::from("/"),
        "sibling" => l.ws2.clone(),
        _ => l.root.join("sub"),
    }
}

/// (path string, fine-grained class)
pub fn path_grammar(l: &Layout) -> Vec<(String, &'static str)> {
    let r = l.root.to_string_lossy().to_string();
    let o = l.outer.to_string_lossy().to_string();
    let t = l.top.to_string_lossy().to_string();
    let name_can = l.canaries.iter().find(|c| c.contains("-name-")).cloned().unwrap_or_default();
    let mut v: Vec<(String, &'static str)> = Vec::new();
    let mut add = |class: &'static str, items: Vec<String>| {
        for i in items {
            v.push((i, class));
        }
    };
    add("abs_outside", vec![format!("{o}/sent.txt"), format!("{t}/sent0.txt"), format!("{o}/sdir"), format!("{o}/ws2/peer.txt"), format!("{o}/created_abs.txt"), format!("{o}/evilcp")]);
    // NOTE: no path of this grammar may resolve (against the root, the cwd, or after a defective resolver dropped or
    // kept its `..`) to a file the harness does not own: a defective rewind deletes / overwrites what it resolves to.
    add("abs_fs_root", vec!["/".into()]);
    add("abs_inside", vec![format!("{r}/a.txt"), format!("{r}/new_abs.txt"), r.clone(), format!("{r}/sub")]);
    add("abs_inside_dotdot", vec![format!("{r}/../sent.txt"), format!("{r}/sub/../a.txt"), format!("{r}/../ws2/peer.txt"), format!("{r}/../created_abs_dd.txt")]);
    add("dotdot_leading", vec!["../sent.txt".into(), "../sdir/inner.txt".into(), "../ws2/peer.txt".into(), "../ws2/a.txt".into(), "../created_dd.txt".into(), "../sdir".into(), "..".into(), "../evilcp".into()]);
    add("dotdot_deep", vec!["../../sent1.txt".into(), "../../../sent0.txt".into(), "../../../../evilcp".into()]);
    // exactly as many `..` as the root is deep, then the absolute path of an outside sentinel: the source is that
    // sentinel; the copy a defective checkpoint resolver makes (files/<rel>) lands 5 levels below `/`, which is still
    // inside this case's scratch directory (checked), so nothing the harness does not own is ever touched
    let depth = l.root.components().filter(|c| matches!(c, Component::Normal(_))).count();
    if let Some(p) = deep_sentinel_path(l) {
        let _ = depth;
        add("dotdot_to_fs_root", vec![p]);
    }
    add("dotdot_middle", vec!["sub/../../sent.txt".into(), "sub/deep/../../../sent.txt".into(), "a/../../sent.txt".into(), "a.txt/../../sent.txt".into()]);
    add("dotdot_trailing", vec!["sub/..".into(), "sub/deep/../..".into(), "../sdir/..".into()]);
    add("dot_dotdot", vec!["./../sent.txt".into(), "././../sent.txt".into(), "sub/./../../sent.txt".into()]);
    add("dotdot_inside", vec!["sub/../a.txt".into(), "sub/deep/../b.txt".into()]);
    add("backslash", vec!["..\\sent.txt".into(), "sub\\b.txt".into(), "..\\..\\sent1.txt".into()]);
    add("dot", vec![".".into(), "./a.txt".into(), "sub/./b.txt".into(), "./".into()]);
    add("empty", vec!["".into(), " ".into()]);
    add("slashes", vec!["a.txt/".into(), "sub/".into(), "sub//".into(), "sub//b.txt".into(), "sub///deep//c.txt".into()]);
    add("long", vec!["x".repeat(5000), format!("sub/{}", "y".repeat(5000)), format!("../{}", "z".repeat(5000)), format!("{}f", "long/".repeat(1200))]);
    add("unicode", vec!["ünï/日本.txt".into(), "sub/🙂.txt".into(), "\u{2025}/sent.txt".into(), "．．/sent.txt".into(), "..\u{200b}/sent.txt".into(), "sub/e\u{301}.txt".into()]);
    add("nul", vec!["a\0b.txt".into(), "../sent.txt\0".into(), "\0".into(), "sub/\0/../../sent.txt".into()]);
    add("rel_sentinel_name", vec!["sent.txt".into(), "sdir/inner.txt".into(), "peer.txt".into(), "sdir".into(), format!("sdir/{name_can}.txt"), format!("{}/sent.txt", o.trim_start_matches('/')), "evilcp".into()]);
    add("rel_inside", vec!["a.txt".into(), "sub/b.txt".into(), "new.txt".into(), "sub/new2.txt".into(), "d".into(), "sub".into(), "sp ace.txt".into()]);
    // escapes hidden behind leading / trailing white space: as given they are ordinary relative names (a first
    // component " .." is not `..`), so they stay inside the root unless something trims AFTER validating; trimmed they
    // resolve to the same harness-owned targets as the unpadded escapes above
    add("padded_escape", vec![
        " ../sent.txt".into(), "\t../sent.txt".into(), "\n../ws2/peer.txt".into(), "  ../created_pad.txt".into(), " ..".into(),
        "../sent.txt ".into(), " ../sdir/inner.txt\n".into(), format!(" {o}/sent.txt"), format!("\t{o}/created_pad_abs.txt"),
        format!("\n{o}/sdir"), " ../evilcp".into(),
    ]);
    add("tilde_env", vec!["~/x".into(), "$HOME/x".into(), "~root/.profile".into()]);
    add("abs_double_slash", vec![format!("/{o}/sent.txt"), "///".into()]);
    v
}

/// `../` x depth(root) + absolute path of the outer sentinel, provided the copy `files/<rel>` of a resolver that keeps
/// `..` lands inside this case's directory (5 components below `/`).
fn deep_sentinel_path(l: &Layout) -> Option<String> {
    let depth = l.root.components().filter(|c| matches!(c, Component::Normal(_))).count();
    let k_depth = l.k.components().filter(|c| matches!(c, Component::Normal(_))).count();
    if !(3..=5).contains(&k_depth) {
        return None;
    }
    let sent = l.outer.join("sent.txt");
    Some(format!("{}{}", "../".repeat(depth), sent.to_string_lossy().trim_start_matches('/')))
}

/// Random composition from the grammar's segments (used after the enumeration is exhausted).
fn random_path(l: &Layout, rng: &mut Rng) -> (String, &'static str) {
    const SEGS: &[&str] = &["..", ".", "", "sub", "deep", "a.txt", "sent.txt", "sdir", "ws2", "ws", "o2", "o1", "b.txt", "peer.txt", "evilcp", "é", "..\\", "a\0"];
    let n = 1 + rng.usize(6);
    let mut parts: Vec<String> = (0..n).map(|_| SEGS[rng.usize(SEGS.len())].to_string()).collect();
    // never more than four `..`: root.join(path) stays inside this case's directory whatever the resolver does
    let mut ups = 0;
    for part in parts.iter_mut() {
        if part == ".." || part == "..\\" {
            ups += 1;
            if ups > 4 {
                *part = "sub".to_string();
            }
        }
    }
    if rng.chance(1, 6) {
        parts.insert(0, l.root.to_string_lossy().to_string());
    } else if rng.chance(1, 8) {
        parts.insert(0, l.outer.to_string_lossy().to_string());
    }
    (parts.join("/"), "random")
}

pub const KINDS: &[&str] = &[
    "read", "write", "write_router", "ls", "grep", "patch_add", "patch_delete", "patch_update", "patch_move", "ws_patch",
    "cp_create_direct", "cp_create_runner", "cp_create_router", "cp_roundtrip_direct", "cp_roundtrip_runner",
    "cp_roundtrip_router", "auto_roundtrip", "rewind_id_direct", "rewind_id_runner", "rewind_id_router", "bash_cwd",
    "task_cwd", "artifact_fetch_id", "planted_rewind_direct", "planted_rewind_runner", "planted_rewind_router",
];

/// Stored-path injection is only generated for paths that resolve — against the root, against the process cwd, and
/// after trimming — to locations inside this case's own directory: at most four `..`, absolute paths only below
/// `top`, never with the file-system root as working directory (a defective rewind deletes / overwrites what it
/// resolves a stored path to).
fn planted_safe(l: &Layout, cwd: &Path, cwd_name: &str, p: &str) -> bool {
    if cwd_name == "fsroot" {
        return false;
    }
    let slashed = p.replace('\\', "/");
    let nul_cut = p.split('\0').next().unwrap_or("").to_string();
    for cand in [p, p.trim(), slashed.as_str(), slashed.trim(), nul_cut.as_str()] {
        let path = Path::new(cand);
        if path.components().filter(|c| matches!(c, Component::ParentDir)).count() > 4 {
            return false;
        }
        // segments that only become `..` on a platform / resolver that treats `\` as a separator
        if cand.split(['/', '\\']).filter(|s| s.trim() == "..").count() > 4 {
            return false;
        }
        if path.is_absolute() {
            if !lexical(Path::new("/"), cand).starts_with(&l.top) {
                return false;
            }
        } else if !lexical(&l.root, cand).starts_with(&l.k) || !lexical(cwd, cand).starts_with(&l.k) {
            return false;
        }
    }
    true
}

/// (hostile entry recorded as existing, stored copy planted, entry order, id-field variant) of a planted manifest
fn planted_params(variant: u64) -> (bool, bool, u64, u64) {
    (variant & 1 == 1, (variant >> 1) & 1 == 0, (variant >> 2) % 3, (variant / 12) % 16)
}

#[derive(Clone, Debug)]
struct Meta {
    kind: &'static str,
    path: String,
    class: &'static str,
    /// "main" = the step that takes the path argument, "rewind" = follow-up rewind, "setup" = harness op
    role: &'static str,
}

fn patch_for(kind: &str, p: &str, variant: u64) -> String {
    let body = match (kind, variant % 4) {
        ("patch_add", _) | ("ws_patch", 0) => format!("*** Add File: {p}\n+added by patch"),
        ("patch_delete", _) | ("ws_patch", 1) => format!("*** Delete File: {p}"),
        ("patch_update", _) | ("ws_patch", 2) => format!("*** Update File: {p}\n@@\n-inside a\n+changed by patch"),
        _ => format!("*** Update File: only_in_root.txt\n*** Move to: {p}\n@@\n-inside only\n+moved by patch"),
    };
    format!("*** Begin Patch\n{body}\n*** End Patch")
}

fn steps_for(kind: &'static str, p: &str, class: &'static str, variant: u64, next_index: usize, root: &str) -> (Vec<Value>, Vec<Meta>) {
    let m = |role: &'static str| Meta { kind, path: p.to_string(), class, role };
    let tool = |driver: &str, name: &str, args: Value| json!({"op": "tool", "driver": driver, "name": name, "args": args});
    match kind {
        "read" => (vec![tool("runner", "read", json!({"path": p}))], vec![m("main")]),
        "write" => (vec![tool("runner", "write", json!({"path": p, "content": "written by tool\n"}))], vec![m("main")]),
        "write_router" => (
            vec![tool("router", "write", json!({"path": p, "content": "written via router\n", "atomic": variant % 2 == 0}))],
            vec![m("main")],
        ),
        "ls" => (vec![tool("runner", "ls", json!({"path": p, "recursive": variant % 2 == 0}))], vec![m("main")]),
        "grep" => (vec![tool("runner", "grep", json!({"pattern": "RVCANARY|inside|named", "path": p}))], vec![m("main")]),
        "patch_add" | "patch_delete" | "patch_update" | "patch_move" => (
            vec![tool(if variant % 3 == 0 { "router" } else { "runner" }, "apply_patch", json!({"patch": patch_for(kind, p, variant)}))],
            vec![m("main")],
        ),
        "ws_patch" => (vec![json!({"op": "ws_patch", "patch": patch_for(kind, p, variant)})], vec![m("main")]),
        "cp_create_direct" | "cp_create_runner" | "cp_create_router" => {
            let d = &kind["cp_create_".len()..];
            let files = if variant % 3 == 0 { json!([format!("{root}/a.txt"), p]) } else { json!([p]) };
            (vec![json!({"op": "cp_create", "driver": d, "files": files, "label": "c13"})], vec![m("main")])
        }
        "cp_roundtrip_direct" | "cp_roundtrip_runner" | "cp_roundtrip_router" => {
            let d = &kind["cp_roundtrip_".len()..];
            (
                vec![
                    json!({"op": "cp_create", "driver": d, "files": [p], "label": "c13-rt"}),
                    json!({"op": "mutate_sentinels"}),
                    json!({"op": "cp_rewind", "driver": d, "ref": next_index}),
                ],
                vec![m("main"), m("setup"), m("rewind")],
            )
        }
        "auto_roundtrip" => (
            vec![
                tool("runner", "write", json!({"path": p, "content": "written before rewind\n"})),
                json!({"op": "mutate_sentinels"}),
                json!({"op": "cp_rewind", "driver": "runner", "ref": next_index}),
            ],
            vec![m("main"), m("setup"), m("rewind")],
        ),
        "rewind_id_direct" | "rewind_id_runner" | "rewind_id_router" => {
            let d = &kind["rewind_id_".len()..];
            (vec![json!({"op": "cp_rewind", "driver": d, "id": p})], vec![m("main")])
        }
        "planted_rewind_direct" | "planted_rewind_runner" | "planted_rewind_router" => {
            let d = &kind["planted_rewind_".len()..];
            let (exists, stored, order, idf) = planted_params(variant);
            let hostile = json!({"path": p, "exists": exists, "stored": exists && stored});
            let entries = match order {
                0 => json!([{"path": "a.txt", "exists": true, "stored": true}, hostile]),
                1 => json!([hostile]),
                _ => json!([{"path": "new_planted.txt", "exists": false}, hostile, {"path": "sub/b.txt", "exists": true, "stored": true}]),
            };
            let outer = Path::new(root).parent().map(|x| x.to_string_lossy().to_string()).unwrap_or_default();
            let mut plant = json!({"op": "plant_cp", "driver": d, "via": if d == "direct" || variant % 7 == 3 { "fs" } else { "tool" },
                                   "id": format!("planted-{next_index}"), "entries": entries});
            match idf {
                // fields that disagree with the directory the manifest sits in (`<store>/<session>/<id>` joined naively
                // lands on the foreign checkpoint `outer/evilcp`)
                13 => plant["manifest_id"] = json!("../../../../evilcp"),
                14 => {
                    plant["manifest_session"] = json!("../../..");
                    plant["manifest_id"] = json!("evilcp");
                }
                15 => plant["manifest_id"] = json!(format!("{outer}/evilcp")),
                _ => {}
            }
            (vec![plant, json!({"op": "cp_rewind", "driver": d, "ref": next_index})], vec![m("setup"), m("main")])
        }
        "bash_cwd" => (vec![tool("runner", "bash", json!({"command": "pwd", "cwd": p}))], vec![m("main")]),
        "task_cwd" => (vec![json!({"op": "task", "args": {"command": "pwd", "cwd": p}})], vec![m("main")]),
        _ => (vec![tool("runner", "artifact_fetch", json!({"id": p}))], vec![m("main")]),
    }
}

pub fn coarse_class(p: &str) -> &'static str {
    let path = Path::new(p);
    if path.components().any(|c| matches!(c, Component::ParentDir)) {
        "dotdot"
    } else if path.is_absolute() {
        "absolute"
    } else if !path.components().any(|c| matches!(c, Component::Normal(_))) {
        // "", ".", "./" … : the root directory itself
        "root_itself"
    } else {
        "relative"
    }
}

fn must_refuse(kind: &str, p: &str, root: &Path) -> bool {
    let path = Path::new(p);
    let dotdot = path.components().any(|c| matches!(c, Component::ParentDir));
    if dotdot {
        return true;
    }
    if path.is_absolute() {
        // (a STORED absolute path below the root is hostile input, but create itself accepts absolute paths below the
        // root: whether rewind has to refuse it is debatable, so only the outside-effect monitors judge that class)
        let checkpoint_files = kind.starts_with("cp_create") || kind.starts_with("cp_roundtrip") || kind.starts_with("planted_rewind");
        if checkpoint_files && path.starts_with(root) {
            return false;
        }
        return true;
    }
    false
}

fn family(kind: &str, role: &str) -> &'static str {
    if role == "rewind" {
        return "checkpoint_rewind";
    }
    match kind {
        "read" => "read",
        "write" | "write_router" | "auto_roundtrip" => "write",
        "ls" => "ls",
        "grep" => "grep",
        "patch_add" | "patch_delete" | "patch_update" | "patch_move" => "apply_patch",
        "ws_patch" => "ws_patch",
        "bash_cwd" => "bash_cwd",
        "task_cwd" => "task_cwd",
        "artifact_fetch_id" => "artifact_fetch_id",
        k if k.starts_with("rewind_id") => "checkpoint_rewind_id",
        k if k.starts_with("planted_rewind") => "checkpoint_rewind_stored_path",
        _ => "checkpoint_create",
    }
}

pub fn run(cfg: &Cfg) -> i32 {
    let mut r = Report::new(
        "C13",
        "fault_enumeration",
        "enumeration of (path-taking argument position [26 kinds: read/write/ls/grep path, patch add/delete/update/move-to \
         via tool and Workspace, checkpoint create files[] via Workspace / ToolRunner / router envelope, create->sentinel \
         change->rewind round trips, auto-checkpoint of write + rewind, rewind id, bash cwd, task cwd, artifact id, STORED manifest path: a well-formed \
         manifest with the path in files[] (exists true/false, clean entries around it, hostile id/session_id fields) planted in \
         the session's store through the write tool or on disk, then rewound via Workspace / ToolRunner / router] x path \
         grammar [23 classes, ~90 strings] x process cwd [root, outer, /, sibling, sub-directory]), one child process per \
         (cwd, block); afterwards seeded random compositions; distinct = (kind, path class, cwd, outcome) tuples observed; \
         non-trivial = the child executed the step and all three manifests/scans were taken",
    );
    r.assume("symlink-based escapes are out of scope");
    r.assume("absolute checkpoint paths that lie lexically inside the root are legitimate (C14 quantifies over them)");
    r.assume("task log artifacts under .rip/artifacts created before a cwd refusal are counted, not judged");
    r.assume("outside reads are visible through canaries (frames, tool output, files under the root) and, in the thorough tier, strace");
    let base = scratch_root().join(format!("c13-{}", cfg.shard.0));
    let _ = std::fs::create_dir_all(&base);
    // strace: one in three children in the thorough tier, one in eight (plus the directed children) in the quick tier —
    // a transient file outside the root (created, then removed before the operation returns) is visible only here
    let strace_ok = true;
    let strace_every: u64 = if cfg.tier == crate::report::Tier::Thorough || cfg.has_flag("--strace") { 3 } else { 8 };
    let strace_avail = std::process::Command::new("strace").arg("-V").output().map(|o| o.status.success()).unwrap_or(false);
    if strace_ok && !strace_avail {
        r.note("strace", json!("unavailable - monitor (4) skipped"));
    }

    if let Some(path) = &cfg.replay {
        let (seed, case) = crate::c12::read_replay(path, cfg.seed);
        let mut c2 = cfg.clone();
        c2.seed = seed;
        one_case(&c2, &mut r, &base, case, false);
        let _ = std::fs::remove_dir_all(&base);
        return r.finish(&c2);
    }

    let max_cases = cfg.tier.pick(3_000u64, 100_000_000u64);
    let mut case = 0u64;
    while case < max_cases && !r.over(cfg) {
        let idx = case;
        case += 1;
        if !cfg.mine(idx) {
            continue;
        }
        let strace = strace_ok && strace_avail && ((idx / cfg.shard.1) % strace_every == 0 || idx < 5);
        one_case(cfg, &mut r, &base, idx, strace);
    }
    let _ = std::fs::remove_dir_all(&base);
    r.finish(cfg)
}

const BLOCK: usize = 40;
const DIRECTED: u64 = 5;

fn one_case(cfg: &Cfg, r: &mut Report, base: &Path, idx: u64, strace: bool) {
    let mut rng = cfg.case_rng(idx);
    let k = base.join(format!("k{idx}"));
    let l = build_layout(&k, &mut rng);
    let cwd_name = CWDS[(idx % CWDS.len() as u64) as usize]; // DIRECTED == CWDS.len(): idx 0..4 = one directed child per cwd
    let cwd = cwd_path(&l, cwd_name);
    let grammar = path_grammar(&l);
    let product = KINDS.len() * grammar.len();
    let blocks = product.div_ceil(BLOCK);
    let block = (idx.saturating_sub(DIRECTED) / CWDS.len() as u64) as usize;

    // (kind, path) pairs of this child
    let mut pairs: Vec<(&'static str, String, &'static str, u64)> = Vec::new();
    if idx < DIRECTED {
        // directed: one child per cwd, the shortest inputs that exhibit each known finding (and their clean twins)
        let o = l.outer.to_string_lossy().to_string();
        let r0 = l.root.to_string_lossy().to_string();
        let d: Vec<(&'static str, String)> = vec![
            ("cp_roundtrip_direct", "../ws2/peer.txt".into()),
            ("cp_roundtrip_router", "../sent.txt".into()),
            ("cp_create_runner", "sent.txt".into()),
            ("cp_create_router", format!("{o}/sent.txt")),
            ("cp_create_direct", "sub/..".into()),
            ("cp_create_direct", format!("{r0}/a.txt")),
            ("cp_create_direct", "sub/b.txt".into()),
            ("write", format!("{o}/created_abs.txt")),
            ("write", "../ws2/peer.txt".into()),
            ("write_router", "../sent.txt".into()),
            ("auto_roundtrip", "sent.txt".into()),
            ("patch_add", "sent.txt".into()),
            ("patch_update", "a.txt".into()),
            ("write", "./".into()),
            ("write", "new.txt".into()),
            ("rewind_id_direct", "../../../../evilcp".into()),
            ("rewind_id_direct", format!("{o}/evilcp")),
            ("rewind_id_router", "../../../../evilcp".into()),
            ("read", "../sent.txt".into()),
            ("grep", "..".into()),
            ("ls", format!("{o}/sdir")),
            ("bash_cwd", "..".into()),
            ("task_cwd", "../sdir".into()),
            ("cp_create_direct", "./".into()),
            ("patch_add", ".".into()),
        ];
        let mut d = d;
        if let Some(p) = deep_sentinel_path(&l) {
            // the stored copy lands outside the root (see path_grammar)
            d.push(("cp_create_direct", p.clone()));
            d.push(("write", p));
        }
        for (j, (kind, p)) in d.into_iter().enumerate() {
            pairs.push((kind, p, "directed", j as u64 + 1));
        }
        // stored-path injection; variant = exists | no-stored-copy << 1 | order << 2 | id-field variant * 12
        let dp: Vec<(&'static str, String, u64)> = vec![
            ("planted_rewind_direct", "../sent.txt".into(), 0),        // absent at checkpoint time, after a clean entry
            ("planted_rewind_runner", "../ws2/peer.txt".into(), 4),    // the only entry
            ("planted_rewind_router", "../sdir/inner.txt".into(), 8),  // between two clean entries
            ("planted_rewind_runner", "../sent.txt".into(), 1),        // recorded as existing, stored copy planted
            ("planted_rewind_direct", "../created_dd.txt".into(), 3),  // recorded as existing, no stored copy
            ("planted_rewind_direct", format!("{o}/sent.txt"), 0),
            ("planted_rewind_router", format!("{o}/created_abs.txt"), 1),
            ("planted_rewind_direct", "sub/../../sent.txt".into(), 8),
            ("planted_rewind_runner", format!("{r0}/../sent.txt"), 0),
            ("planted_rewind_direct", "a.txt".into(), 156),            // clean path, id field -> foreign checkpoint
            ("planted_rewind_direct", "a.txt".into(), 169),            // clean path, session_id + id fields -> foreign checkpoint
            ("planted_rewind_runner", "a.txt".into(), 181),            // clean path, absolute id field
            ("planted_rewind_router", "new.txt".into(), 0),            // clean twins
            ("planted_rewind_runner", "sub/b.txt".into(), 1),
            ("planted_rewind_direct", format!("{r0}/a.txt"), 0),
        ];
        for (kind, p, variant) in dp {
            pairs.push((kind, p, "directed", variant));
        }
    } else if block < blocks {
        // stride through the product so that one block mixes kinds and classes
        for j in 0..BLOCK {
            let lin = block + j * blocks;
            if lin >= product {
                break;
            }
            let kind = KINDS[lin % KINDS.len()];
            let (p, class) = grammar[(lin / KINDS.len()) % grammar.len()].clone();
            pairs.push((kind, p, class, lin as u64 + (idx % 7)));
        }
    } else {
        for _ in 0..BLOCK {
            let kind = KINDS[rng.usize(KINDS.len())];
            let (p, class) = if rng.chance(1, 3) { grammar[rng.usize(grammar.len())].clone() } else { random_path(&l, &mut rng) };
            pairs.push((kind, p, class, rng.below(1000)));
        }
    }
    let before = pairs.len();
    pairs.retain(|(kind, p, _, _)| !kind.starts_with("planted_rewind") || planted_safe(&l, &cwd, cwd_name, p));
    r.count("stored_path_pairs_not_generated_for_safety", (before - pairs.len()) as u64);
    // the session's checkpoint directory exists in any workspace that has been used before
    let mut steps: Vec<Value> = vec![json!({"op": "cp_create", "driver": "direct", "files": [format!("{}/a.txt", l.root.to_string_lossy())], "label": "setup"})];
    let mut metas: Vec<Meta> = vec![Meta { kind: "cp_create_direct", path: String::new(), class: "setup", role: "setup" }];
    let mut variants: Vec<u64> = vec![0];
    for (kind, p, class, variant) in &pairs {
        let (s, m) = steps_for(kind, p, class, *variant, steps.len(), &l.root.to_string_lossy());
        variants.extend(std::iter::repeat(*variant).take(s.len()));
        steps.extend(s);
        metas.extend(m);
    }
    let spec = json!({
        "top": l.top, "root": l.root, "data": l.data, "cwd": cwd, "session": "c13-session",
        "canaries": l.canaries, "sentinels": l.sentinels, "sentinel_dirs": l.sentinel_dirs,
        "reset_root": true, "want_tree": false, "steps": steps,
    });
    let t_child = std::time::Instant::now();
    let run = ws_child::run_child(&l.k, &spec, strace, Duration::from_secs(cfg.tier.pick(60, 240)));
    let Some(doc) = run.doc else {
        r.inconclusive(&format!("case {idx} (cwd={cwd_name}): {}", run.error.unwrap_or_default()));
        let _ = std::fs::remove_dir_all(&k);
        return;
    };
    let results: Vec<Value> = doc.get("steps").and_then(|x| x.as_array()).cloned().unwrap_or_default();
    if cfg.has_flag("--timing") {
        let exec: u64 = results.iter().map(|x| x.get("exec_us").and_then(|v| v.as_u64()).unwrap_or(0)).sum();
        let total = results.last().and_then(|x| x.get("since_start_us")).and_then(|v| v.as_u64()).unwrap_or(0);
        eprintln!("case {idx}: child wall {:?}, steps {}, exec {} ms, child loop {} ms", t_child.elapsed(), results.len(), exec / 1000, total / 1000);
    }
    if results.len() != metas.len() {
        r.inconclusive(&format!("case {idx}: child returned {} of {} steps", results.len(), metas.len()));
    }
    let cwd_tag = if cwd_name == "root" { "cwd_eq_root" } else { "cwd_ne_root" };
    let mut main_hits: std::collections::HashSet<String> = std::collections::HashSet::new();
    for (si, (res, meta)) in results.iter().zip(metas.iter()).enumerate() {
        if meta.role == "setup" {
            continue;
        }
        if let Some(why) = res.get("skipped").and_then(|x| x.as_str()) {
            r.count("steps_skipped", 1);
            if meta.role == "main" && !why.contains("created no checkpoint") {
                r.inconclusive(&format!("case {idx} step {si} ({}): {why}", meta.kind));
            }
            continue;
        }
        if res.get("timed_out").and_then(|x| x.as_bool()) == Some(true) {
            r.inconclusive(&format!("case {idx} step {si} ({}): run did not end within the watchdog", meta.kind));
            continue;
        }
        r.eval();
        let ok = res.get("ok").and_then(|x| x.as_bool()).unwrap_or(false);
        let fam0 = family(meta.kind, meta.role);
        let coarse = coarse_class(&meta.path);
        let strs = |key: &str| -> Vec<String> {
            res.get(key)
                .and_then(|x| x.as_array())
                .map(|a| a.iter().filter_map(|x| x.as_str().map(|s| s.to_string())).collect())
                .unwrap_or_default()
        };
        let outside_diff = strs("outside_diff");
        let mut root_diff = strs("root_diff");
        let mut hits: Vec<Value> = res.get("canary_hits").and_then(|x| x.as_array()).cloned().unwrap_or_default();
        // a canary that is part of the supplied path string is echoed in frames / errors / stored metadata / created
        // file names: not a read
        hits.retain(|h| {
            let can = h.get("canary").and_then(|x| x.as_str()).unwrap_or("");
            !meta.path.contains(can)
        });
        // a rewind re-materialises what its create step stored; only canaries not already attributed to that
        // create step are new reads
        if meta.role == "rewind" {
            hits.retain(|h| !main_hits.contains(h.get("canary").and_then(|x| x.as_str()).unwrap_or("")));
        } else {
            main_hits = hits.iter().filter_map(|h| h.get("canary").and_then(|x| x.as_str()).map(|s| s.to_string())).collect();
        }
        let frame_kinds = strs("frame_kinds");
        if meta.kind.starts_with("planted_rewind") && si > 0 {
            let plant = &results[si - 1];
            let planted = plant.get("ok").and_then(|x| x.as_bool()) == Some(true);
            r.count(if planted { "stored_path_manifests_planted" } else { "stored_path_plant_failed" }, 1);
            if planted {
                let (exists, stored, order, idf) = planted_params(*variants.get(si).unwrap_or(&0));
                r.count(if exists { "stored_path_entry_exists_true" } else { "stored_path_entry_exists_false" }, 1);
                if exists && stored {
                    r.count("stored_path_entry_with_stored_copy", 1);
                }
                r.count(&format!("stored_path_entry_order_{order}"), 1);
                if idf >= 13 {
                    r.count("stored_path_manifest_with_hostile_id_fields", 1);
                }
                r.count(&format!("stored_path_rewind_{}", if ok { "succeeded" } else { "refused_or_failed" }), 1);
            }
        }
        r.count("steps_judged", 1);
        r.count(&format!("family_{fam0}"), 1);
        r.count(&format!("class_{}", meta.class), 1);
        r.count(&format!("cwd_{cwd_name}"), 1);
        r.count(if ok { "ops_succeeded" } else { "ops_failed" }, 1);
        r.count("outside_manifests_compared", 1);
        r.count("canary_scans", 1);
        if meta.kind == "task_cwd" {
            let before = root_diff.len();
            root_diff.retain(|d| !d[2..].starts_with(".rip/artifacts"));
            if before != root_diff.len() && !ok {
                r.count("failed_task_left_log_artifacts_not_judged", 1);
            }
        }
        // attribute tool-step effects to the automatic checkpoint when that is where they are
        let auto_frames = frame_kinds.iter().any(|k| k == "checkpoint_created" || k == "checkpoint_failed");
        let only_cp_store = |items: &[String]| !items.is_empty() && items.iter().all(|d| d[2..].starts_with(".rip/checkpoints"));
        let hit_places: Vec<String> = hits.iter().filter_map(|h| h.get("where").and_then(|x| x.as_str()).map(|s| s.to_string())).collect();
        let hits_only_cp_store = !hit_places.is_empty() && hit_places.iter().all(|w| w.starts_with("root:.rip/checkpoints"));
        let tool_family = matches!(fam0, "write" | "apply_patch");
        // the file tools' own resolvers refuse these lexically (no I/O): whatever happened came from the automatic checkpoint
        let lexically_refused = must_refuse(meta.kind, &meta.path, &l.root) && !ok;
        let fam_for = |in_store: bool| -> String {
            if tool_family && auto_frames && in_store {
                format!("auto_checkpoint_{fam0}")
            } else {
                fam0.to_string()
            }
        };
        let tail = if coarse == "relative" { format!("{coarse}/{cwd_tag}") } else { coarse.to_string() };
        let witness = |what: &str| {
            json!({"case": idx, "step": si, "cwd": cwd_name, "kind": meta.kind, "role": meta.role, "path": trunc(&meta.path, 300),
                   "path_class": meta.class, "variant": variants.get(si), "setup_step": if si > 0 && metas[si - 1].role == "setup" { steps.get(si - 1).cloned() } else { None },
                   "what": what, "result": res, "root": l.root, "replay_note": "re-run with --replay: the case index and seed regenerate the same child spec"})
        };
        let mut outcome = if ok { "ok".to_string() } else { "fail".to_string() };

        // (1) nothing outside the root changes
        if !outside_diff.is_empty() {
            outcome.push_str("+outside_modified");
            r.violation(
                &format!("C13/outside_modified/{}/{tail}", fam_for(lexically_refused)),
                &format!("{} with path {:?} (cwd={cwd_name}) changed files outside the workspace root: {:?}", meta.kind, trunc(&meta.path, 80), outside_diff),
                witness("outside manifest differs"),
            );
        }
        // (2) no canary of an outside sentinel shows up
        if !hits.is_empty() {
            outcome.push_str("+outside_read");
            r.violation(
                &format!("C13/outside_read/{}/{tail}", fam_for(hits_only_cp_store || lexically_refused)),
                &format!("{} with path {:?} (cwd={cwd_name}) read an outside sentinel: canary found in {:?}", meta.kind, trunc(&meta.path, 80), hit_places),
                witness("canary of an outside file observed"),
            );
        }
        // (3) refusal without side effects
        if meta.role == "main" && must_refuse(meta.kind, &meta.path, &l.root) {
            r.count("refusals_required", 1);
            if ok {
                outcome.push_str("+not_refused");
                r.violation(
                    &format!("C13/not_refused/{fam0}/{tail}"),
                    &format!("{} accepted path {:?} (absolute or containing '..')", meta.kind, trunc(&meta.path, 80)),
                    witness("operation reported success"),
                );
            } else if !root_diff.is_empty() {
                outcome.push_str("+side_effect");
                r.violation(
                    &format!("C13/refused_side_effect/{}/{tail}", fam_for(only_cp_store(&root_diff))),
                    &format!("{} refused path {:?} but left side effects inside the root: {:?}", meta.kind, trunc(&meta.path, 80), &root_diff[..root_diff.len().min(6)]),
                    witness("root manifest (incl. .rip) differs after a refused request"),
                );
            } else {
                r.count("refused_without_side_effect", 1);
            }
        }
        r.distinct_str(&format!("{}|{}|{}|{}|{outcome}", meta.kind, meta.role, meta.class, cwd_name));
        if r.samples.len() < r.max_samples && si % 17 == 3 {
            r.sample(json!({"case": idx, "cwd": cwd_name, "kind": meta.kind, "path": trunc(&meta.path, 120), "class": meta.class,
                            "ok": ok, "error": res.get("error"), "frame_kinds": frame_kinds, "outside_diff": outside_diff, "root_diff": root_diff}));
        }
    }
    // (4) strace
    if let Some(log) = run.strace_log {
        judge_strace(r, &log, &l, &cwd, &metas, &results, idx, cwd_name);
    }
    if cfg.has_flag("--keep") {
        let keep = std::path::PathBuf::from(format!("/tmp/rv-keep-c13-{idx}"));
        let _ = std::fs::remove_dir_all(&keep);
        crate::fixture::copy_dir(&k, &keep);
    }
    let _ = std::fs::remove_dir_all(&k);
}

pub fn trunc(s: &str, n: usize) -> String {
    if s.len() <= n {
        return s.to_string();
    }
    let mut cut = n;
    while !s.is_char_boundary(cut) {
        cut -= 1;
    }
    format!("{}…[{} bytes]", &s[..cut], s.len())
}

// ------------------------------------------------------------------------------------------
// strace monitor
// ------------------------------------------------------------------------------------------

fn lexical(base: &Path, p: &str) -> PathBuf {
    let joined = if Path::new(p).is_absolute() { PathBuf::from(p) } else { base.join(p) };
    let mut out = PathBuf::from("/");
    for c in joined.components() {
        match c {
            Component::ParentDir => {
                out.pop();
            }
            Component::Normal(s) => out.push(s),
            _ => {}
        }
    }
    out
}

/// Decode a strace C-string body (handles \n \t \\ \" and octal / hex escapes).
fn unescape(s: &str) -> String {
    let b = s.as_bytes();
    let mut out: Vec<u8> = Vec::new();
    let mut i = 0;
    while i < b.len() {
        if b[i] == b'\\' && i + 1 < b.len() {
            i += 1;
            match b[i] {
                b'n' => out.push(b'\n'),
                b't' => out.push(b'\t'),
                b'r' => out.push(b'\r'),
                b'x' => {
                    let h = std::str::from_utf8(&b[i + 1..(i + 3).min(b.len())]).unwrap_or("0");
                    out.push(u8::from_str_radix(h, 16).unwrap_or(b'?'));
                    i += 2;
                }
                d if d.is_ascii_digit() => {
                    let mut j = i;
                    let mut v = 0u32;
                    while j < b.len() && j < i + 3 && (b'0'..=b'7').contains(&b[j]) {
                        v = v * 8 + (b[j] - b'0') as u32;
                        j += 1;
                    }
                    out.push(v as u8);
                    i = j - 1;
                }
                other => out.push(other),
            }
        } else {
            out.push(b[i]);
        }
        i += 1;
    }
    String::from_utf8_lossy(&out).to_string()
}

fn quoted_args(args: &str) -> Vec<String> {
    let b = args.as_bytes();
    let mut out = Vec::new();
    let mut i = 0;
    while i < b.len() {
        if b[i] == b'"' {
            let mut j = i + 1;
            while j < b.len() {
                if b[j] == b'\\' {
                    j += 2;
                    continue;
                }
                if b[j] == b'"' {
                    break;
                }
                j += 1;
            }
            out.push(unescape(&args[i + 1..j.min(b.len())]));
            i = j + 1;
        } else {
            i += 1;
        }
    }
    out
}

fn judge_strace(r: &mut Report, log: &Path, l: &Layout, cwd: &Path, metas: &[Meta], results: &[Value], idx: u64, cwd_name: &str) {
    let Ok(text) = std::fs::read(log) else {
        r.inconclusive(&format!("case {idx}: strace log unreadable"));
        return;
    };
    let text = String::from_utf8_lossy(&text);
    let exe = std::env::current_exe().unwrap_or_default();
    let home_cargo = std::env::var("HOME").map(|h| format!("{h}/.cargo")).unwrap_or_else(|_| "/root/.cargo".into());
    let allowed_prefixes: Vec<PathBuf> = ["/usr", "/lib", "/lib64", "/bin", "/sbin", "/etc", "/proc", "/sys", "/dev", "/run", "/var", "/opt", "/rv-marker"]
        .iter()
        .map(PathBuf::from)
        .chain([PathBuf::from(home_cargo), exe.clone(), l.data.clone(), l.k.join("child-scratch"), l.k.join("spec.json"), l.k.join("out.json")])
        .collect();
    let mut pending: BTreeMap<String, String> = BTreeMap::new();
    let mut cwd_of: BTreeMap<String, PathBuf> = BTreeMap::new();
    let mut step: Option<usize> = None;
    let mut seen_steps = 0u64;
    let mut checked = 0u64;
    for raw in text.lines() {
        let Some((pid, rest)) = raw.split_once(' ') else {
            continue;
        };
        let rest = rest.trim_start();
        let line: String = if rest.ends_with("<unfinished ...>") {
            pending.insert(pid.to_string(), rest.trim_end_matches("<unfinished ...>").to_string());
            continue;
        } else if rest.starts_with("<... ") {
            let Some(pos) = rest.find("resumed>") else {
                continue;
            };
            let head = pending.remove(pid).unwrap_or_default();
            format!("{head}{}", &rest[pos + "resumed>".len()..])
        } else {
            rest.to_string()
        };
        let Some(open) = line.find('(') else {
            continue;
        };
        let name = &line[..open];
        let Some(eq) = line.rfind(" = ") else {
            continue;
        };
        let args = &line[open + 1..eq];
        let ret = line[eq + 3..].trim();
        let success = !ret.starts_with("-1") && !ret.starts_with('?');
        let paths = quoted_args(args);
        if let Some(p) = paths.first() {
            if let Some(rest) = p.strip_prefix("/rv-marker/") {
                let mut it = rest.split('/');
                let n: Option<usize> = it.next().and_then(|x| x.parse().ok());
                match it.next() {
                    Some("begin") => {
                        step = n;
                        seen_steps += 1;
                    }
                    _ => step = None,
                }
                continue;
            }
        }
        if name == "chdir" && success {
            if let Some(p) = paths.first() {
                let base = cwd_of.get(pid).cloned().unwrap_or_else(|| cwd.to_path_buf());
                cwd_of.insert(pid.to_string(), lexical(&base, p));
            }
            continue;
        }
        let Some(si) = step else {
            continue;
        };
        if !success || paths.is_empty() {
            continue;
        }
        let interesting = matches!(
            name,
            "open" | "openat" | "openat2" | "creat" | "stat" | "lstat" | "statx" | "newfstatat" | "access" | "faccessat" | "faccessat2"
                | "unlink" | "unlinkat" | "rename" | "renameat" | "renameat2" | "mkdir" | "mkdirat" | "rmdir" | "readlink" | "readlinkat"
                | "truncate" | "chmod" | "fchmodat" | "link" | "linkat" | "symlink" | "symlinkat" | "utimensat"
        );
        if !interesting {
            continue;
        }
        // a relative path with a real dirfd cannot be resolved lexically
        let at_variant = name.ends_with("at") || name == "statx" || name == "openat2" || name == "renameat2" || name == "faccessat2";
        let base = cwd_of.get(pid).cloned().unwrap_or_else(|| cwd.to_path_buf());
        let n_paths = if matches!(name, "rename" | "renameat" | "renameat2" | "link" | "linkat") { 2 } else { 1 };
        for p in paths.iter().take(n_paths) {
            if p.is_empty() {
                continue;
            }
            if !Path::new(p).is_absolute() && at_variant && !args.trim_start().starts_with("AT_FDCWD") {
                r.count("strace_relative_to_dirfd_not_resolved", 1);
                continue;
            }
            let abs = lexical(&base, p);
            checked += 1;
            let stat_like = matches!(name, "stat" | "lstat" | "statx" | "newfstatat" | "access" | "faccessat" | "faccessat2" | "readlink" | "readlinkat");
            let allowed = abs.starts_with(&l.root)
                || allowed_prefixes.iter().any(|a| abs.starts_with(a))
                || (stat_like && (l.root.starts_with(&abs) || abs == Path::new("/")));
            if allowed {
                continue;
            }
            let base_name = abs.file_name().map(|x| x.to_string_lossy().to_string()).unwrap_or_default();
            let abs_s = abs.to_string_lossy().to_string();
            if matches!(base_name.as_str(), ".gitignore" | ".ignore" | ".git" | ".rgignore" | ".jj" | ".gitconfig")
                || abs_s.contains("/.config/git")
            {
                // ignore-file / git-config discovery of the `ignore` crate walker (ls / grep), independent of the argument
                r.count("ambient_ignore_file_probe_outside_root_not_judged", 1);
                continue;
            }
            let Some(meta) = metas.get(si) else {
                continue;
            };
            if meta.role == "setup" {
                continue;
            }
            let fam0 = family(meta.kind, meta.role);
            let coarse = coarse_class(&meta.path);
            let cwd_tag = if cwd_name == "root" { "cwd_eq_root" } else { "cwd_ne_root" };
            let tail = if coarse == "relative" { format!("{coarse}/{cwd_tag}") } else { coarse.to_string() };
            let write_like = !stat_like
                && (!matches!(name, "open" | "openat" | "openat2")
                    || ["O_WRONLY", "O_RDWR", "O_CREAT", "O_TRUNC", "O_APPEND"].iter().any(|f| args.contains(f)));
            let auto_frames = results
                .get(si)
                .and_then(|x| x.get("frame_kinds"))
                .and_then(|x| x.as_array())
                .map(|a| a.iter().any(|k| matches!(k.as_str(), Some("checkpoint_created") | Some("checkpoint_failed"))))
                .unwrap_or(false);
            // a file tool's own resolver is purely lexical: reads outside during a write / apply_patch step with an
            // automatic checkpoint frame come from that checkpoint
            let fam = if matches!(fam0, "write" | "apply_patch") && auto_frames && (!write_like || (must_refuse(meta.kind, &meta.path, &l.root) && results.get(si).and_then(|x| x.get("ok")).and_then(|x| x.as_bool()) != Some(true))) {
                format!("auto_checkpoint_{fam0}")
            } else {
                fam0.to_string()
            };
            let class = if write_like { "outside_modified" } else { "outside_read" };
            r.count(&format!("strace_{class}_events"), 1);
            r.violation(
                &format!("C13/{class}/{fam}/{tail}"),
                &format!("{} with path {:?} (cwd={cwd_name}): strace shows a successful {name} on {} which is outside root / data / system prefixes", meta.kind, trunc(&meta.path, 80), abs.display()),
                json!({"case": idx, "step": si, "cwd": cwd_name, "kind": meta.kind, "path": trunc(&meta.path, 300), "monitor": "strace", "syscall": trunc(&line, 400)}),
            );
        }
    }
    r.count("strace_children", 1);
    r.count("strace_steps_bracketed", seen_steps);
    r.count("strace_paths_checked", checked);
    if seen_steps == 0 {
        r.inconclusive(&format!("case {idx}: strace log contains no step markers"));
    }
}
