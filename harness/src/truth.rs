//! Independent reading of the truth log (`events.jsonl`) with serde_json `Value`s only — no
//! `rip_kernel::Event` — plus the small documented rules shared by several monitors.

use serde_json::Value;
use std::collections::{BTreeMap, HashMap};

#[derive(Clone, Debug)]
pub struct Frame {
    pub line_no: usize,
    pub v: Value,
}

impl Frame {
    pub fn s(&self, k: &str) -> &str {
        self.v.get(k).and_then(|x| x.as_str()).unwrap_or("")
    }
    pub fn u(&self, k: &str) -> Option<u64> {
        self.v.get(k).and_then(|x| x.as_u64())
    }
    pub fn ty(&self) -> &str {
        self.s("type")
    }
    pub fn seq(&self) -> u64 {
        self.u("seq").unwrap_or(u64::MAX)
    }
    pub fn id(&self) -> &str {
        self.s("id")
    }
    pub fn stream_kind(&self) -> &str {
        self.s("stream_kind")
    }
    pub fn stream_id(&self) -> &str {
        self.s("stream_id")
    }
}

#[derive(Debug, Clone)]
pub struct LogError {
    pub kind: &'static str,
    pub detail: String,
}

/// Parse the raw bytes of an event log. Every line must be a whole JSON object terminated by
/// '\n'. Returns frames or the first structural error.
pub fn parse_log(bytes: &[u8]) -> Result<Vec<Frame>, LogError> {
    let mut out = Vec::new();
    if bytes.is_empty() {
        return Ok(out);
    }
    if *bytes.last().unwrap() != b'\n' {
        return Err(LogError {
            kind: "unterminated_last_line",
            detail: format!("log does not end with a newline (len {})", bytes.len()),
        });
    }
    for (i, line) in bytes[..bytes.len() - 1].split(|b| *b == b'\n').enumerate() {
        let v: Value = serde_json::from_slice(line).map_err(|e| LogError {
            kind: "line_not_json",
            detail: format!("line {i}: {e}: {}", String::from_utf8_lossy(&line[..line.len().min(160)])),
        })?;
        if !v.is_object() {
            return Err(LogError {
                kind: "line_not_object",
                detail: format!("line {i}"),
            });
        }
        out.push(Frame { line_no: i, v });
    }
    Ok(out)
}

/// Per-stream seq must read 0,1,2,… in file order; ids must be unique.
pub fn check_streams(frames: &[Frame]) -> Result<BTreeMap<(String, String), u64>, LogError> {
    let mut next: BTreeMap<(String, String), u64> = BTreeMap::new();
    let mut ids: HashMap<&str, usize> = HashMap::new();
    for f in frames {
        let key = (f.stream_kind().to_string(), f.stream_id().to_string());
        if key.0.is_empty() || key.1.is_empty() {
            return Err(LogError {
                kind: "missing_stream_envelope",
                detail: format!("line {}", f.line_no),
            });
        }
        let e = next.entry(key.clone()).or_insert(0);
        if f.seq() != *e {
            return Err(LogError {
                kind: if f.seq() < *e { "duplicate_or_regressing_seq" } else { "seq_gap" },
                detail: format!(
                    "line {} stream {}/{} type {}: expected seq {}, got {}",
                    f.line_no,
                    key.0,
                    key.1,
                    f.ty(),
                    *e,
                    f.seq()
                ),
            });
        }
        *e += 1;
        if let Some(prev) = ids.insert(f.id(), f.line_no) {
            return Err(LogError {
                kind: "duplicate_frame_id",
                detail: format!("id {} on lines {} and {}", f.id(), prev, f.line_no),
            });
        }
    }
    Ok(next)
}

pub fn stream<'a>(frames: &'a [Frame], kind: &str, id: &str) -> Vec<&'a Frame> {
    frames
        .iter()
        .filter(|f| f.stream_kind() == kind && f.stream_id() == id)
        .collect()
}

/// Messages of a continuity in order: (seq, id).
pub fn messages(frames: &[&Frame]) -> Vec<(u64, String)> {
    frames
        .iter()
        .filter(|f| f.ty() == "continuity_message_appended")
        .map(|f| (f.seq(), f.id().to_string()))
        .collect()
}

/// JSON equality that treats an absent key and an explicit null as the same value.
pub fn json_eq_lenient(a: &Value, b: &Value) -> bool {
    match (a, b) {
        (Value::Object(x), Value::Object(y)) => {
            for (k, v) in x {
                match y.get(k) {
                    Some(w) => {
                        if !json_eq_lenient(v, w) {
                            return false;
                        }
                    }
                    None => {
                        if !v.is_null() {
                            return false;
                        }
                    }
                }
            }
            for (k, w) in y {
                if !x.contains_key(k) && !w.is_null() {
                    return false;
                }
            }
            true
        }
        (Value::Array(x), Value::Array(y)) => {
            x.len() == y.len() && x.iter().zip(y.iter()).all(|(p, q)| json_eq_lenient(p, q))
        }
        (Value::Number(x), Value::Number(y)) => {
            if x == y {
                return true;
            }
            match (x.as_f64(), y.as_f64()) {
                (Some(p), Some(q)) => p == q,
                _ => false,
            }
        }
        _ => a == b,
    }
}
