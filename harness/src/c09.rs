//! C09 — compaction follows message count alone; idempotent and replay-safe.
//!
//! Sequential cases: a thread history (0…200 messages mixed with other frame kinds) is probed with
//! cut_points / status / auto / auto.schedule / manual checkpoint calls (store API and HTTP
//! routes) over hostile parameter values; every answer and every byte appended to events.jsonl is
//! judged against a small truth model computed from the raw log (serde_json `Value`s only).
//! Idempotence = immediate repeats; determinism = the store is forked twice and the same request
//! must render the same summary text on both forks. Concurrent cases: 2–8 threads call auto /
//! schedule on one thread under seeded noise; the recorded log is judged afterwards.
//! Same-cut cases: 2–4 auto / schedule requests for ONE cut point (thread with / without earlier
//! checkpoints, optional pending job) — over HTTP with every job spawned before any of them runs and
//! the runs then released one at a time, over HTTP back to back, or from threads started together.
//! Oracle over the log (all case kinds): every auto summary names a base of a strictly earlier cut
//! and reports the matching delta window, and two summaries of one cut whose jobs saw the same
//! earlier checkpoints have identical text.
//! Summary-fault cases: between compaction rounds the summary blob of the latest / an older / every /
//! a manual checkpoint is deleted, truncated, overwritten with garbage, replaced by a directory, by
//! JSON of another schema or by a legacy metadata-only placeholder text (also: a manual checkpoint
//! whose text is such a placeholder); the thread grows and auto / schedule (store API, HTTP) runs
//! again. Every summary written AFTER the fault must be readable and cover its cut, name a base of
//! an earlier cut and report the window it read — all of 0..to_seq (count and per-actor counts) when
//! it says that it bootstrapped from truth (ADR-0014). Blobs the harness damaged are never judged.

use crate::fixture::{runtime, wait_for, App, Store};
use crate::gen_hist::{exec, pick_kind, Known, OpKind};
use crate::prng::Rng;
use crate::report::{Cfg, Report};
use crate::sched::{sched, Sched};
use crate::truth::{self, Frame};
use ripd::{
    CompactionAutoScheduleV1Request, CompactionAutoV1Request, CompactionCheckpointCumulativeV1Request,
    CompactionCutPointsV1Request, CompactionStatusV1Request,
};
use serde_json::{json, Value};
use std::collections::{BTreeMap, BTreeSet, HashMap};
use std::sync::Arc;
use std::time::{Duration, Instant};

const JOB_KIND: &str = "compaction_summarizer_v1";
const SIG_CACHE_LOST: &str = "C09/concurrent/answers_differ_from_truth_after/checkpoint_cache_lost_frames";
const SIG_TORN_READ: &str = "C09/concurrent/call_or_job_failed/replay_read_torn_tail_during_append";
const SIG_STALE_PLAN: &str = "C09/job_spawned_plan_differs_from_executed/schedule_plans_twice";

// ---------------------------------------------------------------------------------------------
// truth model (raw frames only)

#[derive(Clone, Debug, PartialEq)]
struct Cut {
    ordinal: u64,
    to_seq: u64,
    id: String,
    already: bool,
    latest: Option<String>,
}

#[derive(Clone, Debug)]
struct Ck {
    frame_seq: u64,
    id: String,
    to_seq: u64,
    to_message_id: Option<String>,
    art: String,
}

#[derive(Clone, Debug, PartialEq)]
enum Inflight {
    None,
    Definite(String),
    /// the newest un-ended job lies outside (or near the edge of) the documented best-effort window
    Unsure(String),
}

#[derive(Clone, Debug)]
struct Model {
    thread: String,
    n_frames: usize,
    msgs: Vec<(u64, String)>,
    non_msg: Vec<(u64, String)>,
    ckpts: Vec<Ck>,
    inflight: Inflight,
    last_decision_id: Option<String>,
    last_job_ended: Option<String>,
}

fn model_of(frames: &[Frame], thread: &str) -> Option<Model> {
    let fs = truth::stream(frames, "continuity", thread);
    if fs.is_empty() {
        return None;
    }
    let mut m = Model {
        thread: thread.to_string(),
        n_frames: fs.len(),
        msgs: vec![],
        non_msg: vec![],
        ckpts: vec![],
        inflight: Inflight::None,
        last_decision_id: None,
        last_job_ended: None,
    };
    for f in &fs {
        match f.ty() {
            "continuity_message_appended" => m.msgs.push((f.seq(), f.id().to_string())),
            "continuity_compaction_checkpoint_created" => {
                m.non_msg.push((f.seq(), f.id().to_string()));
                m.ckpts.push(Ck {
                    frame_seq: f.seq(),
                    id: f.s("checkpoint_id").to_string(),
                    to_seq: f.u("to_seq").unwrap_or(u64::MAX),
                    to_message_id: f.v.get("to_message_id").and_then(|x| x.as_str()).map(|s| s.to_string()),
                    art: f.s("summary_artifact_id").to_string(),
                });
            }
            "continuity_compaction_auto_schedule_decided" => {
                m.non_msg.push((f.seq(), f.id().to_string()));
                m.last_decision_id = Some(f.s("decision_id").to_string());
            }
            "continuity_job_ended" => {
                m.non_msg.push((f.seq(), f.id().to_string()));
                if f.s("job_kind") == JOB_KIND {
                    m.last_job_ended = Some(f.s("job_id").to_string());
                }
            }
            _ => m.non_msg.push((f.seq(), f.id().to_string())),
        }
    }
    // newest spawned summarizer job with no job_ended
    let mut ended: BTreeSet<&str> = BTreeSet::new();
    let mut dist = 0usize;
    let mut bytes = 0usize;
    for f in fs.iter().rev() {
        dist += 1;
        bytes += f.v.to_string().len() + 1;
        match f.ty() {
            "continuity_job_ended" if f.s("job_kind") == JOB_KIND => {
                ended.insert(f.s("job_id"));
            }
            "continuity_job_spawned" if f.s("job_kind") == JOB_KIND => {
                if !ended.contains(f.s("job_id")) {
                    let id = f.s("job_id").to_string();
                    m.inflight = if dist <= 400 && bytes <= 400 * 1024 {
                        Inflight::Definite(id)
                    } else {
                        Inflight::Unsure(id)
                    };
                    break;
                }
            }
            _ => {}
        }
    }
    Some(m)
}

/// For other monitors (C02): `Some(true)` iff, by the raw log alone, an auto / schedule compaction with these
/// parameters has nothing to plan (every eligible cut point of the latest 32 already has a checkpoint frame).
pub(crate) fn nothing_to_compact(log: &[u8], thread: &str, stride: Option<u64>, max_new: Option<u32>) -> Option<bool> {
    let frames = truth::parse_log(log).ok()?;
    let m = model_of(&frames, thread)?;
    let stride = stride.unwrap_or(10_000);
    if stride == 0 {
        return None;
    }
    Some(m.plan(stride, clamp_u32(max_new)).is_empty())
}

impl Model {
    fn count(&self) -> u64 {
        self.msgs.len() as u64
    }

    /// compaction.md: eligible ordinals are the multiples of stride up to message_count, latest
    /// first; each names the N-th message; checkpointed iff a checkpoint frame with that to_seq
    /// exists, the last such frame in stream order winning.
    fn cut_points(&self, stride: u64, limit: u64) -> Vec<Cut> {
        let mut out = Vec::new();
        if stride == 0 {
            return out;
        }
        let count = self.count();
        let mut ordinal = (count / stride) * stride;
        while ordinal > 0 && (out.len() as u64) < limit {
            let (seq, id) = self.msgs[(ordinal - 1) as usize].clone();
            let latest = self.ckpts.iter().filter(|c| c.to_seq == seq).last().map(|c| c.id.clone());
            out.push(Cut {
                ordinal,
                to_seq: seq,
                id,
                already: latest.is_some(),
                latest,
            });
            if ordinal < stride {
                break;
            }
            ordinal -= stride;
        }
        out
    }

    fn plan(&self, stride: u64, max_new: u64) -> Vec<Cut> {
        self.cut_points(stride, 32)
            .into_iter()
            .filter(|c| !c.already)
            .take(max_new as usize)
            .collect()
    }

    /// ADR-0011: greatest to_seq, ties broken by the checkpoint frame's seq (latest wins).
    fn latest_checkpoint(&self) -> Option<&Ck> {
        let mut best: Option<&Ck> = None;
        for c in &self.ckpts {
            best = match best {
                None => Some(c),
                Some(b) => {
                    if c.to_seq > b.to_seq || (c.to_seq == b.to_seq && c.frame_seq > b.frame_seq) {
                        Some(c)
                    } else {
                        Some(b)
                    }
                }
            };
        }
        best
    }

    fn is_cut_point(&self, stride: u64, ordinal: u64, to_seq: u64, id: &str) -> bool {
        stride > 0
            && ordinal > 0
            && ordinal % stride == 0
            && self
                .msgs
                .get((ordinal - 1) as usize)
                .map(|(s, i)| *s == to_seq && i == id)
                .unwrap_or(false)
    }
}

/// "continuity replay failed: <serde error>" = a reader met a half-written last line
fn is_torn_read(err: &str) -> bool {
    err.contains("replay failed") && (err.contains("EOF while parsing") || err.contains("expected") || err.contains("trailing") || err.contains("control character"))
}

fn clamp_u32(v: Option<u32>) -> u64 {
    v.unwrap_or(1).clamp(1, 32) as u64
}

fn planned_json(p: &[Cut]) -> Value {
    Value::Array(
        p.iter()
            .map(|c| json!({"target_message_ordinal": c.ordinal, "to_seq": c.to_seq, "to_message_id": c.id}))
            .collect(),
    )
}

/// planned arrays as (ordinal, seq, id) triples
fn planned_triples(v: Option<&Value>) -> Vec<(u64, u64, String)> {
    v.and_then(|x| x.as_array())
        .map(|a| {
            a.iter()
                .map(|p| {
                    (
                        p.get("target_message_ordinal").and_then(|x| x.as_u64()).unwrap_or(u64::MAX),
                        p.get("to_seq").and_then(|x| x.as_u64()).unwrap_or(u64::MAX),
                        p.get("to_message_id").and_then(|x| x.as_str()).unwrap_or("").to_string(),
                    )
                })
                .collect()
        })
        .unwrap_or_default()
}

fn cut_triples(p: &[Cut]) -> Vec<(u64, u64, String)> {
    p.iter().map(|c| (c.ordinal, c.to_seq, c.id.clone())).collect()
}

fn blob_json(store: &Store, id: &str) -> Option<Value> {
    if id.is_empty() || id.contains('/') || id.contains("..") {
        return None;
    }
    let bytes = std::fs::read(store.ws.join(".rip").join("artifacts").join("blobs").join(id)).ok()?;
    serde_json::from_slice(&bytes).ok()
}

/// Ok(summary_markdown) when the artifact is a readable compaction summary covering the cut.
fn check_summary(store: &Store, thread: &str, art: &str, to_seq: u64, to_message_id: &str) -> Result<String, (&'static str, String)> {
    let Some(b) = blob_json(store, art) else {
        return Err(("summary_artifact_unreadable", format!("artifact {art} is missing or not JSON")));
    };
    let md = b.get("summary_markdown").and_then(|x| x.as_str());
    if b.get("schema").and_then(|x| x.as_str()) != Some("rip.compaction_summary.v1") || md.is_none() {
        return Err(("summary_artifact_unreadable", format!("artifact {art} is not a rip.compaction_summary.v1 with summary_markdown")));
    }
    let cov = b.get("coverage").cloned().unwrap_or(Value::Null);
    let ok = cov.get("thread_id").and_then(|x| x.as_str()) == Some(thread)
        && cov.get("to_seq").and_then(|x| x.as_u64()) == Some(to_seq)
        && cov.get("to_message_id").and_then(|x| x.as_str()) == Some(to_message_id);
    if !ok {
        return Err((
            "summary_coverage_mismatch",
            format!("artifact {art} coverage {cov} does not match thread {thread} to_seq {to_seq} to_message_id {to_message_id}"),
        ));
    }
    Ok(md.unwrap_or("").to_string())
}

/// Replace 64-hex artifact ids and uuids by position-indexed placeholders.
fn normalise(text: &str) -> String {
    let b = text.as_bytes();
    let is_hex = |c: u8| c.is_ascii_hexdigit();
    let mut out = String::new();
    let mut seen: Vec<String> = Vec::new();
    let mut i = 0;
    let place = |tok: &str, seen: &mut Vec<String>, pfx: &str| -> String {
        let n = match seen.iter().position(|s| s == tok) {
            Some(n) => n,
            None => {
                seen.push(tok.to_string());
                seen.len() - 1
            }
        };
        format!("<{pfx}{n}>")
    };
    while i < b.len() {
        if is_hex(b[i]) && (i == 0 || !(b[i - 1].is_ascii_alphanumeric())) {
            let mut j = i;
            while j < b.len() && is_hex(b[j]) {
                j += 1;
            }
            let run = j - i;
            let bounded = j >= b.len() || !b[j].is_ascii_alphanumeric();
            if run == 64 && bounded {
                out.push_str(&place(&text[i..j], &mut seen, "ART"));
                i = j;
                continue;
            }
            // uuid 8-4-4-4-12
            if run == 8 && i + 36 <= b.len() {
                let cand = &b[i..i + 36];
                let ok = cand.iter().enumerate().all(|(k, c)| match k {
                    8 | 13 | 18 | 23 => *c == b'-',
                    _ => is_hex(*c),
                }) && (i + 36 == b.len() || !b[i + 36].is_ascii_alphanumeric());
                if ok {
                    out.push_str(&place(&text[i..i + 36], &mut seen, "UUID"));
                    i += 36;
                    continue;
                }
            }
            out.push_str(&text[i..j]);
            i = j;
            continue;
        }
        // copy one char (keep utf-8 intact)
        let ch_len = text[i..].chars().next().map(|c| c.len_utf8()).unwrap_or(1);
        out.push_str(&text[i..i + ch_len]);
        i += ch_len;
    }
    out
}

fn new_uuid(rng: &mut Rng) -> String {
    format!("{}-{}-4{}-a{}-{}", rng.hex(8), rng.hex(4), rng.hex(3), rng.hex(3), rng.hex(12))
}

#[derive(Default)]
struct Stats {
    counters: BTreeMap<String, u64>,
    nontrivial: u64,
}

impl Stats {
    fn c(&mut self, k: &str) {
        self.n(k, 1);
    }
    fn n(&mut self, k: &str, n: u64) {
        *self.counters.entry(k.to_string()).or_insert(0) += n;
    }
    fn flush(&self, r: &mut Report) {
        for (k, v) in &self.counters {
            r.count(k, *v);
        }
    }
}

fn frames_json(fs: &[&Frame]) -> Value {
    Value::Array(fs.iter().take(12).map(|f| f.v.clone()).collect())
}

fn frames_brief(fs: &[&Frame]) -> Vec<String> {
    fs.iter().map(|f| format!("{}#{}", f.ty().trim_start_matches("continuity_"), f.seq())).collect()
}

// ---------------------------------------------------------------------------------------------
// summaries as a function of the history (oracle over one thread's frames + summary artifacts)

struct SumInfo {
    md: String,
    /// basis.base_summary_artifact_id
    base: Option<String>,
    /// basis.note ("bootstrap_from_truth…" = the base was not usable, the summary restarts at seq 0)
    note: Option<String>,
    /// provenance.produced_by = {type: "job", id}
    job: Option<String>,
    /// "- delta_message_count: N" of the markdown header
    delta: Option<u64>,
}

fn sum_info(store: &Store, art: &str) -> Option<SumInfo> {
    let b = blob_json(store, art)?;
    let md = b.get("summary_markdown")?.as_str()?.to_string();
    let st = |p: &str| b.pointer(p).and_then(|x| x.as_str()).map(|s| s.to_string());
    let job = if st("/provenance/produced_by/type").as_deref() == Some("job") { st("/provenance/produced_by/id") } else { None };
    let delta = md.lines().take(24).find_map(|l| l.strip_prefix("- delta_message_count: ")).and_then(|x| x.trim().parse::<u64>().ok());
    Some(SumInfo {
        md,
        base: st("/basis/base_summary_artifact_id"),
        note: st("/basis/note"),
        job,
        delta,
    })
}

#[derive(Default)]
struct SumSeen {
    judged: u64,
    pairs_equal: u64,
}

/// The summary of an auto-created checkpoint is a function of the history it covers: the messages
/// up to its cut and the checkpoints of earlier cuts (ADR-0014: the base is a prior cumulative
/// checkpoint, `to_seq` strictly less; the delta is read after the base's coverage end).
/// * per summary: the base it names covers a strictly earlier cut; a base is named when an earlier
///   cut was checkpointed before the job was spawned; the delta window it reports is the number of
///   messages in (base.to_seq, to_seq] (all messages up to to_seq when it restarts from truth);
/// * per pair of auto summaries of ONE cut whose jobs saw the same earlier checkpoints (no
///   checkpoint frame with a smaller to_seq lies between the earlier job's spawn frame and the
///   later checkpoint frame): identical summary text.
fn judge_summary_history(r: &mut Report, store: &Store, fs: &[&Frame], cache_lossy: bool, stats: &mut Stats, wit: &dyn Fn(Value) -> Value) -> SumSeen {
    judge_summary_history_except(r, store, fs, cache_lossy, stats, wit, &BTreeSet::new())
}

/// `tampered`: summary artifacts whose blob the harness itself destroyed / rewrote after they were
/// judged; what the blob holds now says nothing about the summarizer, so they are not judged again
/// (they still count as the base they are named as: the checkpoint frame says which cut they cover).
fn judge_summary_history_except(r: &mut Report, store: &Store, fs: &[&Frame], cache_lossy: bool, stats: &mut Stats, wit: &dyn Fn(Value) -> Value, tampered: &BTreeSet<String>) -> SumSeen {
    struct Auto {
        idx: usize,
        spawn_idx: usize,
        to_seq: u64,
        rule: String,
        art: String,
        info: SumInfo,
    }
    let mut seen = SumSeen::default();
    let mut msg_seqs: Vec<u64> = Vec::new();
    let mut msg_actors: Vec<(u64, &str)> = Vec::new();
    let mut spawn_at: HashMap<&str, usize> = HashMap::new();
    // (index in the stream, to_seq, artifact)
    let mut cks: Vec<(usize, u64, &str)> = Vec::new();
    for (i, f) in fs.iter().enumerate() {
        match f.ty() {
            "continuity_message_appended" => {
                msg_seqs.push(f.seq());
                msg_actors.push((f.seq(), f.s("actor_id")));
            }
            "continuity_job_spawned" if f.s("job_kind") == JOB_KIND => {
                spawn_at.entry(f.s("job_id")).or_insert(i);
            }
            "continuity_compaction_checkpoint_created" => cks.push((i, f.u("to_seq").unwrap_or(u64::MAX), f.s("summary_artifact_id"))),
            _ => {}
        }
    }
    let msgs_in = |lo_excl: u64, hi_incl: u64| msg_seqs.iter().filter(|s| **s > lo_excl && **s <= hi_incl).count() as u64;
    // "- delta_actors: a=3, b=1" as documented: per-actor message counts of the window, count
    // descending then actor ascending, the first six
    let actors_in = |lo_excl: u64, hi_incl: u64| -> String {
        let mut c: BTreeMap<&str, u64> = BTreeMap::new();
        for (s, a) in &msg_actors {
            if *s > lo_excl && *s <= hi_incl {
                *c.entry(a).or_insert(0) += 1;
            }
        }
        let mut v: Vec<(&str, u64)> = c.into_iter().collect();
        v.sort_by(|a, b| b.1.cmp(&a.1).then(a.0.cmp(b.0)));
        if v.is_empty() {
            "none".to_string()
        } else {
            v.iter().take(6).map(|(a, n)| format!("{a}={n}")).collect::<Vec<_>>().join(", ")
        }
    };
    let mut autos: Vec<Auto> = Vec::new();
    let mut seen_art: BTreeSet<&str> = BTreeSet::new();
    for &(idx, to_seq, art) in &cks {
        if to_seq == u64::MAX || !seen_art.insert(art) {
            continue;
        }
        if tampered.contains(art) {
            stats.c("auto_summaries_not_rejudged_blob_destroyed_by_the_harness");
            continue;
        }
        // unreadable artifacts are judged by check_summary where the frame is judged
        let Some(info) = sum_info(store, art) else {
            continue;
        };
        // only summaries written by a summarizer job of this thread whose frames we hold
        let Some(spawn_idx) = info.job.as_deref().and_then(|j| spawn_at.get(j)).copied() else {
            continue;
        };
        if spawn_idx >= idx {
            continue;
        }
        autos.push(Auto {
            idx,
            spawn_idx,
            to_seq,
            rule: fs[idx].s("cut_rule_id").to_string(),
            art: art.to_string(),
            info,
        });
    }
    let head = |t: &str| t.chars().take(1200).collect::<String>();
    // per summary
    for a in &autos {
        seen.judged += 1;
        stats.c("auto_summaries_base_and_delta_window_judged");
        let lower_before_spawn = cks.iter().filter(|c| c.0 < a.spawn_idx && c.1 < a.to_seq).count();
        let w = |d: Value| {
            wit(json!({"oracle": "summary_history", "checkpoint_frame": fs[a.idx].v, "summary_head": head(&a.info.md),
                       "basis": {"base_summary_artifact_id": a.info.base, "note": a.info.note}, "more": d}))
        };
        let mut base_to_seq: Option<u64> = None;
        match &a.info.base {
            Some(base) => {
                stats.c("auto_summaries_with_a_base");
                // which cut does the base cover? the checkpoint frame that references it says so;
                // failing that, the base artifact's own coverage
                base_to_seq = cks
                    .iter()
                    .filter(|c| c.2 == base.as_str() && c.0 < a.idx)
                    .map(|c| c.1)
                    .last()
                    .or_else(|| blob_json(store, base).and_then(|b| b.pointer("/coverage/to_seq").and_then(|x| x.as_u64())));
                match base_to_seq {
                    Some(b) if b >= a.to_seq => {
                        let class = if b == a.to_seq { "base_covers_same_cut" } else { "base_covers_later_cut" };
                        r.violation(
                            &format!("C09/summary_base_not_below_cut/{class}"),
                            &format!(
                                "the summary of the auto checkpoint at to_seq {} names as its base a summary that covers to_seq {b}: the base of a cumulative summary is a checkpoint of a strictly earlier cut, so the same cut is summarised differently depending on whether it was summarised before",
                                a.to_seq
                            ),
                            w(json!({"base_to_seq": b, "delta_message_count": a.info.delta})),
                        );
                        continue;
                    }
                    Some(_) => {}
                    None => stats.c("auto_summaries_base_cut_unresolved"),
                }
            }
            None => {
                if lower_before_spawn > 0 {
                    if cache_lossy {
                        stats.c("auto_summaries_base_absence_not_judged_checkpoint_cache_lossy");
                    } else {
                        r.violation(
                            "C09/summary_base_missing/earlier_cut_checkpointed_before_job_spawned",
                            &format!(
                                "the summary of the auto checkpoint at to_seq {} names no base although {lower_before_spawn} checkpoint frame(s) of earlier cuts precede its job's spawn frame",
                                a.to_seq
                            ),
                            w(json!({"earlier_checkpoints_before_spawn": lower_before_spawn})),
                        );
                        continue;
                    }
                }
            }
        }
        // delta window
        let restart = a.info.base.is_none() || a.info.note.as_deref().map(|n| n.starts_with("bootstrap_from_truth")).unwrap_or(false);
        let lo = if restart { Some(0) } else { base_to_seq };
        if let (Some(lo), Some(delta)) = (lo, a.info.delta) {
            let want = msgs_in(lo, a.to_seq);
            if delta != want {
                r.violation(
                    &format!("C09/summary_delta_window_wrong/{}", if restart { "from_truth" } else { "after_base" }),
                    &format!(
                        "the summary of the auto checkpoint at to_seq {} reports delta_message_count {delta}; the thread has {want} messages in ({lo}, {}]",
                        a.to_seq, a.to_seq
                    ),
                    w(json!({"window_start_exclusive": lo, "expected": want})),
                );
                continue;
            }
            stats.c("auto_summaries_delta_window_equal_to_truth");
            if restart && a.info.base.is_some() {
                stats.c("auto_summaries_bootstrapped_over_an_unusable_base_covering_the_whole_history");
            }
            // the per-actor counts of the same window (only where every actor id is a plain token)
            let plain = msg_actors.iter().all(|(_, a)| !a.is_empty() && a.chars().all(|c| c.is_ascii_alphanumeric() || c == '-' || c == '_'));
            let got = a.info.md.lines().take(24).find_map(|l| l.strip_prefix("- delta_actors: ")).map(|x| x.trim_end().to_string());
            if let (true, Some(got)) = (plain, got) {
                let want = actors_in(lo, a.to_seq);
                if got != want {
                    r.violation(
                        &format!("C09/summary_delta_window_wrong/{}/actors", if restart { "from_truth" } else { "after_base" }),
                        &format!(
                            "the summary of the auto checkpoint at to_seq {} reports delta_actors '{got}'; the messages in ({lo}, {}] give '{want}'",
                            a.to_seq, a.to_seq
                        ),
                        w(json!({"window_start_exclusive": lo, "expected_delta_actors": want})),
                    );
                    continue;
                }
                stats.c("auto_summaries_delta_actors_equal_to_truth");
            }
        }
    }
    // per pair of summaries of one cut
    let mut by_cut: BTreeMap<u64, Vec<&Auto>> = BTreeMap::new();
    for a in &autos {
        by_cut.entry(a.to_seq).or_default().push(a);
    }
    let strip_rule = |t: &str| -> String {
        t.lines()
            .enumerate()
            .filter(|(i, l)| !(*i < 24 && (l.starts_with("- cut_rule_id: ") || l.starts_with("- stride_messages: "))))
            .map(|(_, l)| l)
            .collect::<Vec<_>>()
            .join("\n")
    };
    for (cut, group) in &by_cut {
        if group.len() < 2 {
            continue;
        }
        stats.c("cuts_summarised_by_more_than_one_job");
        let group = &group[..group.len().min(12)];
        for (i, a) in group.iter().enumerate() {
            for b in &group[i + 1..] {
                // a.idx < b.idx (stream order)
                let start = a.spawn_idx.min(b.spawn_idx);
                let moved = cks.iter().any(|c| c.1 < *cut && c.0 > start && c.0 < b.idx);
                if moved {
                    stats.c("same_cut_summary_pairs_not_comparable_earlier_cut_checkpointed_meanwhile");
                    continue;
                }
                let lower = cks.iter().filter(|c| c.1 < *cut && c.0 < start).count();
                let (ta, tb) = if a.rule == b.rule { (a.info.md.clone(), b.info.md.clone()) } else { (strip_rule(&a.info.md), strip_rule(&b.info.md)) };
                if ta == tb {
                    seen.pairs_equal += 1;
                    stats.c("same_cut_summary_pairs_text_equal");
                    stats.n("same_cut_summary_text_bytes_compared", ta.len() as u64);
                    r.distinct_str(&format!("sc|{}|{}|{}", group.len().min(5), lower.min(3), a.info.base.is_some()));
                    continue;
                }
                if cache_lossy && a.info.base != b.info.base {
                    stats.c("same_cut_summary_pairs_not_judged_checkpoint_cache_lossy");
                    continue;
                }
                r.violation(
                    &format!("C09/summary_differs_for_same_history/repeated_cut/{}", if lower == 0 { "no_earlier_checkpoint" } else { "with_earlier_checkpoints" }),
                    &format!(
                        "two summarizer jobs checkpointed the cut at to_seq {cut}; the messages up to the cut are the same and no checkpoint of an earlier cut was appended between the earlier job's spawn frame and the later checkpoint frame ({lower} earlier-cut checkpoint(s) before both), yet the two summary texts differ"
                    ),
                    wit(json!({"oracle": "summary_history", "to_seq": cut,
                        "first": {"checkpoint_frame": fs[a.idx].v, "job_spawned_at_stream_index": a.spawn_idx, "artifact": a.art,
                                  "basis": {"base_summary_artifact_id": a.info.base, "note": a.info.note}, "summary_head": head(&normalise(&a.info.md))},
                        "second": {"checkpoint_frame": fs[b.idx].v, "job_spawned_at_stream_index": b.spawn_idx, "artifact": b.art,
                                   "basis": {"base_summary_artifact_id": b.info.base, "note": b.info.note}, "summary_head": head(&normalise(&b.info.md))}})),
                );
            }
        }
    }
    seen
}

/// Checkpoint ids of the log that the derived checkpoint cache (<thread>.comp.v1.jsonl) lacks.
fn comp_cache_lost(store: &Store, thread: &str, m: &Model) -> Vec<String> {
    let path = store.streams_dir().join(format!("{thread}.comp.v1.jsonl"));
    match std::fs::read(&path).ok().and_then(|b| truth::parse_log(&b).ok()) {
        Some(side) => {
            let have: BTreeSet<String> = side.iter().map(|f| f.s("checkpoint_id").to_string()).collect();
            m.ckpts.iter().filter(|c| !have.contains(&c.id)).map(|c| c.id.clone()).collect()
        }
        None => vec![],
    }
}

// ---------------------------------------------------------------------------------------------
// call layer: store API or HTTP route -> Result<Value, String>

struct Ctx<'a> {
    rt: &'a tokio::runtime::Runtime,
    store: &'a Store,
    app: App,
    thread: String,
}

#[derive(Clone, Debug)]
struct ExecReq {
    schedule: bool,
    stride: Option<u64>,
    max_new: Option<u32>,
    block: Option<bool>,
    execute: Option<bool>,
    dry_run: Option<bool>,
    http: bool,
}

impl ExecReq {
    fn op(&self) -> &'static str {
        if self.schedule {
            "schedule"
        } else {
            "auto"
        }
    }
    fn describe(&self) -> Value {
        json!({"op": self.op(), "stride_messages": self.stride, "max_new_checkpoints": self.max_new,
               "block_on_inflight": self.block, "execute": self.execute, "dry_run": self.dry_run,
               "transport": if self.http {"http"} else {"api"}})
    }
    fn body(&self) -> Value {
        let mut b = serde_json::Map::new();
        if let Some(s) = self.stride {
            b.insert("stride_messages".into(), json!(s));
        }
        if let Some(s) = self.max_new {
            b.insert("max_new_checkpoints".into(), json!(s));
        }
        if let Some(s) = self.dry_run {
            b.insert("dry_run".into(), json!(s));
        }
        if self.schedule {
            if let Some(s) = self.block {
                b.insert("block_on_inflight".into(), json!(s));
            }
            if let Some(s) = self.execute {
                b.insert("execute".into(), json!(s));
            }
        }
        b.insert("actor_id".into(), json!("rv-actor"));
        b.insert("origin".into(), json!("rv-origin"));
        Value::Object(b)
    }
}

fn http_post(ctx: &Ctx, thread: &str, route: &str, body: &Value) -> Result<Value, String> {
    let (st, v) = ctx.rt.block_on(ctx.app.json("POST", &format!("/threads/{thread}/{route}"), Some(body)));
    if (200..300).contains(&st) {
        Ok(v)
    } else {
        Err(format!("http {st}"))
    }
}

fn call_exec(ctx: &Ctx, thread: &str, q: &ExecReq) -> Result<Value, String> {
    if q.http {
        let route = if q.schedule { "compaction-auto-schedule" } else { "compaction-auto" };
        return http_post(ctx, thread, route, &q.body());
    }
    let st = ctx.app.store();
    if q.schedule {
        st.compaction_auto_schedule_v1(
            thread,
            CompactionAutoScheduleV1Request {
                stride_messages: q.stride,
                max_new_checkpoints: q.max_new,
                block_on_inflight: q.block,
                execute: q.execute,
                dry_run: q.dry_run,
                actor_id: "rv-actor".into(),
                origin: "rv-origin".into(),
            },
        )
        .map(|r| serde_json::to_value(r).unwrap_or(Value::Null))
    } else {
        st.compaction_auto_v1(
            thread,
            CompactionAutoV1Request {
                stride_messages: q.stride,
                max_new_checkpoints: q.max_new,
                dry_run: q.dry_run,
                actor_id: "rv-actor".into(),
                origin: "rv-origin".into(),
            },
        )
        .map(|r| serde_json::to_value(r).unwrap_or(Value::Null))
    }
}

fn call_cut_points(ctx: &Ctx, thread: &str, stride: Option<u64>, limit: Option<u32>, http: bool) -> Result<Value, String> {
    if http {
        let mut b = serde_json::Map::new();
        if let Some(s) = stride {
            b.insert("stride_messages".into(), json!(s));
        }
        if let Some(l) = limit {
            b.insert("limit".into(), json!(l));
        }
        return http_post(ctx, thread, "compaction-cut-points", &Value::Object(b));
    }
    ctx.app
        .store()
        .compaction_cut_points_v1(thread, CompactionCutPointsV1Request { stride_messages: stride, limit })
        .map(|r| serde_json::to_value(r).unwrap_or(Value::Null))
}

fn call_status(ctx: &Ctx, thread: &str, stride: Option<u64>, http: bool) -> Result<Value, String> {
    if http {
        let mut b = serde_json::Map::new();
        if let Some(s) = stride {
            b.insert("stride_messages".into(), json!(s));
        }
        return http_post(ctx, thread, "compaction-status", &Value::Object(b));
    }
    ctx.app
        .store()
        .compaction_status_v1(thread, CompactionStatusV1Request { stride_messages: stride })
        .map(|r| serde_json::to_value(r).unwrap_or(Value::Null))
}

#[derive(Clone, Debug)]
struct ManualReq {
    class: &'static str,
    markdown: Option<String>,
    artifact: Option<String>,
    to_message_id: Option<String>,
    to_seq: Option<u64>,
    stride: Option<u64>,
    http: bool,
}

fn call_manual(ctx: &Ctx, thread: &str, q: &ManualReq) -> Result<Value, String> {
    if q.http {
        let mut b = serde_json::Map::new();
        if let Some(s) = &q.markdown {
            b.insert("summary_markdown".into(), json!(s));
        }
        if let Some(s) = &q.artifact {
            b.insert("summary_artifact_id".into(), json!(s));
        }
        if let Some(s) = &q.to_message_id {
            b.insert("to_message_id".into(), json!(s));
        }
        if let Some(s) = q.to_seq {
            b.insert("to_seq".into(), json!(s));
        }
        if let Some(s) = q.stride {
            b.insert("stride_messages".into(), json!(s));
        }
        b.insert("actor_id".into(), json!("rv-actor"));
        b.insert("origin".into(), json!("rv-origin"));
        return http_post(ctx, thread, "compaction-checkpoint", &Value::Object(b));
    }
    ctx.app
        .store()
        .compaction_checkpoint_cumulative_v1(
            thread,
            CompactionCheckpointCumulativeV1Request {
                summary_markdown: q.markdown.clone(),
                summary_artifact_id: q.artifact.clone(),
                to_message_id: q.to_message_id.clone(),
                to_seq: q.to_seq,
                stride_messages: q.stride,
                actor_id: "rv-actor".into(),
                origin: "rv-origin".into(),
            },
        )
        .map(|(checkpoint_id, summary_artifact_id, to_seq, to_message_id, cut_rule_id)| {
            json!({"thread_id": thread, "checkpoint_id": checkpoint_id, "summary_artifact_id": summary_artifact_id,
                   "to_seq": to_seq, "to_message_id": to_message_id, "cut_rule_id": cut_rule_id})
        })
}

fn current_model(ctx: &Ctx) -> Result<(Vec<u8>, Model), String> {
    let bytes = ctx.store.log_bytes_settled();
    let frames = truth::parse_log(&bytes).map_err(|e| e.detail)?;
    let m = model_of(&frames, &ctx.thread).ok_or_else(|| "thread has no frames".to_string())?;
    Ok((bytes, m))
}

// ---------------------------------------------------------------------------------------------
// read-only probes

fn stride_class(stride: Option<u64>, count: u64) -> &'static str {
    match stride {
        None => "default",
        Some(0) => "0",
        Some(1) => "1",
        Some(s) if s == count + 1 => "count+1",
        Some(s) if s == count => "count",
        Some(s) if s > count => "gt_count",
        Some(s) if s <= 5 => "small",
        Some(_) => "mid",
    }
}

fn probe_cut_points(r: &mut Report, ctx: &Ctx, stats: &mut Stats, rng: &mut Rng, wit: &Value) {
    let Ok((before, m)) = current_model(ctx) else {
        r.inconclusive("log unreadable before cut_points");
        return;
    };
    let stride = pick_stride(rng, m.count(), false);
    let limit = *rng.pick(&[None, Some(0u32), Some(1), Some(2), Some(3), Some(32), Some(33), Some(u32::MAX)]);
    let http = rng.bool();
    let res = call_cut_points(ctx, &ctx.thread, stride, limit, http);
    r.eval();
    stats.c("cut_points_calls_compared");
    let w = |d: Value| json!({"at": wit, "probe": "cut_points", "stride_messages": stride, "limit": limit, "http": http, "messages": m.count(), "detail": d});
    if ctx.store.log_bytes_settled() != before {
        r.violation("C09/read_only_call_appended/cut_points", "compaction.cut_points changed events.jsonl", w(json!(null)));
    }
    match (stride, &res) {
        (Some(0), Ok(v)) => r.violation("C09/stride_zero_accepted/cut_points", "stride_messages = 0 was not rejected", w(v.clone())),
        (Some(0), Err(_)) => stats.c("stride_zero_rejected"),
        (_, Err(e)) => {
            if e.contains("limit_too_large") && limit.unwrap_or(1) > 32 {
                return;
            }
            r.violation("C09/valid_request_rejected/cut_points", &format!("cut_points failed: {e}"), w(json!(e)));
        }
        (_, Ok(v)) => {
            let s = stride.unwrap_or(10_000);
            let expect = m.cut_points(s, clamp_u32(limit));
            let got: Vec<Cut> = v
                .get("cut_points")
                .and_then(|x| x.as_array())
                .map(|a| {
                    a.iter()
                        .map(|c| Cut {
                            ordinal: c.get("target_message_ordinal").and_then(|x| x.as_u64()).unwrap_or(u64::MAX),
                            to_seq: c.get("to_seq").and_then(|x| x.as_u64()).unwrap_or(u64::MAX),
                            id: c.get("to_message_id").and_then(|x| x.as_str()).unwrap_or("").to_string(),
                            already: c.get("already_checkpointed").and_then(|x| x.as_bool()).unwrap_or(false),
                            latest: c.get("latest_checkpoint_id").and_then(|x| x.as_str()).map(|s| s.to_string()),
                        })
                        .collect()
                })
                .unwrap_or_default();
            if v.get("message_count").and_then(|x| x.as_u64()) != Some(m.count()) {
                r.violation(
                    "C09/message_count_wrong/cut_points",
                    &format!("message_count {:?}, the thread has {} continuity_message_appended frames", v.get("message_count"), m.count()),
                    w(v.clone()),
                );
            } else if cut_triples(&got) != cut_triples(&expect) {
                r.violation(
                    "C09/cut_points_differ_from_truth/ordinal_seq_id",
                    &format!("cut points {:?} expected {:?}", cut_triples(&got), cut_triples(&expect)),
                    w(json!({"response": v, "expected": planned_json(&expect)})),
                );
            } else if got.iter().zip(expect.iter()).any(|(a, b)| a.already != b.already) {
                r.violation(
                    "C09/cut_points_differ_from_truth/already_checkpointed",
                    "already_checkpointed differs from 'a checkpoint frame with that to_seq exists'",
                    w(json!({"response": v, "expected": expect.iter().map(|c| json!([c.to_seq, c.already, c.latest])).collect::<Vec<_>>()})),
                );
            } else if got.iter().zip(expect.iter()).any(|(a, b)| a.latest != b.latest) {
                r.violation(
                    "C09/cut_points_differ_from_truth/latest_checkpoint_id",
                    "latest_checkpoint_id is not the last checkpoint frame (stream order) for that to_seq",
                    w(json!({"response": v, "expected": expect.iter().map(|c| json!([c.to_seq, c.already, c.latest])).collect::<Vec<_>>()})),
                );
            } else {
                stats.n("cut_points_entries_equal_to_truth", got.len() as u64);
                if !got.is_empty() {
                    stats.nontrivial += 1;
                    r.distinct_str(&format!(
                        "cp|{}|{}|{}|{}|{}",
                        stride_class(stride, m.count()),
                        limit.map(|l| l.min(34)).unwrap_or(99),
                        got.len().min(33),
                        got.iter().filter(|c| c.already).count().min(3),
                        http
                    ));
                }
            }
        }
    }
}

fn probe_status(r: &mut Report, ctx: &Ctx, stats: &mut Stats, rng: &mut Rng, wit: &Value) {
    let Ok((before, m)) = current_model(ctx) else {
        r.inconclusive("log unreadable before status");
        return;
    };
    let stride = pick_stride(rng, m.count(), false);
    let http = rng.bool();
    let res = call_status(ctx, &ctx.thread, stride, http);
    r.eval();
    stats.c("status_calls_compared");
    let w = |d: Value| json!({"at": wit, "probe": "status", "stride_messages": stride, "http": http, "messages": m.count(), "detail": d});
    if ctx.store.log_bytes_settled() != before {
        r.violation("C09/read_only_call_appended/status", "compaction.status changed events.jsonl", w(json!(null)));
    }
    match (stride, res) {
        (Some(0), Ok(v)) => r.violation("C09/stride_zero_accepted/status", "stride_messages = 0 was not rejected", w(v)),
        (Some(0), Err(_)) => stats.c("stride_zero_rejected"),
        (_, Err(e)) => r.violation("C09/valid_request_rejected/status", &format!("status failed: {e}"), w(json!(e))),
        (_, Ok(v)) => {
            if let Some(what) = status_mismatch(&m, stride.unwrap_or(10_000), &v) {
                r.violation(
                    &format!("C09/status_differs_from_truth/{}", what.0),
                    &format!("compaction.status {}: {}", what.0, what.1),
                    w(v),
                );
            } else {
                stats.c("status_answers_equal_to_truth");
                if m.latest_checkpoint().is_some() || !m.cut_points(stride.unwrap_or(10_000), 1).is_empty() {
                    stats.nontrivial += 1;
                    r.distinct_str(&format!(
                        "st|{}|{}|{}|{}|{}",
                        stride_class(stride, m.count()),
                        m.latest_checkpoint().is_some(),
                        m.inflight != Inflight::None,
                        m.last_decision_id.is_some(),
                        http
                    ));
                }
            }
        }
    }
}

fn status_mismatch(m: &Model, stride: u64, v: &Value) -> Option<(&'static str, String)> {
    if v.get("message_count").and_then(|x| x.as_u64()) != Some(m.count()) {
        return Some(("message_count", format!("{:?} vs {}", v.get("message_count"), m.count())));
    }
    let next = m.cut_points(stride, 32).into_iter().find(|c| !c.already);
    let got_next = v.get("next_cut_point").filter(|x| !x.is_null());
    let got_t = got_next.map(|p| planned_triples(Some(&Value::Array(vec![p.clone()]))).remove(0));
    let exp_t = next.as_ref().map(|c| (c.ordinal, c.to_seq, c.id.clone()));
    if got_t != exp_t {
        return Some(("next_cut_point", format!("{got_t:?} vs {exp_t:?}")));
    }
    let lc = m.latest_checkpoint();
    let got_lc = v.get("latest_checkpoint").filter(|x| !x.is_null());
    let g = got_lc.map(|c| {
        (
            c.get("checkpoint_id").and_then(|x| x.as_str()).unwrap_or("").to_string(),
            c.get("to_seq").and_then(|x| x.as_u64()).unwrap_or(u64::MAX),
            c.get("summary_artifact_id").and_then(|x| x.as_str()).unwrap_or("").to_string(),
        )
    });
    let e = lc.map(|c| (c.id.clone(), c.to_seq, c.art.clone()));
    if g != e {
        return Some(("latest_checkpoint", format!("{g:?} vs {e:?}")));
    }
    let got_inflight = v.get("inflight_job_id").and_then(|x| x.as_str()).map(|s| s.to_string());
    match &m.inflight {
        Inflight::None => {
            if got_inflight.is_some() {
                return Some(("inflight_job_id", format!("{got_inflight:?} but every spawned job has ended")));
            }
        }
        Inflight::Definite(id) => {
            if got_inflight.as_deref() != Some(id.as_str()) {
                return Some(("inflight_job_id", format!("{got_inflight:?} vs newest un-ended job {id}")));
            }
        }
        Inflight::Unsure(id) => {
            if got_inflight.is_some() && got_inflight.as_deref() != Some(id.as_str()) {
                return Some(("inflight_job_id", format!("{got_inflight:?} vs newest un-ended job {id}")));
            }
        }
    }
    let got_dec = v.pointer("/last_schedule_decision/decision_id").and_then(|x| x.as_str()).map(|s| s.to_string());
    if got_dec != m.last_decision_id {
        return Some(("last_schedule_decision", format!("{got_dec:?} vs {:?}", m.last_decision_id)));
    }
    let got_job = v.pointer("/last_job_outcome/job_id").and_then(|x| x.as_str()).map(|s| s.to_string());
    if got_job != m.last_job_ended {
        return Some(("last_job_outcome", format!("{got_job:?} vs {:?}", m.last_job_ended)));
    }
    None
}

fn pick_stride(rng: &mut Rng, count: u64, want_work: bool) -> Option<u64> {
    if want_work || rng.chance(3, 5) {
        let pool = [1u64, 2, 3, 5, 7, 16];
        let s = *rng.pick(&pool);
        return Some(if count > 0 && s > count && rng.bool() { count } else { s });
    }
    match rng.below(9) {
        0 => None,
        1 => Some(0),
        2 => Some(10_000),
        3 => Some(count + 1),
        4 => Some(count.max(1)),
        5 => Some(u64::MAX),
        6 => Some((count / 2).max(1)),
        7 => Some((count / 33).max(1)), // more than 32 cut points
        _ => Some(16),
    }
}

// ---------------------------------------------------------------------------------------------
// auto / auto.schedule: plan from truth, appended frames from the byte diff

struct ExecSeen {
    /// (checkpoint id, artifact id, markdown) in creation order
    created: Vec<(String, String, String)>,
    planned_empty: bool,
    executed: bool,
    ok: bool,
}

/// Wait until an HTTP-spawned job has ended (the route runs the job in the background).
fn wait_job_end(ctx: &Ctx, from: usize, job_id: &str) -> bool {
    let path = ctx.store.log_path();
    let side = ctx.store.streams_dir().join(format!("{}.jsonl", ctx.thread));
    let needle_a = "\"type\":\"continuity_job_ended\"";
    let needle_b = format!("\"job_id\":\"{job_id}\"");
    let has = |bytes: &[u8], from: usize| {
        let tail = String::from_utf8_lossy(&bytes[from.min(bytes.len())..]).to_string();
        tail.lines().any(|l| l.contains(needle_a) && l.contains(&needle_b)) && bytes.last() == Some(&b'\n')
    };
    // the frame reaches the log first and the thread's sidecar afterwards; the background job is
    // only over (for a later reader) when both have it
    let done = ctx
        .rt
        .block_on(wait_for(Duration::from_secs(10), || {
            let bytes = std::fs::read(&path).unwrap_or_default();
            if !has(&bytes, from) {
                return None;
            }
            let sb = std::fs::read(&side).unwrap_or_default();
            let tail_from = sb.len().saturating_sub(64 * 1024);
            if has(&sb, tail_from) {
                Some(())
            } else {
                None
            }
        }))
        .is_some();
    std::thread::sleep(Duration::from_millis(1));
    done
}

fn run_exec(r: &mut Report, ctx: &Ctx, stats: &mut Stats, q: &ExecReq, wit: &Value) -> Option<ExecSeen> {
    let Ok((before, m)) = current_model(ctx) else {
        r.inconclusive("log unreadable before auto/schedule");
        return None;
    };
    let res = call_exec(ctx, &ctx.thread, q);
    r.eval();
    let op = q.op();
    stats.c(&format!("{op}_calls_{}", if q.http { "http" } else { "api" }));
    let w = |d: Value| json!({"at": wit, "request": q.describe(), "messages": m.count(), "checkpoints_before": m.ckpts.len(), "detail": d});
    let mut seen = ExecSeen {
        created: vec![],
        planned_empty: true,
        executed: false,
        ok: false,
    };
    let v = match (q.stride, res) {
        (Some(0), Ok(v)) => {
            r.violation(&format!("C09/stride_zero_accepted/{op}"), "stride_messages = 0 was not rejected", w(v));
            return None;
        }
        (Some(0), Err(_)) => {
            stats.c("stride_zero_rejected");
            if ctx.store.log_bytes_settled() != before {
                r.violation(&format!("C09/rejected_call_appended/{op}"), "a rejected request changed events.jsonl", w(json!(null)));
                return None;
            }
            seen.ok = true;
            return Some(seen);
        }
        (_, Err(e)) => {
            r.violation(&format!("C09/valid_request_rejected/{op}"), &format!("{op} failed: {e}"), w(json!(e)));
            return None;
        }
        (_, Ok(v)) => v,
    };
    let stride = q.stride.unwrap_or(10_000);
    let plan = m.plan(stride, clamp_u32(q.max_new));
    seen.planned_empty = plan.is_empty();
    let state_key = if q.schedule { "decision" } else { "status" };
    let mut state = v.get(state_key).and_then(|x| x.as_str()).unwrap_or("").to_string();
    let dry = q.dry_run.unwrap_or(false);
    let execute = !q.schedule || q.execute.unwrap_or(true);
    let block = q.schedule && q.block.unwrap_or(true);

    // HTTP executes in the background: wait for the job to end before diffing
    if q.http && (state == "spawned" || (state == "scheduled" && execute)) {
        if let Some(job) = v.get("job_id").and_then(|x| x.as_str()) {
            if !wait_job_end(ctx, before.len(), job) {
                r.violation(
                    &format!("C09/executed_frames_differ_from_plan/{op}/job_not_ended"),
                    "an HTTP-started summarizer job did not append continuity_job_ended within 10 s",
                    w(v.clone()),
                );
                return None;
            }
            state = "completed".into();
        }
    }
    let after = ctx.store.log_bytes_settled();
    if !after.starts_with(&before) {
        r.inconclusive("events.jsonl is not an extension of its earlier bytes (C02 matter); call not judged");
        return None;
    }
    let added = match truth::parse_log(&after[before.len()..]) {
        Ok(a) => a,
        Err(e) => {
            r.violation(&format!("C09/added_bytes_not_whole_frames/{op}"), &e.detail, w(json!(e.detail)));
            return None;
        }
    };
    stats.n("frames_added_observed", added.len() as u64);
    let w2 = |d: Value| w(json!({"response": v, "expected_plan": planned_json(&plan), "added": d}));
    let all: Vec<&Frame> = added.iter().collect();

    // the plan the call reports
    if planned_triples(v.get("planned")) != cut_triples(&plan) {
        r.violation(
            &format!("C09/plan_differs_from_truth/{op}"),
            &format!(
                "planned {:?}; truth: first {} un-checkpointed of the latest 32 cut points = {:?}",
                planned_triples(v.get("planned")),
                clamp_u32(q.max_new),
                cut_triples(&plan)
            ),
            w2(frames_json(&all)),
        );
        return None;
    }
    if v.get("message_count").and_then(|x| x.as_u64()) != Some(m.count()) {
        r.violation(&format!("C09/message_count_wrong/{op}"), "message_count differs from the number of message frames", w2(json!(null)));
        return None;
    }
    if let Some(f) = added.iter().find(|f| f.stream_id() != ctx.thread) {
        r.violation(
            &format!("C09/other_stream_touched/{op}"),
            &format!("{op} appended a {} frame to stream {}", f.ty(), f.stream_id()),
            w2(frames_json(&all)),
        );
        return None;
    }
    let decisions: Vec<&Frame> = added.iter().filter(|f| f.ty() == "continuity_compaction_auto_schedule_decided").collect();

    // nothing to do / dry run: nothing may be appended
    if plan.is_empty() || dry {
        let kind = if plan.is_empty() { "noop" } else { "dry_run" };
        if !added.is_empty() {
            r.violation(
                &format!("C09/{kind}_appended_frames/{op}"),
                &format!("{op} had nothing to execute ({kind}) but appended {:?}", frames_brief(&all)),
                w2(frames_json(&all)),
            );
            return None;
        }
        if matches!(state.as_str(), "completed" | "spawned" | "scheduled" | "failed" | "skipped_inflight") {
            r.violation(
                &format!("C09/{kind}_reported_as_work/{op}"),
                &format!("{op} had nothing to execute ({kind}) but answered {state_key}={state}"),
                w2(json!(null)),
            );
            return None;
        }
        stats.c(&format!("{kind}_answers_with_zero_bytes_added"));
        seen.ok = true;
        return Some(seen);
    }

    // blocked by an in-flight job
    if state == "skipped_inflight" {
        if !block || m.inflight == Inflight::None {
            r.violation(
                &format!("C09/skipped_inflight_without_cause/{op}"),
                &format!("decision skipped_inflight with block_on_inflight={block} and in-flight job {:?}", m.inflight),
                w2(frames_json(&all)),
            );
            return None;
        }
        let ok = added.len() == 1
            && decisions.len() == 1
            && decisions[0].s("decision") == "skipped_inflight"
            && planned_triples(decisions[0].v.get("planned")) == cut_triples(&plan);
        if !ok {
            r.violation(
                &format!("C09/executed_frames_differ_from_plan/{op}/skipped_inflight_frames"),
                &format!("skipped_inflight must append exactly one decision frame carrying the plan; appended {:?}", frames_brief(&all)),
                w2(frames_json(&all)),
            );
            return None;
        }
        stats.c("schedule_skipped_inflight");
        seen.ok = true;
        return Some(seen);
    }
    if block {
        if let Inflight::Definite(job) = &m.inflight {
            r.violation(
                &format!("C09/inflight_job_not_respected/{op}"),
                &format!("block_on_inflight=true and job {job} was spawned and never ended, yet the decision is {state}"),
                w2(frames_json(&all)),
            );
            return None;
        }
    }

    // work was started: job-spawned [decision] (checkpoint per planned cut, ascending) job-ended
    let fail = |r: &mut Report, what: &str, msg: String| {
        r.violation(&format!("C09/executed_frames_differ_from_plan/{op}/{what}"), &msg, w2(frames_json(&all)));
    };
    let spawned: Vec<&Frame> = added.iter().filter(|f| f.ty() == "continuity_job_spawned").collect();
    let ended: Vec<&Frame> = added.iter().filter(|f| f.ty() == "continuity_job_ended").collect();
    let ckpts: Vec<&Frame> = added.iter().filter(|f| f.ty() == "continuity_compaction_checkpoint_created").collect();
    let job_id = v.get("job_id").and_then(|x| x.as_str()).unwrap_or("");
    if spawned.len() != 1
        || added.first().map(|f| f.ty()) != Some("continuity_job_spawned")
        || spawned[0].s("job_id") != job_id
        || spawned[0].s("job_kind") != JOB_KIND
    {
        fail(r, "job_spawned", format!("expected one leading job_spawned for job {job_id}; appended {:?}", frames_brief(&all)));
        return None;
    }
    if planned_triples(spawned[0].v.pointer("/details/planned")) != cut_triples(&plan) {
        fail(r, "job_spawned_plan", "job_spawned.details.planned differs from the plan".into());
        return None;
    }
    let want_decisions = if q.schedule { 1 } else { 0 };
    if decisions.len() != want_decisions
        || decisions.iter().any(|d| d.s("decision") != "scheduled" || d.s("job_id") != job_id || planned_triples(d.v.get("planned")) != cut_triples(&plan))
    {
        fail(r, "decision_frame", format!("expected {want_decisions} 'scheduled' decision frame(s) linked to the job; appended {:?}", frames_brief(&all)));
        return None;
    }
    if !execute {
        if added.len() != 2 || state != "scheduled" {
            fail(r, "execute_false_ran", format!("execute=false must only spawn the job and log the decision; {state_key}={state}, appended {:?}", frames_brief(&all)));
            return None;
        }
        stats.c("schedule_execute_false_left_job_pending");
        seen.ok = true;
        return Some(seen);
    }
    if ended.len() != 1 || added.last().map(|f| f.ty()) != Some("continuity_job_ended") || ended[0].s("job_id") != job_id {
        fail(r, "job_ended", format!("expected one trailing job_ended for job {job_id}; appended {:?}", frames_brief(&all)));
        return None;
    }
    if ended[0].s("status") != "completed" || state != "completed" {
        fail(r, "job_failed", format!("job status {} / {state_key}={state}, error {:?}", ended[0].s("status"), ended[0].v.get("error")));
        return None;
    }
    if added.len() != 2 + want_decisions + ckpts.len() {
        fail(r, "extra_frames", format!("frames other than job/decision/checkpoint were appended: {:?}", frames_brief(&all)));
        return None;
    }
    let mut asc = plan.clone();
    asc.sort_by_key(|c| c.to_seq);
    let got: Vec<(u64, String)> = ckpts.iter().map(|f| (f.u("to_seq").unwrap_or(u64::MAX), f.s("to_message_id").to_string())).collect();
    let want: Vec<(u64, String)> = asc.iter().map(|c| (c.to_seq, c.id.clone())).collect();
    if got != want {
        fail(r, "checkpoints", format!("checkpoint frames {:?}; planned (ascending) {:?}", got, want));
        return None;
    }
    let listed: Vec<(String, String, u64, String)> = ended[0]
        .v
        .pointer("/result/created")
        .and_then(|x| x.as_array())
        .map(|a| {
            a.iter()
                .map(|c| {
                    (
                        c.get("checkpoint_id").and_then(|x| x.as_str()).unwrap_or("").to_string(),
                        c.get("summary_artifact_id").and_then(|x| x.as_str()).unwrap_or("").to_string(),
                        c.get("to_seq").and_then(|x| x.as_u64()).unwrap_or(u64::MAX),
                        c.get("to_message_id").and_then(|x| x.as_str()).unwrap_or("").to_string(),
                    )
                })
                .collect()
        })
        .unwrap_or_default();
    let from_frames: Vec<(String, String, u64, String)> = ckpts
        .iter()
        .map(|f| (f.s("checkpoint_id").to_string(), f.s("summary_artifact_id").to_string(), f.u("to_seq").unwrap_or(u64::MAX), f.s("to_message_id").to_string()))
        .collect();
    if listed != from_frames {
        fail(r, "job_ended_result", "job_ended.result.created does not list exactly the checkpoints that were appended".into());
        return None;
    }
    if !q.http {
        let resp: Vec<(String, String)> = v
            .get("result")
            .and_then(|x| x.as_array())
            .map(|a| a.iter().map(|c| (c.get("checkpoint_id").and_then(|x| x.as_str()).unwrap_or("").to_string(), c.get("summary_artifact_id").and_then(|x| x.as_str()).unwrap_or("").to_string())).collect())
            .unwrap_or_default();
        if resp != from_frames.iter().map(|c| (c.0.clone(), c.1.clone())).collect::<Vec<_>>() {
            fail(r, "response_result", "response.result differs from the checkpoints that were appended".into());
            return None;
        }
    }
    for f in &ckpts {
        if f.s("checkpoint_id") != f.id() || f.s("cut_rule_id") != format!("stride_messages_v1/{stride}") {
            fail(r, "checkpoint_fields", format!("checkpoint frame id/cut_rule_id inconsistent: {}", f.v));
            return None;
        }
        match check_summary(ctx.store, &ctx.thread, f.s("summary_artifact_id"), f.u("to_seq").unwrap_or(0), f.s("to_message_id")) {
            Ok(md) => {
                stats.c("summary_artifacts_verified");
                seen.created.push((f.s("checkpoint_id").to_string(), f.s("summary_artifact_id").to_string(), md));
            }
            Err((kind, msg)) => {
                r.violation(&format!("C09/{kind}/{op}"), &msg, w2(frames_json(&all)));
                return None;
            }
        }
    }
    stats.n("checkpoints_created_on_planned_cuts", ckpts.len() as u64);
    stats.c(&format!("{op}_executions_bracketed_by_job_frames"));
    stats.nontrivial += 1;
    seen.executed = true;
    seen.ok = true;
    r.distinct_str(&format!(
        "ex|{op}|{}|{}|{}|{}|{}|{}",
        stride_class(q.stride, m.count()),
        q.max_new.map(|x| x.min(41)).unwrap_or(99),
        ckpts.len(),
        m.ckpts.len().min(3),
        q.http,
        match m.count() {
            0..=9 => "s",
            10..=59 => "m",
            _ => "l",
        }
    ));
    Some(seen)
}

// ---------------------------------------------------------------------------------------------
// manual checkpoints

fn pick_manual(rng: &mut Rng, m: &Model, arts: &[(String, u64)], other_msg: Option<&String>) -> (ManualReq, Option<(u64, String)>) {
    // returns the request and the cut it must land on (None = must be rejected)
    let http = rng.bool();
    let md = Some(format!("manual summary {}", rng.ident(6)));
    let mk = |class, markdown: Option<String>, artifact: Option<String>, to_message_id: Option<String>, to_seq: Option<u64>, stride: Option<u64>| ManualReq {
        class,
        markdown,
        artifact,
        to_message_id,
        to_seq,
        stride,
        http,
    };
    loop {
        match rng.below(14) {
            0 | 1 => {
                if !m.msgs.is_empty() {
                    let (s, id) = rng.pick(&m.msgs).clone();
                    return (mk("boundary_seq", md, None, None, Some(s), None), Some((s, id)));
                }
            }
            2 | 3 => {
                if !m.msgs.is_empty() {
                    let (s, id) = rng.pick(&m.msgs).clone();
                    return (mk("message_id", md, None, Some(id.clone()), None, None), Some((s, id)));
                }
            }
            4 => {
                // a seq that is not a message boundary
                let s = if !m.non_msg.is_empty() && rng.chance(3, 4) {
                    rng.pick(&m.non_msg).0
                } else {
                    m.n_frames as u64 + rng.below(3)
                };
                return (mk("non_boundary_seq", md, None, None, Some(s), None), None);
            }
            5 => {
                let id = if !m.non_msg.is_empty() && rng.bool() {
                    rng.pick(&m.non_msg).1.clone()
                } else if let (Some(o), true) = (other_msg, rng.bool()) {
                    o.clone()
                } else {
                    new_uuid(rng)
                };
                if !m.msgs.iter().any(|(_, i)| *i == id) {
                    return (mk("not_a_message_id", md, None, Some(id), None, None), None);
                }
            }
            6 => {
                let id = m.msgs.last().map(|x| x.1.clone()).unwrap_or_else(|| new_uuid(rng));
                let s = m.msgs.last().map(|x| x.0).unwrap_or(0);
                return (mk("both_selectors", md, None, Some(id), Some(s), None), None);
            }
            7 => {
                let s = m.msgs.last().map(|x| x.0);
                return (mk("no_summary", None, None, None, s, None), None);
            }
            8 | 9 => {
                let ww = rng.bool();
                let stride = pick_stride(rng, m.count(), ww);
                let expect = match stride {
                    Some(0) => None,
                    _ => m.cut_points(stride.unwrap_or(10_000), 1).first().map(|c| (c.to_seq, c.id.clone())),
                };
                return (mk("by_stride", md, None, None, None, stride), expect);
            }
            10 => {
                // reuse an existing summary artifact on the cut it covers
                if let Some((art, s)) = arts.iter().rev().find(|(_, s)| m.msgs.iter().any(|(q, _)| q == s)) {
                    let id = m.msgs.iter().find(|(q, _)| q == s).map(|x| x.1.clone()).unwrap_or_default();
                    return (mk("artifact_matching", None, Some(art.clone()), None, Some(*s), None), Some((*s, id)));
                }
            }
            11 => {
                // an existing summary artifact on a cut it does not cover
                if let Some((art, s)) = arts.last() {
                    if let Some((other, _)) = m.msgs.iter().find(|(q, _)| q != s) {
                        return (mk("artifact_other_cut", None, Some(art.clone()), None, Some(*other), None), None);
                    }
                }
            }
            12 => {
                let s = m.msgs.last().map(|x| x.0);
                if s.is_some() {
                    return (mk("artifact_missing", None, Some(rng.hex(64)), None, s, None), None);
                }
            }
            _ => {
                if m.msgs.is_empty() {
                    return (mk("no_messages", md, None, None, None, Some(1)), None);
                }
            }
        }
    }
}

fn probe_manual(r: &mut Report, ctx: &Ctx, stats: &mut Stats, rng: &mut Rng, arts: &mut Vec<(String, u64)>, other_msg: Option<&String>, wit: &Value) {
    let Ok((before, m)) = current_model(ctx) else {
        r.inconclusive("log unreadable before manual checkpoint");
        return;
    };
    let (q, expect) = pick_manual(rng, &m, arts, other_msg);
    let res = call_manual(ctx, &ctx.thread, &q);
    r.eval();
    stats.c("manual_checkpoint_calls");
    let after = ctx.store.log_bytes_settled();
    let w = |d: Value| json!({"at": wit, "probe": "manual_checkpoint", "class": q.class, "to_seq": q.to_seq, "to_message_id": q.to_message_id,
        "stride_messages": q.stride, "artifact": q.artifact, "http": q.http, "messages": m.count(), "detail": d});
    if !after.starts_with(&before) {
        r.inconclusive("events.jsonl is not an extension of its earlier bytes (C02 matter); call not judged");
        return;
    }
    let added = truth::parse_log(&after[before.len()..]).unwrap_or_default();
    let all: Vec<&Frame> = added.iter().collect();
    match (res, expect) {
        (Err(_), None) => {
            if added.is_empty() {
                stats.c("manual_checkpoint_rejected_nothing_appended");
                r.distinct_str(&format!("mn|{}|rej|{}", q.class, q.http));
            } else {
                r.violation(
                    &format!("C09/rejected_call_appended/manual/{}", q.class),
                    &format!("a rejected manual checkpoint appended {:?}", frames_brief(&all)),
                    w(frames_json(&all)),
                );
            }
        }
        (Ok(v), None) => r.violation(
            &format!("C09/manual_checkpoint_accepted_invalid/{}", q.class),
            &format!("manual checkpoint ({}) must be rejected but was accepted", q.class),
            w(json!({"response": v, "added": frames_json(&all)})),
        ),
        (Err(e), Some((s, id))) => r.violation(
            &format!("C09/manual_checkpoint_rejected_valid/{}", q.class),
            &format!("manual checkpoint at message boundary seq {s} ({id}) was rejected: {e}"),
            w(json!(e)),
        ),
        (Ok(v), Some((s, id))) => {
            let ok = added.len() == 1
                && added[0].ty() == "continuity_compaction_checkpoint_created"
                && added[0].stream_id() == ctx.thread
                && added[0].u("to_seq") == Some(s)
                && added[0].s("to_message_id") == id
                && v.get("to_seq").and_then(|x| x.as_u64()) == Some(s)
                && v.get("checkpoint_id").and_then(|x| x.as_str()) == Some(added[0].s("checkpoint_id"));
            if !ok {
                r.violation(
                    &format!("C09/manual_checkpoint_frames_wrong/{}", q.class),
                    &format!("expected exactly one checkpoint frame for seq {s} / {id}; appended {:?}", frames_brief(&all)),
                    w(json!({"response": v, "added": frames_json(&all)})),
                );
                return;
            }
            match check_summary(ctx.store, &ctx.thread, added[0].s("summary_artifact_id"), s, &id) {
                Ok(_) => {
                    stats.c("manual_checkpoint_accepted_on_boundary");
                    stats.c("summary_artifacts_verified");
                    stats.nontrivial += 1;
                    arts.push((added[0].s("summary_artifact_id").to_string(), s));
                    r.distinct_str(&format!("mn|{}|acc|{}|{}", q.class, q.http, stride_class(q.stride, m.count())));
                }
                Err((kind, msg)) => r.violation(&format!("C09/{kind}/manual"), &msg, w(frames_json(&all))),
            }
        }
    }
}

// ---------------------------------------------------------------------------------------------
// history generation

const VOCAB: &[&str] = &[
    "compaction", "checkpoint", "summary", "stride", "message", "thread", "replay", "cursor", "branch", "kernel",
    "provider", "artifact", "bundle", "schedule",
];
const ACTORS: &[&str] = &["alice", "bob", "carol", "dave", "erin"];
const NOTABLE: &[&str] = &["TODO: ", "Decision: ", "- fix ", "Plan: ", "Risk: ", "Next "];

fn rich_message(rng: &mut Rng, n: u64) -> (String, String) {
    let actor = rng.pick(ACTORS).to_string();
    let mut s = String::new();
    let lines = 1 + rng.usize(3);
    for l in 0..lines {
        if rng.chance(1, 3) {
            s.push_str(NOTABLE[rng.usize(NOTABLE.len())]);
        }
        let words = 2 + rng.usize(8);
        for k in 0..words {
            if k > 0 {
                s.push(' ');
            }
            s.push_str(VOCAB[rng.usize(VOCAB.len())]);
        }
        if l == 0 {
            s.push_str(&format!(" n{n}"));
        }
        s.push('\n');
    }
    // now and then a message with a very wide vocabulary in which every word occurs equally often (one delta with
    // hundreds of distinct, tied terms: whatever a summary keeps of them must not depend on anything but the text)
    if rng.chance(1, 9) {
        let distinct = 150 + rng.usize(400);
        let reps = 1 + rng.usize(2);
        for _ in 0..reps {
            for k in 0..distinct {
                s.push_str(&format!("term{k:03}x{} ", n % 7));
            }
            s.push('\n');
        }
    }
    (actor, s)
}

/// Append `msgs` messages to the thread, mixed with other frame kinds.
fn grow(ctx: &Ctx, known: &mut Known, rng: &mut Rng, msgs: usize, tag: &str, density: u64) {
    let st = ctx.app.store();
    let conts = [ctx.thread.clone()];
    let weights: Vec<(OpKind, u64)> = vec![
        (OpKind::RunSpawned, 10),
        (OpKind::RunEnded, 9),
        (OpKind::SideEffects, 10),
        (OpKind::Cursor, 4),
        (OpKind::Rotate, 1),
        (OpKind::Compile, 1),
        (OpKind::BigMsg, 1),
    ];
    let mut done = 0usize;
    let mut guard = 0usize;
    while done < msgs && guard < msgs * 8 + 8 {
        guard += 1;
        if rng.below(100) < density && !known.msgs.is_empty() {
            let k = pick_kind(rng, &weights);
            let res = exec(&ctx.app, &ctx.store.data, &conts, known, k, rng, tag);
            if matches!(res.kind, Some(OpKind::Msg) | Some(OpKind::BigMsg)) && res.ok {
                done += 1;
            }
            continue;
        }
        if rng.chance(2, 3) {
            known.counter += 1;
            let (actor, content) = rich_message(rng, known.counter);
            if let Ok(id) = st.append_message(&ctx.thread, actor, "rv".into(), content) {
                known.msgs.push((ctx.thread.clone(), id));
                done += 1;
            }
        } else {
            let res = exec(&ctx.app, &ctx.store.data, &conts, known, OpKind::Msg, rng, tag);
            if res.ok {
                done += 1;
            }
        }
    }
}

fn pick_exec(rng: &mut Rng, count: u64) -> ExecReq {
    let schedule = rng.bool();
    let ww = rng.chance(1, 2);
    ExecReq {
        schedule,
        stride: pick_stride(rng, count, ww),
        max_new: *rng.pick(&[None, Some(0u32), Some(1), Some(1), Some(2), Some(3), Some(32), Some(40), Some(u32::MAX)]),
        block: *rng.pick(&[None, Some(true), Some(false)]),
        execute: *rng.pick(&[None, Some(true), Some(true), Some(true), Some(false)]),
        dry_run: *rng.pick(&[None, Some(false), Some(false), Some(false), Some(true)]),
        http: rng.chance(1, 3),
    }
}

// ---------------------------------------------------------------------------------------------
// determinism: the same request on two byte-identical forks renders the same summary text

fn probe_determinism(r: &mut Report, ctx: &Ctx, stats: &mut Stats, rng: &mut Rng, wit: &Value) {
    let Ok((_, m)) = current_model(ctx) else {
        return;
    };
    if m.count() < 2 {
        return;
    }
    // a request with work to do
    let mut choice: Option<(u64, u32)> = None;
    for _ in 0..8 {
        let stride = pick_stride(rng, m.count(), true).unwrap_or(1).max(1);
        let max_new = *rng.pick(&[1u32, 2, 3, 32]);
        if !m.plan(stride, max_new as u64).is_empty() {
            choice = Some((stride, max_new));
            break;
        }
    }
    let Some((stride, max_new)) = choice else {
        return;
    };
    let mut texts: Vec<Vec<String>> = Vec::new();
    let mut plans: Vec<Vec<(u64, u64, String)>> = Vec::new();
    for k in 0..2 {
        let fork = ctx.store.fork(&format!("c09f{k}"));
        let Ok(app) = App::open(&fork, None) else {
            r.inconclusive("determinism: cannot open a forked store");
            return;
        };
        let res = app.store().compaction_auto_v1(
            &ctx.thread,
            CompactionAutoV1Request {
                stride_messages: Some(stride),
                max_new_checkpoints: Some(max_new),
                dry_run: Some(false),
                actor_id: "rv-actor".into(),
                origin: "rv-origin".into(),
            },
        );
        match res {
            Ok(resp) => {
                let mut t = Vec::new();
                for c in &resp.result {
                    match check_summary(&fork, &ctx.thread, &c.summary_artifact_id, c.to_seq, &c.to_message_id) {
                        Ok(md) => t.push(normalise(&md)),
                        Err((kind, msg)) => {
                            r.violation(&format!("C09/{kind}/auto_on_fork"), &msg, json!({"at": wit, "stride": stride, "max_new": max_new}));
                            return;
                        }
                    }
                }
                plans.push(resp.planned.iter().map(|p| (p.target_message_ordinal, p.to_seq, p.to_message_id.clone())).collect());
                if resp.status != "completed" {
                    r.violation(
                        "C09/executed_frames_differ_from_plan/auto/job_failed",
                        &format!("auto on a forked store answered status={} error={:?}", resp.status, resp.error),
                        json!({"at": wit, "stride": stride, "max_new": max_new}),
                    );
                    return;
                }
                texts.push(t);
            }
            Err(e) => {
                r.violation("C09/valid_request_rejected/auto", &format!("auto on a forked store failed: {e}"), json!({"at": wit, "stride": stride}));
                return;
            }
        }
        drop(app);
    }
    r.eval();
    stats.c("determinism_fork_pairs_compared");
    if plans[0] != plans[1] || plans[0] != cut_triples(&m.plan(stride, max_new as u64)) {
        r.violation(
            "C09/plan_differs_from_truth/auto",
            "the same request planned different cuts on two byte-identical copies of the store",
            json!({"at": wit, "stride": stride, "max_new": max_new, "a": plans[0], "b": plans[1]}),
        );
        return;
    }
    if texts[0] != texts[1] {
        let i = texts[0].iter().zip(texts[1].iter()).position(|(a, b)| a != b).unwrap_or(0);
        r.violation(
            "C09/summary_text_not_deterministic",
            "the same auto-compaction request on two byte-identical copies of the store rendered different summary_markdown (after normalising artifact ids / uuids)",
            json!({"at": wit, "stride": stride, "max_new": max_new, "index": i,
                   "a": texts[0].get(i).map(|s| s.chars().take(1500).collect::<String>()),
                   "b": texts[1].get(i).map(|s| s.chars().take(1500).collect::<String>())}),
        );
        return;
    }
    stats.n("summary_texts_equal_across_forks", texts[0].len() as u64);
    stats.n("summary_text_bytes_compared", texts[0].iter().map(|t| t.len() as u64).sum());
    stats.nontrivial += 1;
    r.distinct_str(&format!("det|{}|{}|{}", stride.min(17), max_new, texts[0].len()));
}

// ---------------------------------------------------------------------------------------------
// one sequential case

fn sequential_case(cfg: &Cfg, r: &mut Report, rt: &tokio::runtime::Runtime, rng: &mut Rng, idx: u64, stats: &mut Stats) {
    let store = Store::new("c09");
    let app = match App::open(&store, None) {
        Ok(a) => a,
        Err(e) => {
            r.inconclusive(&format!("case {idx}: cannot open engine: {e}"));
            return;
        }
    };
    let Ok(thread) = app.store().ensure_default() else {
        r.inconclusive(&format!("case {idx}: ensure_default failed"));
        return;
    };
    // an unrelated thread whose message ids are foreign to `thread`
    let other_msg = app
        .store()
        .branch(&thread, Some("other".into()), None, None, "rv".into(), "rv".into())
        .ok()
        .and_then(|(o, _, _)| app.store().append_message(&o, "rv".into(), "rv".into(), "elsewhere".into()).ok());
    let mut ctx = Ctx {
        rt,
        store: &store,
        app,
        thread,
    };
    let mut known = Known::default();
    let tag = format!("c09-{idx}");
    let big = cfg.tier.pick(200usize, 200usize);
    let n0 = match rng.below(8) {
        0 => 0,
        1 => 1,
        2 => 2 + rng.usize(4),
        3 | 4 => 6 + rng.usize(30),
        5 | 6 => 30 + rng.usize(70),
        _ => 100 + rng.usize(big - 99),
    };
    let density = *rng.pick(&[0u64, 10, 30, 60]);
    grow(&ctx, &mut known, rng, n0, &tag, density);
    let mut arts: Vec<(String, u64)> = Vec::new();
    let probes = 6 + rng.usize(cfg.tier.pick(10, 24));
    let mut sampled = false;
    for p in 0..probes {
        if r.over(cfg) {
            break;
        }
        let wit = json!({"case": idx, "mode": "sequential", "probe_index": p, "initial_messages": n0});
        let choice = rng.below(23);
        if std::env::var("RV_C09_TRACE").is_ok() {
            let ord = std::fs::metadata(store.streams_dir().join(format!("{}.mr.msgord.v1.bin", ctx.thread))).map(|m| (m.len() as i64 - 32) / 24).unwrap_or(-1);
            let msgs = current_model(&ctx).map(|(_, m)| (m.count(), m.n_frames)).unwrap_or((0, 0));
            let files: Vec<String> = std::fs::read_dir(store.streams_dir()).map(|rd| rd.flatten().map(|e| e.file_name().to_string_lossy().to_string()).filter(|n| n.starts_with(&ctx.thread)).map(|n| n[36..].to_string()).collect()).unwrap_or_default();
            eprintln!("probe {p} choice {choice} ordinal_index_records {ord} truth (messages, frames) {msgs:?} files {files:?}");
        }
        match choice {
            0..=3 => probe_cut_points(r, &ctx, stats, rng, &wit),
            4..=6 => probe_status(r, &ctx, stats, rng, &wit),
            7..=13 => {
                let count = current_model(&ctx).map(|(_, m)| m.count()).unwrap_or(0);
                let q = pick_exec(rng, count);
                let Some(seen) = run_exec(r, &ctx, stats, &q, &wit) else {
                    break;
                };
                if !sampled && seen.executed {
                    sampled = true;
                    r.sample(json!({"case": idx, "initial_messages": n0, "other_frame_density_pct": density, "request": q.describe(),
                        "checkpoints_created": seen.created.len(),
                        "summary_head": seen.created.first().map(|c| c.2.chars().take(160).collect::<String>())}));
                }
                if let Ok((_, m)) = current_model(&ctx) {
                    for c in &seen.created {
                        if let Some(k) = m.ckpts.iter().find(|k| k.id == c.0) {
                            arts.push((c.1.clone(), k.to_seq));
                        }
                    }
                }
                // idempotence: repeat the same request immediately (until it has nothing to do)
                if seen.executed && rng.chance(2, 3) {
                    for _ in 0..3 {
                        let wit = json!({"case": idx, "mode": "sequential", "probe_index": p, "repeat_of_previous": true, "initial_messages": n0});
                        match run_exec(r, &ctx, stats, &q, &wit) {
                            Some(s) if s.planned_empty && s.ok => {
                                stats.c("immediate_repeats_noop_zero_bytes");
                                break;
                            }
                            Some(s) if s.ok => continue,
                            _ => break,
                        }
                    }
                }
            }
            14..=16 => probe_manual(r, &ctx, stats, rng, &mut arts, other_msg.as_ref(), &wit),
            17..=19 => {
                let n = match rng.below(4) {
                    0 => 1,
                    1 => 2 + rng.usize(5),
                    _ => 1 + rng.usize(20),
                };
                let total = current_model(&ctx).map(|(_, m)| m.count() as usize).unwrap_or(0);
                if total + n <= 260 {
                    grow(&ctx, &mut known, rng, n, &tag, density);
                }
            }
            20 => {
                // restart (caches are left alone: deleting them is C04's fault model, not this property's)
                let _ = rng.bool();
                let thread = ctx.thread.clone();
                drop(ctx);
                stats.c("restarts");
                let app = match App::open(&store, None) {
                    Ok(a) => a,
                    Err(e) => {
                        r.inconclusive(&format!("case {idx}: reopen failed: {e}"));
                        return;
                    }
                };
                ctx = Ctx {
                    rt,
                    store: &store,
                    app,
                    thread,
                };
                // the answers must be the same after a restart
                probe_cut_points(r, &ctx, stats, rng, &wit);
                probe_status(r, &ctx, stats, rng, &wit);
            }
            21 => probe_determinism(r, &ctx, stats, rng, &wit),
            _ => {
                // unknown thread: rejected, nothing appended
                let before = store.log_bytes_settled();
                let ghost = new_uuid(rng);
                let q = ExecReq {
                    schedule: rng.bool(),
                    stride: Some(1),
                    max_new: Some(1),
                    block: None,
                    execute: None,
                    dry_run: None,
                    http: rng.bool(),
                };
                let res = call_exec(&ctx, &ghost, &q);
                r.eval();
                if res.is_ok() || store.log_bytes_settled() != before {
                    r.violation(
                        &format!("C09/unknown_thread_not_rejected/{}", q.op()),
                        "auto/schedule on a thread id that does not exist was accepted or appended frames",
                        json!({"at": wit, "request": q.describe(), "response": res.ok()}),
                    );
                } else {
                    stats.c("unknown_thread_rejected");
                }
            }
        }
    }
    // final: the whole log is a valid set of streams
    match truth::parse_log(&store.log_bytes_settled()) {
        Ok(frames) => {
            if let Err(e) = truth::check_streams(&frames) {
                r.violation(
                    &format!("C09/stream_order_after_compaction/{}", e.kind),
                    &format!("per-stream seq broken after the compaction workload: {}", e.detail),
                    json!({"case": idx, "mode": "sequential", "detail": e.detail}),
                );
            }
            stats.n("frames_in_judged_logs", frames.len() as u64);
            // every auto summary of the history: base strictly below its cut, delta window, and equal
            // text where one cut was summarised more than once (HTTP jobs run in the background)
            if let Some(m) = model_of(&frames, &ctx.thread) {
                let fs = truth::stream(&frames, "continuity", &ctx.thread);
                let lossy = !comp_cache_lost(&store, &ctx.thread, &m).is_empty();
                let wit = |d: Value| json!({"case": idx, "mode": "sequential", "initial_messages": n0, "detail": d});
                judge_summary_history(r, &store, &fs, lossy, stats, &wit);
            }
        }
        Err(e) => r.inconclusive(&format!("case {idx}: final log unreadable: {}", e.detail)),
    }
    stats.c("sequential_histories");
}

// ---------------------------------------------------------------------------------------------
// concurrent auto / schedule calls on one thread

fn concurrent_case(cfg: &Cfg, r: &mut Report, rt: &tokio::runtime::Runtime, s: &Arc<Sched>, rng: &mut Rng, idx: u64, stats: &mut Stats, hot: bool) {
    let store = Store::new("c09c");
    let app = match App::open(&store, None) {
        Ok(a) => a,
        Err(e) => {
            r.inconclusive(&format!("case {idx}: cannot open engine: {e}"));
            return;
        }
    };
    let Ok(thread) = app.store().ensure_default() else {
        return;
    };
    let ctx = Ctx {
        rt,
        store: &store,
        app: app.clone(),
        thread: thread.clone(),
    };
    let mut known = Known::default();
    let tag = format!("c09c-{idx}");
    let n0 = 4 + rng.usize(cfg.tier.pick(60, 120));
    let dens = *rng.pick(&[0u64, 20, 40]);
    grow(&ctx, &mut known, rng, n0, &tag, dens);
    if rng.chance(1, 3) {
        // a manual checkpoint already sits on some boundary
        if let Ok((_, m)) = current_model(&ctx) {
            let (sq, _) = rng.pick(&m.msgs).clone();
            let _ = call_manual(
                &ctx,
                &thread,
                &ManualReq {
                    class: "boundary_seq",
                    markdown: Some("pre-existing".into()),
                    artifact: None,
                    to_message_id: None,
                    to_seq: Some(sq),
                    stride: None,
                    http: false,
                },
            );
        }
    }
    let baseline = truth::parse_log(&store.log_bytes_settled()).map(|f| truth::stream(&f, "continuity", &thread).len()).unwrap_or(0);
    let mut threads = 2 + rng.usize(7);
    let mut strides: Vec<u64> = {
        let a = *rng.pick(&[1u64, 2, 3, 5]);
        let b = *rng.pick(&[1u64, 2, 3, 5, 7]);
        vec![a, b]
    };
    let mut noise = *rng.pick(&[0u64, 200, 1000, 3000]);
    let mut appender = rng.chance(1, 3);
    if hot {
        // many writers, frames that span pages, replay-heavy calls
        threads = 8;
        strides = vec![1, 1];
        noise = 0;
        appender = true;
    }
    s.reset();
    s.record(true, &["log.append.locked"]);
    s.set_noise(
        rng.next_u64(),
        &[
            ("log.append.enter", noise),
            ("log.append.locked", noise / 4),
            ("log.append.after_body", noise / 4),
            ("cont.cache.enter", noise),
            ("cont.cache.exit", noise),
            ("cache.comp.written", noise),
            ("cache.compidx.written", noise / 2),
            ("artifact.tmp", noise),
            ("artifact.renamed", noise),
        ],
    );
    let mut handles = Vec::new();
    for t in 0..threads {
        let app = app.clone();
        let thread = thread.clone();
        let mut trng = Rng::derive(rng.next_u64(), t as u64);
        let strides = strides.clone();
        handles.push(std::thread::spawn(move || {
            let st = app.store();
            let mut out: Vec<(Value, Result<Value, String>)> = Vec::new();
            let calls = if hot { 4 } else { 1 + trng.usize(3) };
            for _ in 0..calls {
                let stride = *trng.pick(&strides);
                let max_new = if hot { 32 } else { *trng.pick(&[1u32, 1, 2, 3, 32]) };
                if trng.bool() {
                    let req = CompactionAutoV1Request {
                        stride_messages: Some(stride),
                        max_new_checkpoints: Some(max_new),
                        dry_run: Some(trng.chance(1, 10)),
                        actor_id: format!("rv-t{t}"),
                        origin: "rv".into(),
                    };
                    let d = json!({"op": "auto", "stride": stride, "max_new": max_new, "dry_run": req.dry_run, "execute": true});
                    out.push((d, st.compaction_auto_v1(&thread, req).map(|x| serde_json::to_value(x).unwrap_or(Value::Null))));
                } else {
                    let req = CompactionAutoScheduleV1Request {
                        stride_messages: Some(stride),
                        max_new_checkpoints: Some(max_new),
                        block_on_inflight: Some(trng.chance(1, 3)),
                        execute: Some(!trng.chance(1, 12)),
                        dry_run: Some(trng.chance(1, 10)),
                        actor_id: format!("rv-t{t}"),
                        origin: "rv".into(),
                    };
                    let d = json!({"op": "schedule", "stride": stride, "max_new": max_new, "dry_run": req.dry_run,
                                   "execute": req.execute, "block_on_inflight": req.block_on_inflight});
                    out.push((d, st.compaction_auto_schedule_v1(&thread, req).map(|x| serde_json::to_value(x).unwrap_or(Value::Null))));
                }
            }
            out
        }));
    }
    let app_handle = if appender {
        let app = app.clone();
        let thread = thread.clone();
        let mut trng = Rng::derive(rng.next_u64(), 999);
        Some(std::thread::spawn(move || {
            let n = if hot { 40 } else { 3 + trng.usize(12) };
            for k in 0..n {
                let (actor, mut content) = rich_message(&mut trng, 10_000 + k as u64);
                if hot {
                    let extra = 3000 + trng.usize(6000);
                    content.push_str(&trng.ascii(extra));
                }
                let _ = app.store().append_message(&thread, actor, "rv".into(), content);
            }
        }))
    } else {
        None
    };
    let mut calls: Vec<(Value, Result<Value, String>)> = Vec::new();
    let mut panicked = false;
    for h in handles {
        match h.join() {
            Ok(v) => calls.extend(v),
            Err(_) => panicked = true,
        }
    }
    if let Some(h) = app_handle {
        let _ = h.join();
    }
    let events = s.take_events();
    s.reset();
    stats.c("concurrent_histories");
    stats.n("concurrent_calls", calls.len() as u64);
    let meta = json!({"case": idx, "mode": "concurrent", "threads": threads, "strides": strides, "noise_us": noise,
        "appender": appender, "initial_messages": n0});
    let _ = judge_jobs(r, &ctx, stats, &calls, panicked, baseline, &strides, &events, &BTreeSet::new(), &meta);
}

/// What `judge_jobs` saw (for the caller's own counters).
#[derive(Default)]
struct JobsSeen {
    jobs: usize,
    cuts_checkpointed_more_than_once: u64,
    same_cut_pairs_equal: u64,
}

/// Judge the recorded log of a phase in which several auto / schedule calls ran on one thread
/// (concurrently, or spawned first and run later): job bracketing, plans, created checkpoints,
/// summaries as a function of the history, and the read side afterwards.
#[allow(clippy::too_many_arguments)]
fn judge_jobs(
    r: &mut Report,
    ctx: &Ctx,
    stats: &mut Stats,
    calls: &[(Value, Result<Value, String>)],
    panicked: bool,
    baseline: usize,
    strides: &[u64],
    events: &[crate::sched::Ev],
    manual: &BTreeSet<String>,
    meta: &Value,
) -> Option<JobsSeen> {
    let store = ctx.store;
    let thread = ctx.thread.clone();
    r.eval();
    let wit = |d: Value| {
        let mut w = meta.clone();
        w["detail"] = d;
        w
    };
    if panicked {
        r.violation("C09/concurrent/caller_panicked", "a thread calling auto/schedule panicked", wit(json!(null)));
        return None;
    }
    let frames = match truth::parse_log(&store.log_bytes_settled()) {
        Ok(f) => f,
        Err(e) => {
            r.violation(&format!("C09/concurrent/log_invalid/{}", e.kind), &e.detail, wit(json!(e.detail)));
            return None;
        }
    };
    if let Err(e) = truth::check_streams(&frames) {
        r.violation(&format!("C09/concurrent/log_invalid/{}", e.kind), &e.detail, wit(json!(e.detail)));
        return None;
    }
    let Some(m) = model_of(&frames, &thread) else {
        return None;
    };
    let fs = truth::stream(&frames, "continuity", &thread);
    // which jobs were deliberately left pending (execute=false)
    let mut pending_ok: BTreeSet<String> = BTreeSet::new();
    for (d, res) in calls {
        match res {
            Err(e) => {
                r.violation(
                    if is_torn_read(e) { SIG_TORN_READ } else { "C09/concurrent/valid_request_rejected" },
                    &format!("a concurrent auto/schedule call failed: {e}"),
                    wit(json!({"request": d, "error": e})),
                );
                return None;
            }
            Ok(v) => {
                let stride = d.get("stride").and_then(|x| x.as_u64()).unwrap_or(1);
                for (o, sq, id) in planned_triples(v.get("planned")) {
                    if !m.is_cut_point(stride, o, sq, &id) {
                        r.violation(
                            "C09/concurrent/planned_not_a_cut_point",
                            &format!("a response planned ordinal {o} seq {sq} id {id}, which is not the {o}-th message / a multiple of stride {stride}"),
                            wit(json!({"request": d, "response": v})),
                        );
                        return None;
                    }
                }
                let state = v.get("decision").or_else(|| v.get("status")).and_then(|x| x.as_str()).unwrap_or("");
                if state == "failed" {
                    let torn = v.get("error").and_then(|x| x.as_str()).map(is_torn_read).unwrap_or(false);
                    r.violation(
                        if torn { SIG_TORN_READ } else { "C09/concurrent/job_failed" },
                        &format!("a summarizer job failed under concurrency: {:?}", v.get("error")),
                        wit(json!({"request": d, "response": v})),
                    );
                    return None;
                }
                if state == "scheduled" && d.get("execute").and_then(|x| x.as_bool()) == Some(false) {
                    if let Some(j) = v.get("job_id").and_then(|x| x.as_str()) {
                        pending_ok.insert(j.to_string());
                    }
                }
            }
        }
    }
    // jobs
    struct Job {
        spawned_at: usize,
        stride: u64,
        planned: Vec<(u64, u64, String)>,
        ended_at: Option<usize>,
        status: String,
        created: Vec<(String, u64, String)>,
    }
    let mut jobs: BTreeMap<String, Job> = BTreeMap::new();
    for (i, f) in fs.iter().enumerate().skip(baseline) {
        match f.ty() {
            "continuity_job_spawned" => {
                let j = Job {
                    spawned_at: i,
                    stride: f.v.pointer("/details/stride_messages").and_then(|x| x.as_u64()).unwrap_or(0),
                    planned: planned_triples(f.v.pointer("/details/planned")),
                    ended_at: None,
                    status: String::new(),
                    created: vec![],
                };
                if jobs.insert(f.s("job_id").to_string(), j).is_some() {
                    r.violation("C09/concurrent/job_not_bracketed", "two job_spawned frames carry one job id", wit(json!(f.v)));
                    return None;
                }
            }
            "continuity_job_ended" => {
                let Some(j) = jobs.get_mut(f.s("job_id")) else {
                    r.violation("C09/concurrent/job_not_bracketed", "job_ended without an earlier job_spawned", wit(json!(f.v)));
                    return None;
                };
                if j.ended_at.is_some() {
                    r.violation("C09/concurrent/job_not_bracketed", "a job ended twice", wit(json!(f.v)));
                    return None;
                }
                j.ended_at = Some(i);
                j.status = f.s("status").to_string();
                j.created = f
                    .v
                    .pointer("/result/created")
                    .and_then(|x| x.as_array())
                    .map(|a| {
                        a.iter()
                            .map(|c| {
                                (
                                    c.get("checkpoint_id").and_then(|x| x.as_str()).unwrap_or("").to_string(),
                                    c.get("to_seq").and_then(|x| x.as_u64()).unwrap_or(u64::MAX),
                                    c.get("to_message_id").and_then(|x| x.as_str()).unwrap_or("").to_string(),
                                )
                            })
                            .collect()
                    })
                    .unwrap_or_default();
            }
            _ => {}
        }
    }
    let mut owner: HashMap<String, String> = HashMap::new();
    let mut stale: BTreeSet<String> = BTreeSet::new();
    let mut stale_plan_jobs = 0u64;
    for (id, j) in &jobs {
        if j.ended_at.is_none() && !pending_ok.contains(id) {
            r.violation("C09/concurrent/job_not_bracketed", &format!("job {id} was executed but never ended"), wit(json!({"job": id})));
            return None;
        }
        if j.ended_at.is_some() && j.status != "completed" {
            let err = j.ended_at.and_then(|i| fs[i].v.get("error")).and_then(|x| x.as_str()).unwrap_or("");
            r.violation(if is_torn_read(err) { SIG_TORN_READ } else { "C09/concurrent/job_failed" }, &format!("job {id} ended with status {}", j.status), wit(json!({"job": id})));
            return None;
        }
        for (o, sq, mid) in &j.planned {
            if !m.is_cut_point(j.stride, *o, *sq, mid) {
                r.violation("C09/concurrent/planned_not_a_cut_point", &format!("job {id} planned ordinal {o} seq {sq}: not a stride-{} cut point", j.stride), wit(json!({"job": id})));
                return None;
            }
        }
        if j.ended_at.is_some() {
            let mut want: Vec<(u64, String)> = j.planned.iter().map(|p| (p.1, p.2.clone())).collect();
            want.sort();
            let got: Vec<(u64, String)> = j.created.iter().map(|c| (c.1, c.2.clone())).collect();
            if got != want {
                // the scheduler plans twice: the decision frame / response carry the first plan (which is
                // executed), job_spawned.details carries the second
                let dec_plan: Option<Vec<(u64, String)>> = fs
                    .iter()
                    .find(|f| f.ty() == "continuity_compaction_auto_schedule_decided" && f.s("job_id") == id)
                    .map(|f| {
                        let mut p: Vec<(u64, String)> = planned_triples(f.v.get("planned")).into_iter().map(|t| (t.1, t.2)).collect();
                        p.sort();
                        p
                    });
                if dec_plan.as_ref() == Some(&got) {
                    stale_plan_jobs += 1;
                    r.violation(
                        SIG_STALE_PLAN,
                        &format!("job {id}: job_spawned.details.planned (ascending) {want:?} but the job executed the decision frame's plan {got:?}"),
                        wit(json!({"job": id})),
                    );
                    for c in &j.created {
                        owner.insert(c.0.clone(), id.clone());
                    }
                    stale.insert(id.clone());
                    continue;
                }
                r.violation(
                    "C09/concurrent/created_differs_from_planned",
                    &format!("job {id} created {got:?} but planned (ascending) {want:?}"),
                    wit(json!({"job": id})),
                );
                return None;
            }
        }
        for c in &j.created {
            owner.insert(c.0.clone(), id.clone());
        }
    }
    let mut per_cut: BTreeMap<u64, u32> = BTreeMap::new();
    let mut last_in_job: HashMap<String, u64> = HashMap::new();
    let mut n_ck = 0u64;
    for (i, f) in fs.iter().enumerate().skip(baseline) {
        if f.ty() != "continuity_compaction_checkpoint_created" {
            continue;
        }
        if manual.contains(f.s("checkpoint_id")) {
            // a manual checkpoint the workload itself placed during the phase
            continue;
        }
        n_ck += 1;
        let to_seq = f.u("to_seq").unwrap_or(u64::MAX);
        *per_cut.entry(to_seq).or_insert(0) += 1;
        let Some(jid) = owner.get(f.s("checkpoint_id")) else {
            r.violation("C09/concurrent/checkpoint_outside_job", "a checkpoint frame is listed by no job_ended", wit(json!(f.v)));
            return None;
        };
        let j = &jobs[jid];
        let inside = i > j.spawned_at && j.ended_at.map(|e| i < e).unwrap_or(false);
        let planned = stale.contains(jid) || j.planned.iter().any(|p| p.1 == to_seq && p.2 == f.s("to_message_id"));
        if !inside || !planned {
            r.violation(
                if inside { "C09/concurrent/checkpoint_not_planned" } else { "C09/concurrent/checkpoint_outside_job" },
                &format!("checkpoint to_seq {to_seq}: inside its job's bracket: {inside}, on a planned cut: {planned}"),
                wit(json!(f.v)),
            );
            return None;
        }
        let prev = last_in_job.insert(jid.clone(), to_seq);
        if prev.map(|p| p >= to_seq).unwrap_or(false) {
            r.violation("C09/concurrent/checkpoint_order", "checkpoints of one job are not in ascending to_seq order", wit(json!(f.v)));
            return None;
        }
        if let Err((kind, msg)) = check_summary(store, &thread, f.s("summary_artifact_id"), to_seq, f.s("to_message_id")) {
            r.violation(&format!("C09/concurrent/{kind}"), &msg, wit(json!(f.v)));
            return None;
        }
        stats.c("summary_artifacts_verified");
    }
    // afterwards the read side equals the truth model. A mismatch is classified by what the
    // checkpoint cache (<thread>.comp.v1.jsonl) holds compared with the log.
    let cache_lost: Vec<String> = comp_cache_lost(store, &thread, &m);
    // summaries as a function of the history (several jobs may have summarised one cut). Judged
    // before the read side so that a read-side finding cannot hide it; a lossy checkpoint cache
    // (the read-side finding below) is not blamed on the summarizer.
    let sum_seen = judge_summary_history(r, store, &fs, !cache_lost.is_empty(), stats, &wit);
    let ord_records: Option<u64> = std::fs::metadata(store.streams_dir().join(format!("{thread}.mr.msgord.v1.bin")))
        .ok()
        .map(|md| md.len().saturating_sub(32) / 24);
    let ord_lost = ord_records.map(|n| n != m.count()).unwrap_or(false);
    let after_sig = |generic: String| -> String {
        if cache_lost.is_empty() && !ord_lost {
            generic
        } else {
            SIG_CACHE_LOST.to_string()
        }
    };
    let lost_note = format!(
        "; the checkpoint cache <thread>.comp.v1.jsonl lacks {} of the {} checkpoint frames in the log; the message ordinal index holds {:?} records for {} messages",
        cache_lost.len(),
        m.ckpts.len(),
        ord_records,
        m.count()
    );
    for stride in strides {
        for http in [false, true] {
            match call_status(ctx, &thread, Some(*stride), http) {
                Ok(v) => {
                    if let Some(what) = status_mismatch(&m, *stride, &v) {
                        r.violation(
                            &after_sig(format!("C09/concurrent/status_differs_from_truth_after/{}", what.0)),
                            &format!("after the concurrent phase compaction.status {}: {}{}", what.0, what.1, lost_note),
                            wit(json!({"stride": stride, "response": v, "checkpoints_missing_in_cache": cache_lost})),
                        );
                        return None;
                    }
                }
                Err(e) => {
                    r.violation("C09/concurrent/status_failed_after", &e, wit(json!(e)));
                    return None;
                }
            }
        }
        match call_cut_points(ctx, &thread, Some(*stride), Some(32), false) {
            Ok(v) => {
                let expect = m.cut_points(*stride, 32);
                let got: Vec<(u64, bool, Option<String>)> = v
                    .get("cut_points")
                    .and_then(|x| x.as_array())
                    .map(|a| {
                        a.iter()
                            .map(|c| {
                                (
                                    c.get("to_seq").and_then(|x| x.as_u64()).unwrap_or(u64::MAX),
                                    c.get("already_checkpointed").and_then(|x| x.as_bool()).unwrap_or(false),
                                    c.get("latest_checkpoint_id").and_then(|x| x.as_str()).map(|s| s.to_string()),
                                )
                            })
                            .collect()
                    })
                    .unwrap_or_default();
                let want: Vec<(u64, bool, Option<String>)> = expect.iter().map(|c| (c.to_seq, c.already, c.latest.clone())).collect();
                if got != want {
                    r.violation(
                        &after_sig("C09/concurrent/cut_points_differ_from_truth_after".to_string()),
                        &format!("after the concurrent phase cut_points (to_seq, already_checkpointed, latest_checkpoint_id) differ from the log{lost_note}"),
                        wit(json!({"stride": stride, "response": v, "expected": want, "checkpoints_missing_in_cache": cache_lost})),
                    );
                    return None;
                }
            }
            Err(e) => {
                r.violation("C09/concurrent/cut_points_failed_after", &e, wit(json!(e)));
                return None;
            }
        }
    }
    stats.n("concurrent_checkpoint_cache_frames_compared", m.ckpts.len() as u64);
    let dup = per_cut.values().filter(|n| **n > 1).count() as u64;
    stats.n("concurrent_jobs_bracketed", jobs.values().filter(|j| j.ended_at.is_some()).count() as u64);
    stats.n("concurrent_jobs_left_pending_by_request", pending_ok.len() as u64);
    stats.n("concurrent_checkpoints_on_planned_cuts", n_ck);
    stats.n("concurrent_cuts_checkpointed_more_than_once", dup);
    stats.n("concurrent_skipped_inflight", calls.iter().filter(|(_, r)| r.as_ref().ok().and_then(|v| v.get("decision")).and_then(|x| x.as_str()) == Some("skipped_inflight")).count() as u64);
    stats.n("hook_events", events.len() as u64);
    stats.n("concurrent_jobs_executing_a_plan_other_than_job_spawned_plan", stale_plan_jobs);
    let writers: BTreeSet<u64> = events.iter().map(|e| e.thread).collect();
    if jobs.len() >= 2 && writers.len() >= 2 {
        stats.nontrivial += 1;
        r.distinct(Sched::interleaving_signature(&events));
    }
    if r.samples.len() < r.max_samples && jobs.len() >= 2 {
        let mut smp = meta.clone();
        smp["messages"] = json!(m.count());
        smp["jobs"] = json!(jobs.len());
        smp["checkpoints"] = json!(n_ck);
        smp["cuts_checkpointed_more_than_once"] = json!(dup);
        smp["same_cut_summary_pairs_equal"] = json!(sum_seen.pairs_equal);
        r.sample(smp);
    }
    Some(JobsSeen {
        jobs: jobs.len(),
        cuts_checkpointed_more_than_once: dup,
        same_cut_pairs_equal: sum_seen.pairs_equal,
    })
}


// ---------------------------------------------------------------------------------------------
// several jobs for ONE cut point: every job is spawned before the first checkpoint of the cut
// exists; some of them run after it

/// Tasks that occupy the blocking pool of a runtime until they are released by number. An HTTP
/// auto / schedule request answers right after the job-spawned frame and runs the job on the
/// blocking pool; on a runtime with ONE blocking thread that is held by blocker 0, the jobs of
/// later requests queue up — all spawned, none run — and
/// run one at a time once it is released, each after the previous one's checkpoint exists.
struct Blockers {
    /// (blockers 0..n are released, blockers that have started)
    st: std::sync::Mutex<(u64, u64)>,
    cv: std::sync::Condvar,
}

impl Blockers {
    fn new() -> Arc<Blockers> {
        Arc::new(Blockers {
            st: std::sync::Mutex::new((0, 0)),
            cv: std::sync::Condvar::new(),
        })
    }
    fn lock(&self) -> std::sync::MutexGuard<'_, (u64, u64)> {
        self.st.lock().unwrap_or_else(|e| e.into_inner())
    }
    /// the body of blocker `n`: returns when `release_to(m)` with m > n was called (or after 60 s)
    fn task(self: &Arc<Blockers>, n: u64) -> impl FnOnce() + Send + 'static {
        let b = self.clone();
        move || {
            let deadline = Instant::now() + Duration::from_secs(60);
            let mut st = b.lock();
            st.1 += 1;
            b.cv.notify_all();
            while st.0 <= n {
                let now = Instant::now();
                if now >= deadline {
                    break;
                }
                st = b.cv.wait_timeout(st, deadline - now).unwrap_or_else(|e| e.into_inner()).0;
            }
        }
    }
    fn wait_started(&self, n: u64, timeout: Duration) -> bool {
        let deadline = Instant::now() + timeout;
        let mut st = self.lock();
        while st.1 < n {
            let now = Instant::now();
            if now >= deadline {
                return false;
            }
            st = self.cv.wait_timeout(st, deadline - now).unwrap_or_else(|e| e.into_inner()).0;
        }
        true
    }
    /// release blockers 0..m
    fn release_to(&self, m: u64) {
        let mut st = self.lock();
        st.0 = st.0.max(m);
        drop(st);
        self.cv.notify_all();
    }
}

struct ReleaseOnDrop(Arc<Blockers>);
impl Drop for ReleaseOnDrop {
    fn drop(&mut self) {
        self.0.release_to(u64::MAX);
    }
}

#[derive(Clone, Debug)]
struct SameCutPlan {
    messages: usize,
    density: u64,
    stride: u64,
    /// bit 0: the cuts of a first part of the thread are auto-checkpointed, then the thread grows;
    /// bit 1: a manual checkpoint sits on some message boundary
    earlier: u8,
    max_new: u32,
    /// per job: (auto.schedule instead of auto, block_on_inflight)
    ops: Vec<(bool, bool)>,
    /// 0 = HTTP, all jobs spawned first and then run one at a time (in request order);
    /// 1 = HTTP requests back to back, jobs run in the background as they come;
    /// 2 = store API, one thread per call, started together
    mode: u8,
    /// a schedule(execute=false) call leaves a pending job for the cut before the others start
    pending_first: bool,
    /// mode 0, after the spawns and before the runs: 0 nothing, 1 messages appended, 2 manual
    /// checkpoint on the same cut, 3 manual checkpoint on an earlier message boundary
    between: u8,
    noise_us: u64,
}

impl SameCutPlan {
    fn random(cfg: &Cfg, rng: &mut Rng) -> SameCutPlan {
        let messages = 2 + rng.usize(cfg.tier.pick(30, 70));
        let stride = (*rng.pick(&[1u64, 2, 2, 3, 5, 7])).min(messages as u64);
        let k = 2 + rng.usize(3);
        let mode = *rng.pick(&[0u8, 0, 0, 1, 2]);
        SameCutPlan {
            messages,
            density: *rng.pick(&[0u64, 0, 20, 40]),
            stride,
            earlier: rng.below(4) as u8,
            max_new: *rng.pick(&[1u32, 1, 1, 2, 3]),
            ops: (0..k).map(|_| (rng.chance(1, 3), rng.chance(1, 8))).collect(),
            mode,
            pending_first: rng.chance(1, 4),
            between: *rng.pick(&[0u8, 0, 1, 2, 3]),
            noise_us: *rng.pick(&[0u64, 300, 2000]),
        }
    }
    fn describe(&self) -> Value {
        let mode = ["http_spawn_all_then_run_one_at_a_time", "http_back_to_back", "api_threads"][self.mode.min(2) as usize];
        let between = ["nothing", "messages_appended", "manual_checkpoint_same_cut", "manual_checkpoint_earlier_boundary"][self.between.min(3) as usize];
        let jobs: Vec<Value> = self.ops.iter().map(|(s, b)| json!({"op": if *s {"schedule"} else {"auto"}, "block_on_inflight": b})).collect();
        json!({"messages": self.messages, "other_frame_density_pct": self.density, "stride": self.stride, "earlier_checkpoints": self.earlier,
               "max_new": self.max_new, "jobs": jobs, "mode": mode, "pending_job_first": self.pending_first, "between_spawns_and_runs": between,
               "noise_us": self.noise_us})
    }
}

fn same_cut_run(r: &mut Report, rt: &tokio::runtime::Runtime, s: &Arc<Sched>, rng: &mut Rng, stats: &mut Stats, plan: &SameCutPlan, meta0: Value) {
    let t_start = Instant::now();
    let store = Store::new("c09s");
    let app = match App::open(&store, None) {
        Ok(a) => a,
        Err(e) => {
            r.inconclusive(&format!("same cut: cannot open engine: {e}"));
            return;
        }
    };
    let Ok(thread) = app.store().ensure_default() else {
        return;
    };
    // mode 0 needs a runtime whose blocking pool has one thread (see `Blockers`); declared before the
    // blockers' guard so that every blocker is released before the runtime is dropped
    let rt_one = if plan.mode == 0 {
        match tokio::runtime::Builder::new_multi_thread().worker_threads(2).max_blocking_threads(1).enable_all().build() {
            Ok(x) => Some(x),
            Err(e) => {
                r.inconclusive(&format!("same cut: cannot build a runtime: {e}"));
                return;
            }
        }
    } else {
        None
    };
    let blockers = Blockers::new();
    let _release = ReleaseOnDrop(blockers.clone());
    let ctx = Ctx {
        rt: rt_one.as_ref().unwrap_or(rt),
        store: &store,
        app: app.clone(),
        thread: thread.clone(),
    };
    let st = app.store();
    let mut known = Known::default();
    let stride = plan.stride.max(1);
    s.reset();
    grow(&ctx, &mut known, rng, plan.messages, "c09s", plan.density);
    if plan.earlier & 1 != 0 {
        let _ = st.compaction_auto_v1(
            &thread,
            CompactionAutoV1Request {
                stride_messages: Some(stride),
                max_new_checkpoints: Some(32),
                dry_run: Some(false),
                actor_id: "rv-setup".into(),
                origin: "rv".into(),
            },
        );
        let more = stride as usize + rng.usize(2 * stride as usize + 1);
        grow(&ctx, &mut known, rng, more, "c09s", plan.density);
    }
    let manual_ids: std::cell::RefCell<BTreeSet<String>> = std::cell::RefCell::new(BTreeSet::new());
    let manual_at = |to_seq: u64, note: &str| {
        let res = call_manual(
            &ctx,
            &thread,
            &ManualReq {
                class: "boundary_seq",
                markdown: Some(format!("manual summary ({note})")),
                artifact: None,
                to_message_id: None,
                to_seq: Some(to_seq),
                stride: None,
                http: false,
            },
        );
        if let Some(id) = res.ok().and_then(|v| v.get("checkpoint_id").and_then(|x| x.as_str()).map(|x| x.to_string())) {
            manual_ids.borrow_mut().insert(id);
        }
    };
    if plan.earlier & 2 != 0 {
        if let Ok((_, m)) = current_model(&ctx) {
            if !m.msgs.is_empty() {
                manual_at(rng.pick(&m.msgs).0, "setup");
            }
        }
    }
    let Ok((_, mut m)) = current_model(&ctx) else {
        r.inconclusive("same cut: log unreadable after the setup");
        return;
    };
    if m.plan(stride, plan.max_new as u64).is_empty() {
        grow(&ctx, &mut known, rng, stride as usize, "c09s", 0);
        match current_model(&ctx) {
            Ok((_, m2)) => m = m2,
            Err(_) => return,
        }
    }
    let planned = m.plan(stride, plan.max_new as u64);
    if planned.is_empty() {
        stats.c("same_cut_cases_without_a_plannable_cut");
        return;
    }
    let baseline = m.n_frames;
    let describe = |schedule: bool, block: bool, execute: bool, transport: &str| {
        json!({"op": if schedule {"schedule"} else {"auto"}, "stride": stride, "max_new": plan.max_new, "dry_run": false,
               "execute": execute, "block_on_inflight": block, "transport": transport})
    };
    let req = |schedule: bool, block: bool, execute: bool, http: bool| ExecReq {
        schedule,
        stride: Some(stride),
        max_new: Some(plan.max_new),
        block: Some(block),
        execute: Some(execute),
        dry_run: Some(false),
        http,
    };
    let job_of = |v: &Value| -> Option<String> {
        let state = v.get("status").or_else(|| v.get("decision")).and_then(|x| x.as_str()).unwrap_or("");
        if state == "spawned" || state == "scheduled" {
            v.get("job_id").and_then(|x| x.as_str()).map(|x| x.to_string())
        } else {
            None
        }
    };
    s.reset();
    s.record(true, &["log.append.locked"]);
    if std::env::var("RV_C09_TRACE").is_ok() {
        s.record(true, &[]);
    }
    if plan.noise_us > 0 {
        let n = plan.noise_us;
        s.set_noise(
            rng.next_u64(),
            &[
                ("cache.scan", n),
                ("artifact.tmp", n),
                ("artifact.renamed", n),
                ("log.append.enter", n / 2),
                ("cont.cache.exit", n / 2),
                ("cache.comp.written", n),
            ],
        );
    }
    let log_from = store.log_bytes_settled().len();
    let mut calls: Vec<(Value, Result<Value, String>)> = Vec::new();
    let mut panicked = false;
    if plan.pending_first {
        let http = rng.bool();
        let res = call_exec(&ctx, &thread, &req(true, false, false, http));
        calls.push((describe(true, false, false, if http { "http" } else { "api" }), res));
    }
    match plan.mode {
        0 | 1 => {
            let mut held = false;
            if let Some(rt1) = rt_one.as_ref() {
                std::mem::drop(rt1.spawn_blocking(blockers.task(0)));
                held = blockers.wait_started(1, Duration::from_secs(5));
                if !held {
                    blockers.release_to(u64::MAX);
                    stats.c("same_cut_blocker_did_not_start");
                }
            }
            let mut job_ids: Vec<String> = Vec::new();
            for (schedule, block) in &plan.ops {
                let res = call_exec(&ctx, &thread, &req(*schedule, *block, true, true));
                let job = res.as_ref().ok().and_then(&job_of);
                calls.push((describe(*schedule, *block, true, "http"), res));
                if let Some(job) = job {
                    job_ids.push(job);
                }
            }
            if held {
                // every job is spawned; none can have run
                let ran = truth::parse_log(&store.log_bytes_settled())
                    .map(|f| truth::stream(&f, "continuity", &thread).iter().skip(baseline).any(|f| matches!(f.ty(), "continuity_compaction_checkpoint_created" | "continuity_job_ended")))
                    .unwrap_or(true);
                if ran {
                    r.inconclusive("same cut: a job ran although the blocking pool was held");
                    return;
                }
                // somebody else acts after the spawns and before the runs
                match plan.between {
                    1 => {
                        for k in 0..1 + rng.usize(3) {
                            let (actor, content) = rich_message(rng, 20_000 + k as u64);
                            let _ = st.append_message(&thread, actor, "rv".into(), content);
                        }
                    }
                    2 => manual_at(rng.pick(&planned).to_seq, "same cut, after the spawns and before the runs"),
                    3 => {
                        let low = planned.iter().map(|c| c.to_seq).min().unwrap_or(0);
                        let earlier: Vec<u64> = m.msgs.iter().map(|x| x.0).filter(|q| *q < low).collect();
                        if !earlier.is_empty() {
                            manual_at(*rng.pick(&earlier), "earlier boundary, after the spawns and before the runs");
                        }
                    }
                    _ => {}
                }
                // the pool's one thread now runs the queued jobs one after the other
                blockers.release_to(u64::MAX);
                for job in &job_ids {
                    if !wait_job_end(&ctx, log_from, job) {
                        r.inconclusive("same cut: a released summarizer job did not end within 10 s");
                        return;
                    }
                }
                if job_ids.len() >= 2 {
                    stats.c("same_cut_cases_all_jobs_spawned_before_any_ran");
                }
            }
            blockers.release_to(u64::MAX);
            for j in &job_ids {
                if !wait_job_end(&ctx, log_from, j) {
                    r.inconclusive("same cut: an HTTP-started summarizer job did not end within 10 s");
                    return;
                }
            }
        }
        _ => {
            let barrier = Arc::new(std::sync::Barrier::new(plan.ops.len()));
            let mut handles = Vec::new();
            for (t, (schedule, block)) in plan.ops.iter().cloned().enumerate() {
                let app = app.clone();
                let thread = thread.clone();
                let barrier = barrier.clone();
                let max_new = plan.max_new;
                let d = describe(schedule, block, true, "api");
                handles.push(std::thread::spawn(move || {
                    let st = app.store();
                    barrier.wait();
                    let res = if schedule {
                        st.compaction_auto_schedule_v1(
                            &thread,
                            CompactionAutoScheduleV1Request {
                                stride_messages: Some(stride),
                                max_new_checkpoints: Some(max_new),
                                block_on_inflight: Some(block),
                                execute: Some(true),
                                dry_run: Some(false),
                                actor_id: format!("rv-t{t}"),
                                origin: "rv".into(),
                            },
                        )
                        .map(|x| serde_json::to_value(x).unwrap_or(Value::Null))
                    } else {
                        st.compaction_auto_v1(
                            &thread,
                            CompactionAutoV1Request {
                                stride_messages: Some(stride),
                                max_new_checkpoints: Some(max_new),
                                dry_run: Some(false),
                                actor_id: format!("rv-t{t}"),
                                origin: "rv".into(),
                            },
                        )
                        .map(|x| serde_json::to_value(x).unwrap_or(Value::Null))
                    };
                    (d, res)
                }));
            }
            for h in handles {
                match h.join() {
                    Ok(v) => calls.push(v),
                    Err(_) => panicked = true,
                }
            }
        }
    }
    let events = s.take_events();
    s.reset();
    if std::env::var("RV_C09_TRACE").is_ok() {
        eprintln!("same_cut {} workload took {:.3}s", plan.describe(), t_start.elapsed().as_secs_f64());
        for e in &events {
            eprintln!("  ev t{} {} {}", e.thread, e.point, e.ctx.chars().take(50).collect::<String>());
        }
    }
    let mut meta = meta0;
    meta["plan"] = plan.describe();
    meta["messages_before_the_jobs"] = json!(m.count());
    meta["checkpoints_before_the_jobs"] = json!(m.ckpts.len());
    meta["planned_cuts"] = planned_json(&planned);
    stats.c("same_cut_cases");
    stats.n("same_cut_calls", calls.len() as u64);
    let manual_set: BTreeSet<String> = manual_ids.borrow().clone();
    if let Some(seen) = judge_jobs(r, &ctx, stats, &calls, panicked, baseline, &[stride], &events, &manual_set, &meta) {
        stats.n("same_cut_jobs", seen.jobs as u64);
        stats.n("same_cut_cuts_checkpointed_more_than_once", seen.cuts_checkpointed_more_than_once);
        stats.n("same_cut_cases_summary_pairs_text_equal", seen.same_cut_pairs_equal);
        if seen.cuts_checkpointed_more_than_once > 0 {
            stats.nontrivial += 1;
            stats.c("same_cut_cases_with_a_cut_checkpointed_more_than_once");
            r.distinct_str(&format!(
                "samecut|{}|{}|{}|{}|{}|{}|{}",
                plan.mode,
                plan.earlier,
                plan.ops.len(),
                plan.max_new,
                plan.between,
                plan.pending_first,
                m.ckpts.len().min(3)
            ));
        }
        // repeated afterwards: the same request once more, then requests that can have nothing to do
        // (stride beyond the thread) — those append nothing, also while a job of the cut is pending
        let count = current_model(&ctx).map(|(_, m)| m.count()).unwrap_or(0);
        let mut beyond_sched = req(true, true, true, false);
        beyond_sched.stride = Some(count + 1);
        let mut beyond_auto = req(false, true, true, rng.bool());
        beyond_auto.stride = Some(count + 1);
        for (k, q) in [req(true, true, true, false), beyond_sched, beyond_auto].iter().enumerate() {
            let mut w = meta.clone();
            w["repeat_after_the_jobs"] = json!(k);
            match run_exec(r, &ctx, stats, q, &w) {
                Some(seen) if seen.ok => {
                    if seen.planned_empty {
                        stats.c("same_cut_repeats_with_nothing_to_do_zero_bytes");
                    }
                }
                _ => break,
            }
        }
    }
}

fn same_cut_case(cfg: &Cfg, r: &mut Report, rt: &tokio::runtime::Runtime, s: &Arc<Sched>, rng: &mut Rng, idx: u64, stats: &mut Stats) {
    let plan = SameCutPlan::random(cfg, rng);
    same_cut_run(r, rt, s, rng, stats, &plan, json!({"case": idx, "mode": "same_cut"}));
}

/// Directed: two (three) auto requests over HTTP for one cut, every job spawned before any of them
/// runs, then run one after the other — on a thread without / with earlier checkpoints.
fn directed_same_cut(r: &mut Report, rt: &tokio::runtime::Runtime, s: &Arc<Sched>, stats: &mut Stats, only: Option<u64>) {
    let variants: [(usize, u64, u8, u32, usize, u8); 4] = [
        // messages, stride, earlier, max_new, jobs, between
        (3, 2, 0, 1, 2, 0),
        (7, 3, 1, 1, 2, 0),
        (9, 2, 2, 2, 3, 1),
        (6, 3, 0, 1, 2, 2),
    ];
    // the last variant also leaves a pending (execute=false) job for the cut before the others start
    for (v, (messages, stride, earlier, max_new, jobs, between)) in variants.iter().cloned().enumerate() {
        if only.map(|o| o != v as u64).unwrap_or(false) {
            continue;
        }
        let plan = SameCutPlan {
            messages,
            density: 0,
            stride,
            earlier,
            max_new,
            ops: vec![(false, false); jobs],
            mode: 0,
            pending_first: v == 3,
            between,
            noise_us: 0,
        };
        let mut rng = Rng::derive(0xC09, v as u64);
        same_cut_run(r, rt, s, &mut rng, stats, &plan, json!({"directed": "same_cut", "variant": v}));
        stats.c("directed_cases");
    }
}

// ---------------------------------------------------------------------------------------------
// directed: auto.schedule plans twice (decision plan, then job_spawned plan) and executes the first

fn directed_schedule_plans_twice(r: &mut Report, rt: &tokio::runtime::Runtime, s: &Arc<Sched>, stats: &mut Stats) {
    use std::sync::atomic::{AtomicBool, AtomicU64, Ordering};
    let store = Store::new("c09d");
    let Ok(app) = App::open(&store, None) else {
        r.inconclusive("directed: cannot open engine");
        return;
    };
    let st = app.store();
    let Ok(thread) = st.ensure_default() else {
        return;
    };
    for k in 0..6 {
        let _ = st.append_message(&thread, "alice".into(), "rv".into(), format!("directed message {k}"));
    }
    let ctx = Ctx {
        rt,
        store: &store,
        app: app.clone(),
        thread: thread.clone(),
    };
    let req = |dry: bool| CompactionAutoScheduleV1Request {
        stride_messages: Some(2),
        max_new_checkpoints: Some(1),
        block_on_inflight: Some(false),
        execute: Some(true),
        dry_run: Some(dry),
        actor_id: "rv-actor".into(),
        origin: "rv-origin".into(),
    };
    s.reset();
    let me = crate::sched::thread_no();
    // how many scan ticks does the first planning pass take? (a dry run is exactly that pass)
    let ticks = Arc::new(AtomicU64::new(0));
    {
        let ticks = ticks.clone();
        s.set_custom(Some(Arc::new(move |p, _| {
            if p == "cache.scan" && crate::sched::thread_no() == me {
                ticks.fetch_add(1, Ordering::SeqCst);
            }
        })));
    }
    let _ = st.compaction_auto_schedule_v1(&thread, req(true));
    let n_a = ticks.load(Ordering::SeqCst);
    let Ok((before, m)) = current_model(&ctx) else {
        return;
    };
    let Some(latest) = m.plan(2, 1).first().cloned() else {
        return;
    };
    if n_a == 0 {
        s.set_custom(None);
        r.inconclusive("directed schedule_plans_twice: the planning pass hit no cache.scan point; cannot place the interleaved checkpoint");
        return;
    }
    // between the two planning passes somebody else checkpoints the latest cut
    ticks.store(0, Ordering::SeqCst);
    let fired = Arc::new(AtomicBool::new(false));
    {
        let ticks = ticks.clone();
        let fired = fired.clone();
        let st2 = st.clone();
        let thread2 = thread.clone();
        let to_seq = latest.to_seq;
        s.set_custom(Some(Arc::new(move |p, _| {
            if p == "cache.scan" && crate::sched::thread_no() == me {
                let n = ticks.fetch_add(1, Ordering::SeqCst) + 1;
                if n == n_a + 1 && !fired.swap(true, Ordering::SeqCst) {
                    let _ = st2.compaction_checkpoint_cumulative_v1(
                        &thread2,
                        CompactionCheckpointCumulativeV1Request {
                            summary_markdown: Some("checkpoint by somebody else".into()),
                            summary_artifact_id: None,
                            to_message_id: None,
                            to_seq: Some(to_seq),
                            stride_messages: None,
                            actor_id: "rv-other".into(),
                            origin: "rv".into(),
                        },
                    );
                }
            }
        })));
    }
    let res = st.compaction_auto_schedule_v1(&thread, req(false));
    s.set_custom(None);
    s.reset();
    r.eval();
    stats.c("directed_cases");
    if !fired.load(Ordering::SeqCst) {
        r.inconclusive("directed schedule_plans_twice: the interleaved checkpoint was never placed");
        return;
    }
    let after = store.log_bytes_settled();
    let added = truth::parse_log(&after[before.len().min(after.len())..]).unwrap_or_default();
    let spawned = added.iter().find(|f| f.ty() == "continuity_job_spawned");
    let ended = added.iter().find(|f| f.ty() == "continuity_job_ended");
    let decided = added.iter().find(|f| f.ty() == "continuity_compaction_auto_schedule_decided");
    let (Some(sp), Some(en)) = (spawned, ended) else {
        // the scheduler saw nothing to do on its second pass: fine
        stats.c("directed_schedule_second_pass_noop");
        return;
    };
    let mut sp_plan: Vec<(u64, String)> = planned_triples(sp.v.pointer("/details/planned")).into_iter().map(|t| (t.1, t.2)).collect();
    sp_plan.sort();
    let created: Vec<(u64, String)> = en
        .v
        .pointer("/result/created")
        .and_then(|x| x.as_array())
        .map(|a| {
            a.iter()
                .map(|c| (c.get("to_seq").and_then(|x| x.as_u64()).unwrap_or(u64::MAX), c.get("to_message_id").and_then(|x| x.as_str()).unwrap_or("").to_string()))
                .collect()
        })
        .unwrap_or_default();
    if sp_plan != created {
        r.violation(
            SIG_STALE_PLAN,
            &format!(
                "a checkpoint for the latest cut (seq {}) landed between the scheduler's two planning passes: job_spawned.details.planned = {:?}, decision frame planned = {:?}, executed (job_ended.result.created) = {:?}",
                latest.to_seq,
                sp_plan,
                decided.map(|d| planned_triples(d.v.get("planned"))),
                created
            ),
            json!({"directed": "schedule_plans_twice", "response": res.ok().map(|x| serde_json::to_value(x).unwrap_or(Value::Null)),
                   "added": added.iter().map(|f| f.v.clone()).collect::<Vec<_>>()}),
        );
    } else {
        stats.c("directed_schedule_job_plan_equals_executed");
    }
}

// ---------------------------------------------------------------------------------------------
// summary artifact faults between compaction rounds: the blob of an earlier checkpoint's summary is
// lost / damaged / a legacy metadata-only placeholder when the next round wants it as its base

const FAULT_TARGETS: &[&str] = &["latest_checkpoint", "older_checkpoint", "all_checkpoints", "manual_checkpoint", "none"];
const FAULT_KINDS: &[&str] = &["deleted", "truncated_to_zero", "truncated_half", "garbage", "replaced_by_directory", "json_of_another_schema", "legacy_placeholder_text"];

#[derive(Clone, Debug)]
struct FaultStep {
    /// index into FAULT_TARGETS / FAULT_KINDS
    target: usize,
    kind: usize,
    /// messages appended after the fault, in strides (at least one new cut)
    grow_strides: usize,
    extra: usize,
    schedule: bool,
    http: bool,
    max_new: u32,
    /// the round after the fault uses this stride (None: the thread's stride)
    stride: Option<u64>,
    restart: bool,
    forks: bool,
}

#[derive(Clone, Debug)]
struct FaultPlan {
    messages: usize,
    density: u64,
    stride: u64,
    first_max_new: u32,
    /// manual checkpoint before the first round: 0 none, 1 ordinary text, 2 text that is a legacy
    /// metadata-only placeholder (ADR-0014: such a base is not usable, the summarizer bootstraps)
    manual: u8,
    steps: Vec<FaultStep>,
}

impl FaultPlan {
    fn random(cfg: &Cfg, rng: &mut Rng) -> FaultPlan {
        let stride = *rng.pick(&[1u64, 2, 2, 3, 5]);
        let messages = stride as usize + rng.usize(cfg.tier.pick(24, 60));
        let n = 1 + rng.usize(3);
        FaultPlan {
            messages,
            density: *rng.pick(&[0u64, 0, 20, 40]),
            stride,
            first_max_new: *rng.pick(&[1u32, 2, 32]),
            manual: *rng.pick(&[0u8, 0, 1, 2]),
            steps: (0..n)
                .map(|_| FaultStep {
                    target: *rng.pick(&[0usize, 0, 0, 1, 2, 2, 3, 3, 4]),
                    kind: rng.usize(FAULT_KINDS.len()),
                    grow_strides: 1 + rng.usize(3),
                    extra: rng.usize(stride as usize),
                    schedule: rng.chance(1, 3),
                    http: rng.chance(1, 3),
                    max_new: *rng.pick(&[1u32, 1, 2, 3, 32]),
                    stride: if rng.chance(1, 5) { Some(*rng.pick(&[1u64, 2, 3])) } else { None },
                    restart: rng.chance(1, 4),
                    forks: rng.chance(1, 4),
                })
                .collect(),
        }
    }
    fn describe(&self) -> Value {
        let steps: Vec<Value> = self
            .steps
            .iter()
            .map(|s| {
                json!({"fault_target": FAULT_TARGETS[s.target.min(4)], "fault": FAULT_KINDS[s.kind.min(6)], "then_messages": format!("{}*stride+{}", s.grow_strides, s.extra),
                       "then": {"op": if s.schedule {"schedule"} else {"auto"}, "transport": if s.http {"http"} else {"api"}, "max_new": s.max_new, "stride": s.stride},
                       "restart_before": s.restart, "fork_pair_before": s.forks})
            })
            .collect();
        let manual = ["none", "ordinary_text", "legacy_placeholder_text"][self.manual.min(2) as usize];
        json!({"messages": self.messages, "other_frame_density_pct": self.density, "stride": self.stride, "first_round_max_new": self.first_max_new,
               "manual_checkpoint_first": manual, "steps": steps})
    }
}

/// What the compat (pre v0.2) summarizer wrote: the metadata header only.
fn legacy_placeholder_text(stride: u64, ordinal: u64, to_seq: u64, to_message_id: &str) -> String {
    format!(
        "# Compaction summary (auto)\n\n- kind: cumulative_v1\n- cut_rule_id: stride_messages_v1/{stride}\n- stride_messages: {stride}\n- target_message_ordinal: {ordinal}\n- to_seq: {to_seq}\n- to_message_id: {to_message_id}\n"
    )
}

fn viol_total(r: &Report) -> u64 {
    r.violations.iter().map(|v| v.count).sum()
}

/// Damage one summary blob. false = nothing was changed.
fn damage_blob(store: &Store, art: &str, kind: usize, rng: &mut Rng) -> bool {
    if art.is_empty() || art.contains('/') || art.contains("..") {
        return false;
    }
    let path = store.ws.join(".rip").join("artifacts").join("blobs").join(art);
    let Ok(meta) = std::fs::symlink_metadata(&path) else {
        return false;
    };
    if !meta.is_file() {
        return false;
    }
    let bytes = std::fs::read(&path).unwrap_or_default();
    match kind {
        0 => std::fs::remove_file(&path).is_ok(),
        1 => std::fs::write(&path, b"").is_ok(),
        2 => std::fs::write(&path, &bytes[..bytes.len() / 2]).is_ok(),
        3 => {
            let n = 1 + rng.usize(300);
            std::fs::write(&path, rng.bytes(n)).is_ok()
        }
        4 => std::fs::remove_file(&path).is_ok() && std::fs::create_dir(&path).is_ok(),
        5 => std::fs::write(&path, br#"{"schema":"rv.something_else.v1","kind":"cumulative_v1","summary_markdown":"x"}"#).is_ok(),
        _ => {
            // the same artifact with the text of a compat placeholder
            let Ok(mut v) = serde_json::from_slice::<Value>(&bytes) else {
                return std::fs::remove_file(&path).is_ok();
            };
            let to_seq = v.pointer("/coverage/to_seq").and_then(|x| x.as_u64()).unwrap_or(0);
            let mid = v.pointer("/coverage/to_message_id").and_then(|x| x.as_str()).unwrap_or("").to_string();
            v["summary_markdown"] = json!(legacy_placeholder_text(2, 2, to_seq, &mid));
            std::fs::write(&path, serde_json::to_vec(&v).unwrap_or_default()).is_ok()
        }
    }
}

fn summary_fault_run(r: &mut Report, rt: &tokio::runtime::Runtime, rng: &mut Rng, stats: &mut Stats, plan: &FaultPlan, meta0: Value) {
    let store = Store::new("c09a");
    let app = match App::open(&store, None) {
        Ok(a) => a,
        Err(e) => {
            r.inconclusive(&format!("summary fault: cannot open engine: {e}"));
            return;
        }
    };
    let Ok(thread) = app.store().ensure_default() else {
        r.inconclusive("summary fault: ensure_default failed");
        return;
    };
    let mut ctx = Ctx {
        rt,
        store: &store,
        app,
        thread,
    };
    let mut meta = meta0;
    meta["plan"] = plan.describe();
    let mut known = Known::default();
    let stride = plan.stride.max(1);
    grow(&ctx, &mut known, rng, plan.messages, "c09a", plan.density);
    // artifacts the harness damaged (never judged as summaries again) and manual checkpoints placed
    let mut tampered: BTreeSet<String> = BTreeSet::new();
    let mut manual_arts: Vec<String> = Vec::new();
    let place_manual = |ctx: &Ctx, rng: &mut Rng, legacy: bool, upper_half: bool| -> Option<String> {
        let (_, m) = current_model(ctx).ok()?;
        if m.msgs.is_empty() {
            return None;
        }
        let lo = if upper_half { m.msgs.len() / 2 } else { 0 };
        let k = lo + rng.usize(m.msgs.len() - lo);
        let (sq, id) = m.msgs[k].clone();
        let text = if legacy { legacy_placeholder_text(stride, k as u64 + 1, sq, &id) } else { format!("manual summary of the first {} messages", k + 1) };
        let v = call_manual(
            ctx,
            &ctx.thread,
            &ManualReq {
                class: "boundary_seq",
                markdown: Some(text),
                artifact: None,
                to_message_id: None,
                to_seq: Some(sq),
                stride: None,
                http: rng.bool(),
            },
        )
        .ok()?;
        v.get("summary_artifact_id").and_then(|x| x.as_str()).map(|x| x.to_string())
    };
    if plan.manual > 0 {
        if let Some(a) = place_manual(&ctx, rng, plan.manual == 2, false) {
            manual_arts.push(a);
            stats.c(if plan.manual == 2 { "summary_fault_manual_checkpoints_with_legacy_placeholder_text" } else { "summary_fault_manual_checkpoints" });
        }
    }
    // judge every auto summary in the log (those whose blob the harness damaged excepted)
    let judge = |r: &mut Report, stats: &mut Stats, tampered: &BTreeSet<String>, thread: &str, meta: &Value| -> bool {
        let Ok(frames) = truth::parse_log(&store.log_bytes_settled()) else {
            r.inconclusive("summary fault: log unreadable");
            return false;
        };
        let Some(m) = model_of(&frames, thread) else {
            return false;
        };
        let fs = truth::stream(&frames, "continuity", thread);
        let lossy = !comp_cache_lost(&store, thread, &m).is_empty();
        let wit = |d: Value| {
            let mut w = meta.clone();
            w["detail"] = d;
            w
        };
        let before = viol_total(r);
        judge_summary_history_except(r, &store, &fs, lossy, stats, &wit, tampered);
        viol_total(r) == before
    };
    let exec_round = |r: &mut Report, ctx: &Ctx, stats: &mut Stats, rng: &mut Rng, q: &mut ExecReq, known: &mut Known, meta: &Value, round: usize| -> Option<ExecSeen> {
        // make sure the round has a cut to checkpoint
        let s = q.stride.unwrap_or(1).max(1);
        let plannable = current_model(ctx).map(|(_, m)| !m.plan(s, clamp_u32(q.max_new)).is_empty()).unwrap_or(false);
        if !plannable {
            grow(ctx, known, rng, s as usize, "c09a", 0);
        }
        let mut w = meta.clone();
        w["round"] = json!(round);
        run_exec(r, ctx, stats, q, &w)
    };
    let mut q0 = ExecReq {
        schedule: false,
        stride: Some(stride),
        max_new: Some(plan.first_max_new),
        block: Some(false),
        execute: Some(true),
        dry_run: Some(false),
        http: false,
    };
    let Some(first) = exec_round(r, &ctx, stats, rng, &mut q0, &mut known, &meta, 0) else {
        return;
    };
    if !first.executed || !judge(r, stats, &tampered, &ctx.thread, &meta) {
        return;
    }
    for (k, step) in plan.steps.iter().enumerate() {
        let Ok((_, m)) = current_model(&ctx) else {
            return;
        };
        // the fault
        let latest = m.latest_checkpoint().map(|c| c.art.clone());
        let mut victims: Vec<String> = Vec::new();
        match step.target {
            0 => victims.extend(latest.clone()),
            1 => {
                let older: Vec<&Ck> = m.ckpts.iter().filter(|c| Some(&c.art) != latest.as_ref()).collect();
                if older.is_empty() {
                    victims.extend(latest.clone());
                } else {
                    victims.push(rng.pick(&older).art.clone());
                }
            }
            2 => victims.extend(m.ckpts.iter().map(|c| c.art.clone())),
            3 => {
                // a manual checkpoint of the upper half of the thread: the next round's base unless
                // an auto checkpoint covers more
                if manual_arts.is_empty() || rng.bool() {
                    if let Some(a) = place_manual(&ctx, rng, false, true) {
                        manual_arts.push(a);
                        stats.c("summary_fault_manual_checkpoints");
                    }
                }
                victims.extend(manual_arts.last().cloned());
            }
            _ => {}
        }
        victims.sort();
        victims.dedup();
        let mut hit = 0u64;
        for v in &victims {
            if damage_blob(&store, v, step.kind, rng) {
                tampered.insert(v.clone());
                hit += 1;
            }
        }
        stats.n("summary_blobs_damaged_between_rounds", hit);
        stats.c(&format!("summary_fault_steps/{}/{}", FAULT_TARGETS[step.target.min(4)], if hit > 0 { FAULT_KINDS[step.kind.min(6)] } else { "no_blob_hit" }));
        // the thread goes on
        grow(&ctx, &mut known, rng, step.grow_strides * stride as usize + step.extra, "c09a", plan.density);
        if step.restart {
            let thread = ctx.thread.clone();
            drop(ctx);
            stats.c("restarts");
            let app = match App::open(&store, None) {
                Ok(a) => a,
                Err(e) => {
                    r.inconclusive(&format!("summary fault: reopen failed: {e}"));
                    return;
                }
            };
            ctx = Ctx {
                rt,
                store: &store,
                app,
                thread,
            };
        }
        let mut w = meta.clone();
        w["after_fault_step"] = json!(k);
        // the read side does not depend on the blobs
        probe_status(r, &ctx, stats, rng, &w);
        probe_cut_points(r, &ctx, stats, rng, &w);
        if step.forks {
            probe_determinism(r, &ctx, stats, rng, &w);
        }
        // which base will the round meet? (the checkpoint with the greatest to_seq below the cut)
        let mut q = ExecReq {
            schedule: step.schedule,
            stride: Some(step.stride.unwrap_or(stride)),
            max_new: Some(step.max_new),
            block: Some(false),
            execute: Some(true),
            dry_run: Some(false),
            http: step.http,
        };
        let Some(seen) = exec_round(r, &ctx, stats, rng, &mut q, &mut known, &meta, k + 1) else {
            return;
        };
        if !seen.executed {
            stats.c("summary_fault_rounds_without_work");
            continue;
        }
        // every summary written after the fault is readable and covers its cut (run_exec), names a
        // base of an earlier cut and reports the window it read (all of 0..to_seq when it says that it
        // bootstrapped from truth)
        let mut unusable_base = 0u64;
        for c in &seen.created {
            if let Some(info) = sum_info(&store, &c.1) {
                let boot = info.note.as_deref().map(|n| n.starts_with("bootstrap_from_truth")).unwrap_or(false);
                let base_damaged = info.base.as_ref().map(|b| tampered.contains(b)).unwrap_or(false);
                if boot {
                    unusable_base += 1;
                }
                r.distinct_str(&format!(
                    "fault|{}|{}|{}|{}|{}|boot={boot}|base_damaged={base_damaged}",
                    FAULT_TARGETS[step.target.min(4)],
                    FAULT_KINDS[step.kind.min(6)],
                    q.op(),
                    q.http,
                    seen.created.len().min(3)
                ));
            }
        }
        stats.n("summaries_created_after_a_fault", seen.created.len() as u64);
        stats.n("summaries_created_after_a_fault_over_an_unusable_base", unusable_base);
        if unusable_base > 0 {
            stats.nontrivial += 1;
        }
        if !judge(r, stats, &tampered, &ctx.thread, &meta) {
            return;
        }
        // repeated with nothing new: appends nothing (also with the damaged blobs around)
        match run_exec(r, &ctx, stats, &q, &w) {
            Some(s) if s.ok && s.planned_empty => stats.c("immediate_repeats_noop_zero_bytes"),
            Some(s) if s.ok => {
                if !judge(r, stats, &tampered, &ctx.thread, &meta) {
                    return;
                }
            }
            _ => return,
        }
    }
    stats.c("summary_fault_cases");
}

fn summary_fault_case(cfg: &Cfg, r: &mut Report, rt: &tokio::runtime::Runtime, rng: &mut Rng, idx: u64, stats: &mut Stats) {
    let plan = FaultPlan::random(cfg, rng);
    summary_fault_run(r, rt, rng, stats, &plan, json!({"case": idx, "mode": "summary_fault"}));
}

/// Directed: the base of the second round is lost / a legacy placeholder / garbage.
fn directed_summary_fault(r: &mut Report, rt: &tokio::runtime::Runtime, stats: &mut Stats, only: Option<u64>) {
    // messages, stride, first max_new, manual, (target, kind, schedule, http, max_new)
    let variants: [(usize, u64, u32, u8, (usize, usize, bool, bool, u32)); 4] = [
        (2, 2, 1, 0, (0, 0, false, false, 1)),
        (7, 3, 32, 0, (2, 3, true, true, 1)),
        (5, 2, 1, 2, (4, 0, false, true, 1)),
        (6, 2, 32, 0, (3, 4, false, false, 32)),
    ];
    for (v, (messages, stride, first_max_new, manual, (target, kind, schedule, http, max_new))) in variants.iter().cloned().enumerate() {
        if only.map(|o| o != v as u64).unwrap_or(false) {
            continue;
        }
        let plan = FaultPlan {
            messages,
            density: 0,
            stride,
            first_max_new,
            manual,
            steps: vec![FaultStep {
                target,
                kind,
                grow_strides: 1,
                extra: 0,
                schedule,
                http,
                max_new,
                stride: None,
                restart: v == 1,
                forks: v == 0,
            }],
        };
        let mut rng = Rng::derive(0xC09A, v as u64);
        summary_fault_run(r, rt, &mut rng, stats, &plan, json!({"directed": "summary_fault", "variant": v}));
        stats.c("directed_cases");
    }
}

// ---------------------------------------------------------------------------------------------


pub fn run(cfg: &Cfg) -> i32 {
    let mut r = Report::new(
        "C09",
        "exploration",
        "seeded thread histories (0..200 messages, 0-60 % other frame kinds, manual checkpoints, pending jobs, restarts) probed with cut_points / status / auto / auto.schedule / manual-checkpoint calls over \
         stride {default,0,1,2,3,5,7,16,10000,count,count+1,count/2,count/33,u64::MAX} x limit {default,0,1,2,3,32,33,u32::MAX} x \
         max_new {default,0,1,2,3,32,40,u32::MAX} x block_on_inflight x execute x dry_run x transport {store API, HTTP}; every \
         answer and every appended byte is compared with a truth model computed from the raw log; plus 2-8 threads \
         calling auto/schedule concurrently under seeded noise; plus 2-4 jobs for ONE cut point (directed + seeded: HTTP with all \
         jobs spawned before any runs and then released one at a time in a seeded order, HTTP back to back, API threads started \
         together; thread with/without earlier auto/manual checkpoints, pending job first, messages / manual checkpoints placed \
         between two runs); in every log each auto summary's base (strictly earlier cut), delta window and, for summaries of one \
         cut with the same earlier checkpoints visible, text equality are judged. non-trivial = a call that returned cut points, \
         executed a job, accepted a manual checkpoint, compared fork texts, >=2 concurrent jobs, or a cut checkpointed more than \
         once; distinct = parameter/outcome shape (sequential, same-cut) or hook-point interleaving signature (concurrent)",
    );
    r.assume("hook points do not change behaviour beyond timing");
    r.assume("inflight detection is judged only when the newest un-ended job lies within the last 400 frames / 400 KiB of the thread (documented best-effort window is 512 frames / 512 KiB)");
    r.assume("threads stay below 10 000 frames (compaction.status does not terminate beyond that: C04 finding, not judged here)");
    r.assume("two summaries of one cut are compared only when no checkpoint frame of an earlier cut lies between the earlier job's spawn frame and the later checkpoint frame (otherwise the jobs may legitimately have seen different bases); when the derived checkpoint cache is found lossy afterwards (known read-side finding) a missing / different base is not blamed on the summarizer");
    let s = sched();
    let rt = runtime(4);
    let mut stats = Stats::default();

    if let Some(path) = &cfg.replay {
        let doc: Value = std::fs::read(path).ok().and_then(|b| serde_json::from_slice(&b).ok()).unwrap_or(Value::Null);
        let seed = doc.get("seed").and_then(|x| x.as_u64()).unwrap_or(cfg.seed);
        let w = doc.get("witness").cloned().unwrap_or(Value::Null);
        let case = w.get("case").or_else(|| w.pointer("/at/case")).and_then(|x| x.as_u64());
        if let Some(d) = w.get("directed") {
            if d.as_str() == Some("same_cut") {
                directed_same_cut(&mut r, &rt, &s, &mut stats, w.get("variant").and_then(|x| x.as_u64()));
            } else if d.as_str() == Some("summary_fault") {
                directed_summary_fault(&mut r, &rt, &mut stats, w.get("variant").and_then(|x| x.as_u64()));
            } else {
                directed_schedule_plans_twice(&mut r, &rt, &s, &mut stats);
            }
            stats.flush(&mut r);
            return r.finish(cfg);
        }
        match case {
            Some(idx) => one_case(cfg, &mut r, &rt, &s, seed, idx, &mut stats),
            None => r.fatal_inconclusive("replay file has no witness.case"),
        }
        stats.flush(&mut r);
        return r.finish(cfg);
    }

    directed_schedule_plans_twice(&mut r, &rt, &s, &mut stats);
    directed_same_cut(&mut r, &rt, &s, &mut stats, None);
    s.reset();
    directed_summary_fault(&mut r, &rt, &mut stats, None);
    let max_cases = cfg.tier.pick(360u64, 1_000_000u64);
    let mut case = 0u64;
    while case < max_cases && !r.over(cfg) {
        let idx = case;
        case += 1;
        if !cfg.mine(idx) {
            continue;
        }
        one_case(cfg, &mut r, &rt, &s, cfg.seed, idx, &mut stats);
    }
    s.reset();
    stats.flush(&mut r);
    if stats.nontrivial == 0 {
        r.fatal_inconclusive("no call reached a cut point, a job execution or a checkpoint");
    }
    drop(rt);
    r.finish(cfg)
}

fn one_case(cfg: &Cfg, r: &mut Report, rt: &tokio::runtime::Runtime, s: &Arc<Sched>, seed: u64, idx: u64, stats: &mut Stats) {
    let mut rng = Rng::derive(seed, idx);
    let t0 = Instant::now();
    let kind = if idx % 4 == 3 {
        concurrent_case(cfg, r, rt, s, &mut rng, idx, stats, false);
        "concurrent"
    } else if idx % 8 == 5 {
        same_cut_case(cfg, r, rt, s, &mut rng, idx, stats);
        "same_cut"
    } else {
        s.reset();
        sequential_case(cfg, r, rt, &mut rng, idx, stats);
        "sequential"
    };
    stats.n(&format!("wall_ms_in_{kind}_cases"), t0.elapsed().as_millis() as u64);
    // in addition (own random stream, the cases above are unchanged): summary artifact faults
    // between compaction rounds
    if idx % 8 == 1 && !r.over(cfg) {
        let t1 = Instant::now();
        s.reset();
        let mut frng = Rng::derive(seed ^ 0xA27F_AC75, idx);
        summary_fault_case(cfg, r, rt, &mut frng, idx, stats);
        stats.n("wall_ms_in_summary_fault_cases", t1.elapsed().as_millis() as u64);
    }
}
