//! C10 — branch and handoff record correct lineage and never touch the parent.
//!
//! Random parent histories (no messages at all, one message, runs in flight, messages answered by
//! several runs, long mixes, children used as parents) × selector ∈ {none, seq 0 / mid / head /
//! head+1 / u64::MAX, known / unknown / non-message / other-thread / malformed id, both} × summary
//! ∈ {text, existing artifact id, non-existent id, neither, both} through the public
//! `ContinuityStore` API and through the real HTTP routes. The oracle is a byte diff of
//! `events.jsonl` around every call, parsed independently (`truth.rs`), judged against the cut
//! rule of ADR-0009 re-implemented here from the raw frames.
//!
//! A second workload class runs the same calls WHILE 1..3 appender threads extend the source thread
//! (messages, run frames, side effects, cursors, checkpoints; seeded delays at the `log.append.*` /
//! `cont.cache.*` hook points). Those calls are judged on the FINAL parent log with a window instead
//! of a byte diff: the recorded cut must lie between the head the parent certainly had when the call
//! started and the head found in events.jsonl after it returned, and the recorded message must be
//! what the cut rule above gives on the parent log PREFIX up to the recorded cut.

use crate::fixture::{runtime, App, Store};
use crate::gen_hist::{exec, pick_kind, Known, OpKind};
use crate::prng::Rng;
use crate::report::{Cfg, Report};
use crate::sched::sched;
use crate::truth::{self, Frame};
use serde_json::{json, Value};
use std::collections::{BTreeMap, BTreeSet};
use std::sync::atomic::{AtomicBool, AtomicU64, Ordering};
use std::sync::{Arc, Mutex};

const SIG_UNRESOLVABLE: &str = "C10/handoff_unresolvable_summary/nonexistent_summary_artifact_id";

pub fn run(cfg: &Cfg) -> i32 {
    let mut r = Report::new(
        "C10",
        "exploration",
        "seeded parent histories (0..~120 frames: no messages / one message / runs in flight / several runs per \
         message / children used as parents) x selector {none, seq 0|mid|head|head+1|u64::MAX, id known|unknown|\
         non-message|other-thread|malformed, both} x summary {text, existing id, missing id, neither, both} x \
         transport {store API, HTTP route}; every call is judged on the byte diff of events.jsonl; a call is \
         non-trivial when it reached the store's branch/handoff code; distinct = (op, selector class, summary \
         class, transport, history shape, outcome). Every third history is followed by a CONCURRENT case: the \
         same calls (default cut, from_seq below / at / just past the live head, from_message_id of old and \
         freshly acknowledged messages, invalid selectors; API and HTTP) while 1..3 threads append to the source \
         thread under seeded hook-point delays, judged on the final log (cut inside the [head at call start, head \
         at return] window, message = cut rule on the log prefix up to the cut, every new parent frame carries an \
         appender's actor id, each child opens with creation + lineage)",
    );
    r.assume("sequential cases: the property quantifies over histories and inputs; a source thread that is being appended to while the call runs is one more history, so concurrent cases only demand what holds for every linearisation of the call between its start and its return");
    r.assume("a summary is 'resolvable' when the lineage frame carries summary_markdown or its summary_artifact_id names a blob under <ws>/.rip/artifacts/blobs that parses as JSON");
    let rt = runtime(2);
    let mut stats = Stats::default();

    // replay of one stored witness
    if let Some(path) = &cfg.replay {
        let doc: Value = std::fs::read(path)
            .ok()
            .and_then(|b| serde_json::from_slice(&b).ok())
            .unwrap_or(Value::Null);
        let seed = doc.get("seed").and_then(|x| x.as_u64()).unwrap_or(cfg.seed);
        let w = doc.get("witness").cloned().unwrap_or(Value::Null);
        if w.get("directed").is_some() {
            directed(cfg, &mut r, &rt, &mut stats);
        } else if let (Some(true), Some(idx)) = (w.get("concurrent").and_then(|x| x.as_bool()), w.get("case").and_then(|x| x.as_u64())) {
            // schedule-dependent: the same case is run a few times
            for _ in 0..8 {
                concurrent_case(cfg, &mut r, &rt, seed, idx, &mut stats);
            }
        } else if let Some(idx) = w.get("case").and_then(|x| x.as_u64()) {
            let mut rng = Rng::derive(seed, idx);
            one_case(cfg, &mut r, &rt, &mut rng, idx, &mut stats);
        } else {
            r.fatal_inconclusive("replay file has no witness.case / witness.directed");
        }
        stats.flush(&mut r);
        return r.finish(cfg);
    }

    // directed cases run on every invocation (every shard): they make known findings manifest
    // deterministically
    directed(cfg, &mut r, &rt, &mut stats);

    let max_cases = cfg.tier.pick(480u64, 1_000_000u64);
    let mut case = 0u64;
    let mut mine_n = 0u64;
    while case < max_cases && !r.over(cfg) {
        let idx = case;
        case += 1;
        if !cfg.mine(idx) {
            continue;
        }
        let mut rng = cfg.case_rng(idx);
        one_case(cfg, &mut r, &rt, &mut rng, idx, &mut stats);
        // every third history of this shard is followed by a case with concurrent appenders
        if mine_n % 3 == 0 && !r.over(cfg) {
            concurrent_case(cfg, &mut r, &rt, cfg.seed, idx, &mut stats);
        }
        mine_n += 1;
    }
    stats.flush(&mut r);
    if stats.conc_calls == 0 {
        r.inconclusive("no branch/handoff call was made while appenders were running");
    }
    if stats.calls_reached_store == 0 {
        r.fatal_inconclusive("no branch/handoff call reached the store");
    }
    drop(rt);
    r.finish(cfg)
}

#[derive(Default)]
struct Stats {
    calls_reached_store: u64,
    conc_calls: u64,
    counters: BTreeMap<String, u64>,
    http_status: BTreeMap<String, u64>,
}

impl Stats {
    fn c(&mut self, k: &str) {
        *self.counters.entry(k.to_string()).or_insert(0) += 1;
    }
    fn flush(&mut self, r: &mut Report) {
        for (k, v) in &self.counters {
            r.count(k, *v);
        }
        r.note("http_status_histogram", json!(self.http_status));
    }
}

// ---------------------------------------------------------------------------------------------
// truth model (raw frames only)

#[derive(Clone, Debug)]
struct ParentView {
    id: String,
    head: u64,
    msgs: Vec<(u64, String)>,
    /// message id -> max seq among the message and run-spawned/run-ended frames naming it
    related_max: BTreeMap<String, u64>,
    non_message_ids: Vec<String>,
    runs_in_flight: bool,
    multi_run_message: bool,
    frames: usize,
}

fn parent_view(frames: &[Frame], id: &str) -> Option<ParentView> {
    let fs = truth::stream(frames, "continuity", id);
    if fs.is_empty() {
        return None;
    }
    let head = fs.last().map(|f| f.seq()).unwrap_or(0);
    let mut msgs = Vec::new();
    let mut related: BTreeMap<String, u64> = BTreeMap::new();
    let mut non_message_ids = Vec::new();
    let mut spawned: BTreeMap<String, u32> = BTreeMap::new(); // session id -> open
    let mut runs_per_msg: BTreeMap<String, u32> = BTreeMap::new();
    for f in &fs {
        match f.ty() {
            "continuity_message_appended" => {
                msgs.push((f.seq(), f.id().to_string()));
                related.insert(f.id().to_string(), f.seq());
            }
            "continuity_run_spawned" | "continuity_run_ended" => {
                non_message_ids.push(f.id().to_string());
                let mid = f.s("message_id").to_string();
                // only counts when the message is (already) a message of this stream
                if let Some(cur) = related.get_mut(&mid) {
                    *cur = (*cur).max(f.seq());
                }
                let sess = f.s("run_session_id").to_string();
                if f.ty() == "continuity_run_spawned" {
                    *spawned.entry(sess).or_insert(0) += 1;
                    *runs_per_msg.entry(mid).or_insert(0) += 1;
                } else if let Some(n) = spawned.get_mut(&sess) {
                    *n = n.saturating_sub(1);
                }
            }
            _ => non_message_ids.push(f.id().to_string()),
        }
    }
    Some(ParentView {
        id: id.to_string(),
        head,
        msgs,
        related_max: related,
        non_message_ids,
        runs_in_flight: spawned.values().any(|n| *n > 0),
        multi_run_message: runs_per_msg.values().any(|n| *n > 1),
        frames: fs.len(),
    })
}

#[derive(Clone, Debug, PartialEq)]
enum Expect {
    Accept { cut: u64, msg: Option<String> },
    Reject,
}

#[derive(Clone, Debug)]
struct Selector {
    class: &'static str,
    from_seq: Option<u64>,
    from_message_id: Option<String>,
    /// raw JSON override for the HTTP transport (malformed numbers)
    raw_seq: Option<Value>,
}

fn expect_for(p: &ParentView, s: &Selector) -> Expect {
    if s.raw_seq.is_some() {
        return Expect::Reject;
    }
    match (&s.from_seq, &s.from_message_id) {
        (Some(_), Some(_)) => Expect::Reject,
        (Some(q), None) => {
            if *q > p.head {
                Expect::Reject
            } else {
                let msg = p.msgs.iter().rev().find(|(seq, _)| seq <= q).map(|(_, id)| id.clone());
                Expect::Accept { cut: *q, msg }
            }
        }
        (None, Some(m)) => match p.related_max.get(m) {
            Some(cut) => Expect::Accept {
                cut: *cut,
                msg: Some(m.clone()),
            },
            None => Expect::Reject,
        },
        (None, None) => Expect::Accept {
            cut: p.head,
            msg: p.msgs.last().map(|(_, id)| id.clone()),
        },
    }
}

fn pick_selector(rng: &mut Rng, p: &ParentView, other_thread_msg: Option<&String>) -> Selector {
    let mk = |class, from_seq, from_message_id| Selector {
        class,
        from_seq,
        from_message_id,
        raw_seq: None,
    };
    loop {
        match rng.below(15) {
            0 | 1 => return mk("none", None, None),
            2 => return mk("seq_0", Some(0), None),
            3 => {
                if p.head >= 2 {
                    return mk("seq_mid", Some(rng.range(1, p.head - 1)), None);
                }
            }
            4 => return mk("seq_head", Some(p.head), None),
            5 => return mk("seq_head_plus_1", Some(p.head + 1), None),
            6 => return mk("seq_u64_max", Some(u64::MAX), None),
            7 | 8 => {
                if !p.msgs.is_empty() {
                    let (_, id) = rng.pick(&p.msgs).clone();
                    return mk("id_known", None, Some(id));
                }
            }
            9 => {
                let id = format!(
                    "{}-{}-4{}-a{}-{}",
                    rng.hex(8),
                    rng.hex(4),
                    rng.hex(3),
                    rng.hex(3),
                    rng.hex(12)
                );
                return mk("id_unknown", None, Some(id));
            }
            10 => {
                if !p.non_message_ids.is_empty() {
                    let id = rng.pick(&p.non_message_ids).clone();
                    return mk("id_non_message", None, Some(id));
                }
            }
            11 => {
                if let Some(m) = other_thread_msg {
                    if !p.related_max.contains_key(m) {
                        return mk("id_other_thread", None, Some(m.clone()));
                    }
                }
            }
            12 => {
                let id = match rng.below(6) {
                    0 => String::new(),
                    1 => "not-a-uuid".to_string(),
                    2 => "../../events.jsonl".to_string(),
                    3 => rng.ascii(300),
                    4 => rng.unicode(12),
                    _ => p.msgs.last().map(|(_, id)| id.to_uppercase() + " ").unwrap_or_else(|| " ".into()),
                };
                // an upper-cased id that happens to be identical (no letters) would be "known"
                if !p.related_max.contains_key(&id) {
                    return mk("id_malformed", None, Some(id));
                }
            }
            13 => {
                let id = p
                    .msgs
                    .last()
                    .map(|(_, id)| id.clone())
                    .unwrap_or_else(|| "00000000-0000-4000-a000-000000000000".to_string());
                let seq = if rng.bool() { p.head } else { 0 };
                return mk("both", Some(seq), Some(id));
            }
            _ => {
                // a seq strictly before the first message (if any such seq exists)
                if let Some((first, _)) = p.msgs.first() {
                    if *first > 0 {
                        return mk("seq_before_first_message", Some(rng.below(*first)), None);
                    }
                }
            }
        }
    }
}

#[derive(Clone, Debug)]
struct Summary {
    class: &'static str,
    markdown: Option<String>,
    artifact_id: Option<String>,
    artifact_exists: bool,
}

fn blob_path(store: &Store, id: &str) -> std::path::PathBuf {
    store.ws.join(".rip").join("artifacts").join("blobs").join(id)
}

fn blob_json(store: &Store, id: &str) -> Option<Value> {
    // ids are joined onto the blobs dir by rip; only plain names are looked at here
    if id.is_empty() || id.contains('/') || id.contains("..") {
        return None;
    }
    let bytes = std::fs::read(blob_path(store, id)).ok()?;
    serde_json::from_slice(&bytes).ok()
}

fn pick_summary(rng: &mut Rng, existing: &[String], tag: &str) -> Summary {
    let text = || {
        let mut r2 = Rng::new(crate::prng::fnv_str(tag));
        format!("### handoff {tag}\n- {}\n", r2.ascii(24))
    };
    loop {
        match rng.below(10) {
            0..=3 => {
                return Summary {
                    class: "text",
                    markdown: Some(text()),
                    artifact_id: None,
                    artifact_exists: false,
                }
            }
            4 | 5 => {
                if !existing.is_empty() {
                    return Summary {
                        class: "existing_artifact",
                        markdown: None,
                        artifact_id: Some(rng.pick(existing).clone()),
                        artifact_exists: true,
                    };
                }
            }
            6 => {
                return Summary {
                    class: "missing_artifact",
                    markdown: None,
                    artifact_id: Some(rng.hex(64)),
                    artifact_exists: false,
                }
            }
            7 if rng.bool() => {
                // blank text: whether it is refused or accepted (with a bundle for the empty text) is the
                // implementation's choice, but an accepted handoff must still carry something resolvable
                return Summary {
                    class: "blank_text",
                    markdown: Some(["", " ", "\n", " \t\n "][rng.usize(4)].to_string()),
                    artifact_id: None,
                    artifact_exists: false,
                };
            }
            7 => {
                return Summary {
                    class: "neither",
                    markdown: None,
                    artifact_id: None,
                    artifact_exists: false,
                }
            }
            8 => {
                if !existing.is_empty() {
                    return Summary {
                        class: "both_existing",
                        markdown: Some(text()),
                        artifact_id: Some(rng.pick(existing).clone()),
                        artifact_exists: true,
                    };
                }
            }
            _ => {
                return Summary {
                    class: "both_missing",
                    markdown: Some(text()),
                    artifact_id: Some(rng.hex(64)),
                    artifact_exists: false,
                }
            }
        }
    }
}

// ---------------------------------------------------------------------------------------------
// one call = one judged evaluation

#[derive(Clone, Copy, Debug, PartialEq)]
enum Op {
    Branch,
    Handoff,
}

impl Op {
    fn name(&self) -> &'static str {
        match self {
            Op::Branch => "branch",
            Op::Handoff => "handoff",
        }
    }
    fn lineage_type(&self) -> &'static str {
        match self {
            Op::Branch => "continuity_branched",
            Op::Handoff => "continuity_handoff_created",
        }
    }
    fn cut_field(&self) -> &'static str {
        match self {
            Op::Branch => "parent_seq",
            Op::Handoff => "from_seq",
        }
    }
    fn msg_field(&self) -> &'static str {
        match self {
            Op::Branch => "parent_message_id",
            Op::Handoff => "from_message_id",
        }
    }
    fn parent_field(&self) -> &'static str {
        match self {
            Op::Branch => "parent_thread_id",
            Op::Handoff => "from_thread_id",
        }
    }
}

struct CallOutcome {
    /// Some((child, cut, msg)) when the call reported success
    ok: Option<(String, u64, Option<String>)>,
    detail: String,
}

#[allow(clippy::too_many_arguments)]
fn do_call(
    rt: &tokio::runtime::Runtime,
    app: &App,
    stats: &mut Stats,
    op: Op,
    http: bool,
    parent: &str,
    sel: &Selector,
    sum: Option<&Summary>,
    title: Option<String>,
) -> CallOutcome {
    let actor = "rv-actor".to_string();
    let origin = "rv-origin".to_string();
    if http {
        let mut body = serde_json::Map::new();
        if let Some(t) = &title {
            body.insert("title".into(), json!(t));
        }
        if let Some(m) = &sel.from_message_id {
            body.insert("from_message_id".into(), json!(m));
        }
        if let Some(raw) = &sel.raw_seq {
            body.insert("from_seq".into(), raw.clone());
        } else if let Some(s) = sel.from_seq {
            body.insert("from_seq".into(), json!(s));
        }
        body.insert("actor_id".into(), json!(actor));
        body.insert("origin".into(), json!(origin));
        if let Some(s) = sum {
            if let Some(m) = &s.markdown {
                body.insert("summary_markdown".into(), json!(m));
            }
            if let Some(a) = &s.artifact_id {
                body.insert("summary_artifact_id".into(), json!(a));
            }
        }
        let path = format!("/threads/{parent}/{}", op.name());
        let (status, v) = rt.block_on(app.json("POST", &path, Some(&Value::Object(body))));
        *stats.http_status.entry(format!("{}:{status}", op.name())).or_insert(0) += 1;
        if (200..300).contains(&status) {
            let child = v.get("thread_id").and_then(|x| x.as_str()).unwrap_or("").to_string();
            let cut = v.get(op.cut_field()).and_then(|x| x.as_u64()).unwrap_or(u64::MAX);
            let msg = v.get(op.msg_field()).and_then(|x| x.as_str()).map(|s| s.to_string());
            CallOutcome {
                ok: Some((child, cut, msg)),
                detail: format!("http {status}"),
            }
        } else {
            CallOutcome {
                ok: None,
                detail: format!("http {status}"),
            }
        }
    } else {
        let st = app.store();
        let res = match op {
            Op::Branch => st.branch(parent, title, sel.from_message_id.clone(), sel.from_seq, actor, origin),
            Op::Handoff => {
                let s = sum.cloned().unwrap_or(Summary {
                    class: "neither",
                    markdown: None,
                    artifact_id: None,
                    artifact_exists: false,
                });
                st.handoff(
                    parent,
                    title,
                    (s.markdown, s.artifact_id),
                    sel.from_message_id.clone(),
                    sel.from_seq,
                    (actor, origin),
                )
            }
        };
        match res {
            Ok((child, cut, msg)) => CallOutcome {
                ok: Some((child, cut, msg)),
                detail: "ok".into(),
            },
            Err(e) => CallOutcome {
                ok: None,
                detail: e,
            },
        }
    }
}

struct Judged {
    child: Option<String>,
    new_artifact: Option<String>,
    violated: bool,
}

#[allow(clippy::too_many_arguments)]
fn call_and_judge(
    r: &mut Report,
    rt: &tokio::runtime::Runtime,
    store: &Store,
    app: &App,
    stats: &mut Stats,
    op: Op,
    http: bool,
    parent: &ParentView,
    parent_exists: bool,
    sel: &Selector,
    sum: Option<&Summary>,
    shape: &str,
    wit: &Value,
) -> Judged {
    let mut out = Judged {
        child: None,
        new_artifact: None,
        violated: false,
    };
    let before = store.log_bytes_settled();
    let blobs_before = list_blobs(store);
    let mut expect = if parent_exists { expect_for(parent, sel) } else { Expect::Reject };
    if let (Op::Handoff, Some(s)) = (op, sum) {
        if s.class == "neither" {
            expect = Expect::Reject;
        }
    }
    let title = Some(format!("t-{}", sel.class));
    let res = do_call(rt, app, stats, op, http, &parent.id, sel, sum, title);
    let after = store.log_bytes_settled();
    r.eval();
    stats.calls_reached_store += 1;
    let transport = if http { "http" } else { "api" };
    let sum_class = sum.map(|s| s.class).unwrap_or("-");
    stats.c(&format!("calls_{}_{}", op.name(), transport));
    let wit = |extra: Value| {
        let mut w = wit.clone();
        if let Some(o) = w.as_object_mut() {
            o.insert("op".into(), json!(op.name()));
            o.insert("transport".into(), json!(transport));
            o.insert("selector_class".into(), json!(sel.class));
            o.insert("from_seq".into(), json!(sel.from_seq));
            o.insert("from_message_id".into(), json!(sel.from_message_id));
            o.insert("summary_class".into(), json!(sum_class));
            o.insert("parent_head".into(), json!(parent.head));
            o.insert("parent_messages".into(), json!(parent.msgs.len()));
            o.insert("response".into(), json!(res.detail));
            o.insert("detail".into(), extra);
        }
        w
    };

    if !after.starts_with(&before) {
        r.inconclusive("events.jsonl is not an extension of its earlier bytes around a branch/handoff call (C02 matter); call not judged");
        out.violated = true;
        return out;
    }
    let added = match truth::parse_log(&after[before.len()..]) {
        Ok(f) => f,
        Err(e) => {
            r.violation(
                &format!("C10/added_bytes_not_whole_frames/{}", op.name()),
                &format!("bytes appended by {} are not whole JSON lines: {}", op.name(), e.detail),
                wit(json!(e.detail)),
            );
            out.violated = true;
            return out;
        }
    };
    stats.counters.entry("frames_added_observed".into()).and_modify(|n| *n += added.len() as u64).or_insert(added.len() as u64);

    // (1) never touch the parent — holds for accepted and rejected calls alike
    if let Some(f) = added.iter().find(|f| f.stream_id() == parent.id) {
        r.violation(
            &format!("C10/parent_stream_touched/{}", op.name()),
            &format!("{} appended a {} frame (seq {}) to the source thread", op.name(), f.ty(), f.seq()),
            wit(json!({"frame": f.v})),
        );
        out.violated = true;
        return out;
    }

    let outcome;
    match (&res.ok, &expect) {
        (None, Expect::Reject) => {
            outcome = "rejected";
            stats.c("rejected_as_expected");
            if !added.is_empty() {
                r.violation(
                    &format!("C10/rejected_call_appended/{}/{}", op.name(), sel.class),
                    &format!(
                        "{} was rejected ({}) but {} frame(s) were appended (first: {} on {})",
                        op.name(),
                        res.detail,
                        added.len(),
                        added[0].ty(),
                        added[0].stream_id()
                    ),
                    wit(json!({"added": added.iter().map(|f| f.v.clone()).collect::<Vec<_>>()})),
                );
                out.violated = true;
            }
        }
        (None, Expect::Accept { .. }) if sum_class == "both_missing" || sum_class == "missing_artifact" || sum_class == "blank_text" => {
            // text + an artifact id that names no blob: the statement only demands that a handoff that
            // exists carries a resolvable summary, so refusing the dangling id is as good as accepting
            // the request on the strength of the text. A refusal must not append anything.
            outcome = "rejected_dangling_artifact_id";
            stats.c("rejected_text_plus_dangling_artifact_id");
            if !added.is_empty() {
                r.violation(
                    &format!("C10/rejected_call_appended/{}/{}", op.name(), sel.class),
                    &format!("{} was rejected ({}) but {} frame(s) were appended", op.name(), res.detail, added.len()),
                    wit(json!({"added": added.iter().map(|f| f.v.clone()).collect::<Vec<_>>()})),
                );
                out.violated = true;
            }
        }
        (None, Expect::Accept { cut, msg }) => {
            outcome = "rejected_unexpectedly";
            r.violation(
                &format!("C10/rejected_valid_request/{}/{}/{}", op.name(), sel.class, sum_class),
                &format!(
                    "{} with a valid selector ({}) was rejected: {} (expected cut {} message {:?})",
                    op.name(),
                    sel.class,
                    res.detail,
                    cut,
                    msg
                ),
                wit(json!({"expected_cut": cut, "expected_message": msg})),
            );
            out.violated = true;
        }
        (Some((child, _, _)), Expect::Reject) => {
            outcome = "accepted_unexpectedly";
            out.child = Some(child.clone());
            r.violation(
                &format!("C10/accepted_invalid_request/{}/{}/{}", op.name(), sel.class, sum_class),
                &format!(
                    "{} accepted a request that must be rejected (selector {}, summary {}, parent exists: {parent_exists})",
                    op.name(),
                    sel.class,
                    sum_class
                ),
                wit(json!({"added": added.iter().map(|f| f.v.clone()).collect::<Vec<_>>()})),
            );
            out.violated = true;
        }
        (Some((child, rcut, rmsg)), Expect::Accept { cut, msg }) => {
            outcome = "accepted";
            stats.c("accepted_as_expected");
            out.child = Some(child.clone());
            // (2) child's first two frames
            let shape_ok = added.len() == 2
                && added[0].ty() == "continuity_created"
                && added[0].seq() == 0
                && added[1].ty() == op.lineage_type()
                && added[1].seq() == 1
                && added.iter().all(|f| f.stream_kind() == "continuity" && f.stream_id() == child);
            if !shape_ok {
                r.violation(
                    &format!("C10/child_prefix_wrong/{}", op.name()),
                    &format!(
                        "{} did not append exactly continuity_created(seq 0) + {}(seq 1) on the new thread; appended: {:?}",
                        op.name(),
                        op.lineage_type(),
                        added.iter().map(|f| format!("{}@{}#{}", f.ty(), f.stream_id(), f.seq())).collect::<Vec<_>>()
                    ),
                    wit(json!({"added": added.iter().map(|f| f.v.clone()).collect::<Vec<_>>()})),
                );
                out.violated = true;
                return out;
            }
            let lin = &added[1];
            let fcut = lin.u(op.cut_field());
            let fmsg = lin.v.get(op.msg_field()).and_then(|x| x.as_str()).map(|s| s.to_string());
            if lin.s(op.parent_field()) != parent.id {
                r.violation(
                    &format!("C10/lineage_names_wrong_parent/{}", op.name()),
                    &format!("lineage frame names parent {} instead of {}", lin.s(op.parent_field()), parent.id),
                    wit(json!({"frame": lin.v})),
                );
                out.violated = true;
            }
            if fcut.map(|c| c > parent.head).unwrap_or(true) {
                r.violation(
                    &format!("C10/cut_beyond_parent_head/{}/{}", op.name(), sel.class),
                    &format!("recorded cut {:?} lies beyond the parent head {} at call time", fcut, parent.head),
                    wit(json!({"frame": lin.v})),
                );
                out.violated = true;
            } else if fcut != Some(*cut) {
                r.violation(
                    &format!("C10/cut_wrong/{}/{}", op.name(), sel.class),
                    &format!("recorded cut {:?}, ADR-0009 rule gives {}", fcut, cut),
                    wit(json!({"frame": lin.v, "expected_cut": cut})),
                );
                out.violated = true;
            }
            if &fmsg != msg {
                r.violation(
                    &format!("C10/cut_message_wrong/{}/{}", op.name(), sel.class),
                    &format!("recorded message id {:?}, expected {:?}", fmsg, msg),
                    wit(json!({"frame": lin.v, "expected_message": msg})),
                );
                out.violated = true;
            }
            if Some(*rcut) != fcut || rmsg != &fmsg {
                r.violation(
                    &format!("C10/response_differs_from_frame/{}/{}", op.name(), transport),
                    &format!("response says cut {rcut} message {rmsg:?}, lineage frame says {fcut:?} {fmsg:?}"),
                    wit(json!({"frame": lin.v})),
                );
                out.violated = true;
            }
            // (3) handoff carries a resolvable summary
            if op == Op::Handoff {
                let s = sum.expect("handoff has a summary class");
                let f_md = lin.v.get("summary_markdown").and_then(|x| x.as_str());
                let f_art = lin.v.get("summary_artifact_id").and_then(|x| x.as_str());
                let art_ok = f_art.map(|a| blob_json(store, a).is_some()).unwrap_or(false);
                if f_md.is_none() && !art_ok {
                    let sig = if s.class == "missing_artifact" {
                        SIG_UNRESOLVABLE.to_string()
                    } else {
                        format!("C10/handoff_unresolvable_summary/{}", s.class)
                    };
                    r.violation(
                        &sig,
                        &format!(
                            "handoff was accepted and its lineage frame carries no summary_markdown and a summary_artifact_id ({:?}) with no readable blob under .rip/artifacts/blobs",
                            f_art
                        ),
                        wit(json!({"frame": lin.v})),
                    );
                    out.violated = true;
                } else {
                    stats.c("handoff_summaries_resolved");
                }
                if f_md.is_some() && f_art.is_some() && !art_ok {
                    stats.c("handoff_markdown_plus_dangling_artifact_id_accepted");
                }
                if let Some(given) = &s.markdown {
                    if f_md != Some(given.as_str()) {
                        r.violation(
                            "C10/handoff_summary_text_altered",
                            "summary_markdown in the lineage frame differs from the text that was given",
                            wit(json!({"frame": lin.v})),
                        );
                        out.violated = true;
                    }
                }
                if let Some(given) = &s.artifact_id {
                    if f_art != Some(given.as_str()) {
                        r.violation(
                            "C10/handoff_summary_artifact_id_altered",
                            "summary_artifact_id in the lineage frame differs from the id that was given",
                            wit(json!({"frame": lin.v})),
                        );
                        out.violated = true;
                    }
                } else if let (Some(md), Some(a)) = (&s.markdown, f_art) {
                    // text only: the runtime persists a bundle (ADR-0009 / handoff_context_bundle.md)
                    if let Some(b) = blob_json(store, a) {
                        let tref = b.pointer("/refs/threads/0").cloned().unwrap_or(Value::Null);
                        let same = b.get("summary_markdown").and_then(|x| x.as_str()) == Some(md.as_str())
                            && tref.get("thread_id").and_then(|x| x.as_str()) == Some(parent.id.as_str())
                            && tref.get("seq").and_then(|x| x.as_u64()) == fcut
                            && tref.get("message_id").and_then(|x| x.as_str()).map(|s| s.to_string()) == fmsg;
                        if same {
                            stats.c("handoff_bundles_matching_cut");
                        } else {
                            r.violation(
                                "C10/handoff_bundle_source_ref_differs",
                                "the persisted handoff bundle's text / source ref differs from the recorded cut",
                                wit(json!({"frame": lin.v, "bundle": b})),
                            );
                            out.violated = true;
                        }
                        if !blobs_before.contains(a) {
                            out.new_artifact = Some(a.to_string());
                        }
                    }
                }
            }
        }
    }
    r.distinct_str(&format!(
        "{}|{}|{}|{}|{}|{}",
        op.name(),
        sel.class,
        sum_class,
        transport,
        shape,
        outcome
    ));
    stats.c(&format!("selector_{}", sel.class));
    if op == Op::Handoff {
        stats.c(&format!("summary_{sum_class}"));
    }
    out
}

fn list_blobs(store: &Store) -> std::collections::BTreeSet<String> {
    let mut out = std::collections::BTreeSet::new();
    if let Ok(rd) = std::fs::read_dir(store.ws.join(".rip").join("artifacts").join("blobs")) {
        for e in rd.flatten() {
            out.insert(e.file_name().to_string_lossy().to_string());
        }
    }
    out
}

fn shape_of(p: &ParentView) -> String {
    format!(
        "m{}r{}x{}f{}",
        match p.msgs.len() {
            0 => "0",
            1 => "1",
            2..=9 => "few",
            _ => "many",
        },
        p.runs_in_flight as u8,
        p.multi_run_message as u8,
        match p.frames {
            0..=2 => "tiny",
            3..=30 => "small",
            _ => "big",
        }
    )
}

// ---------------------------------------------------------------------------------------------

fn grow_history(app: &App, store: &Store, conts: &[String], known: &mut Known, rng: &mut Rng, ops: usize, tag: &str, no_messages: bool) {
    let weights: Vec<(OpKind, u64)> = if no_messages {
        vec![(OpKind::Cursor, 5), (OpKind::Rotate, 2)]
    } else {
        vec![
            (OpKind::Msg, 30),
            (OpKind::BigMsg, 1),
            (OpKind::RunSpawned, 16),
            (OpKind::RunEnded, 12),
            (OpKind::SideEffects, 8),
            (OpKind::Cursor, 4),
            (OpKind::Rotate, 1),
            (OpKind::ManualCkpt, 3),
            (OpKind::Auto, 2),
            (OpKind::Schedule, 2),
            (OpKind::Compile, 2),
        ]
    };
    for _ in 0..ops {
        let kind = pick_kind(rng, &weights);
        let _ = exec(app, &store.data, conts, known, kind, rng, tag);
    }
}

fn one_case(cfg: &Cfg, r: &mut Report, rt: &tokio::runtime::Runtime, rng: &mut Rng, idx: u64, stats: &mut Stats) {
    let store = Store::new("c10");
    let mut app = match App::open(&store, None) {
        Ok(a) => a,
        Err(e) => {
            r.inconclusive(&format!("case {idx}: cannot open engine: {e}"));
            return;
        }
    };
    let root = match app.store().ensure_default() {
        Ok(c) => c,
        Err(e) => {
            r.inconclusive(&format!("case {idx}: ensure_default: {e}"));
            return;
        }
    };
    // a second, unrelated thread (ids of its messages are "other-thread" ids)
    let other = app
        .store()
        .branch(&root, Some("other".into()), None, None, "rv".into(), "rv".into())
        .map(|x| x.0)
        .ok();
    let mut known = Known::default();
    let mut other_msg: Option<String> = None;
    if let Some(o) = &other {
        other_msg = app.store().append_message(o, "rv".into(), "rv".into(), "other thread message".into()).ok();
    }

    let hist_shape = rng.below(7);
    let tag = format!("c10-{idx}");
    match hist_shape {
        0 => {
            // no messages at all; maybe some non-message frames
            let n = rng.usize(4);
            grow_history(&app, &store, &[root.clone()], &mut known, rng, n, &tag, true);
        }
        1 => grow_history(&app, &store, &[root.clone()], &mut known, rng, 1, &tag, false),
        2 => {
            // one message answered by several runs, some still in flight, other messages in between
            let st = app.store();
            if let Ok(m) = st.append_message(&root, "rv".into(), "rv".into(), "question".into()) {
                known.msgs.push((root.clone(), m.clone()));
                let runs = 2 + rng.usize(4);
                for k in 0..runs {
                    let sess = format!("sess-{idx}-{k}");
                    let _ = st.append_run_spawned(&root, &m, &sess, "rv".into(), "rv".into());
                    if rng.bool() {
                        let _ = st.append_message(&root, "rv".into(), "rv".into(), format!("interleaved {k}"))
                            .map(|id| known.msgs.push((root.clone(), id)));
                    }
                    if rng.chance(2, 3) {
                        let _ = st.append_run_ended(&root, &m, &sess, "completed".into(), "rv".into(), "rv".into());
                    }
                }
            }
            let n = rng.usize(10);
            grow_history(&app, &store, &[root.clone()], &mut known, rng, n, &tag, false);
        }
        3 => {
            let n = 3 + rng.usize(12);
            grow_history(&app, &store, &[root.clone()], &mut known, rng, n, &tag, false);
        }
        _ => {
            let n = 10 + rng.usize(cfg.tier.pick(70, 200));
            grow_history(&app, &store, &[root.clone()], &mut known, rng, n, &tag, false);
        }
    }

    let mut parents: Vec<String> = vec![root.clone()];
    let mut existing_artifacts: Vec<String> = Vec::new();
    let calls = 6 + rng.usize(cfg.tier.pick(14, 30));
    let mut had_violation = false;
    for c in 0..calls {
        if r.over(cfg) {
            break;
        }
        // parent: mostly the root, sometimes a child that has grown
        let pid = if rng.chance(3, 4) { parents[0].clone() } else { rng.pick(&parents).clone() };
        let frames = match truth::parse_log(&store.log_bytes_settled()) {
            Ok(f) => f,
            Err(e) => {
                r.inconclusive(&format!("case {idx}: log unreadable before call: {}", e.detail));
                return;
            }
        };
        let unknown_parent = rng.chance(1, 30);
        let view = if unknown_parent {
            ParentView {
                id: format!("{}-{}-4{}-a{}-{}", rng.hex(8), rng.hex(4), rng.hex(3), rng.hex(3), rng.hex(12)),
                head: 0,
                msgs: vec![],
                related_max: BTreeMap::new(),
                non_message_ids: vec![],
                runs_in_flight: false,
                multi_run_message: false,
                frames: 0,
            }
        } else {
            match parent_view(&frames, &pid) {
                Some(v) => v,
                None => continue,
            }
        };
        let op = if rng.bool() { Op::Branch } else { Op::Handoff };
        let http = rng.bool();
        let mut sel = if unknown_parent {
            Selector {
                class: "unknown_parent",
                from_seq: None,
                from_message_id: None,
                raw_seq: None,
            }
        } else {
            pick_selector(rng, &view, other_msg.as_ref())
        };
        if http && rng.chance(1, 25) {
            // a from_seq the JSON extractor must refuse
            sel = Selector {
                class: "seq_not_a_u64",
                from_seq: None,
                from_message_id: None,
                raw_seq: Some(match rng.below(4) {
                    0 => json!(-1),
                    1 => json!(1.5),
                    2 => json!("3"),
                    _ => json!(18446744073709551616.0),
                }),
            };
        }
        let sum = if op == Op::Handoff {
            Some(pick_summary(rng, &existing_artifacts, &format!("{idx}-{c}")))
        } else {
            None
        };
        let shape = if unknown_parent { "unknown".to_string() } else { shape_of(&view) };
        let wit = json!({"case": idx, "call": c, "history_shape": hist_shape});
        let j = call_and_judge(r, rt, &store, &app, stats, op, http, &view, !unknown_parent, &sel, sum.as_ref(), &shape, &wit);
        if r.samples.len() < r.max_samples && c == 0 {
            r.sample(json!({
                "case": idx, "op": op.name(), "transport": if http {"http"} else {"api"},
                "selector": sel.class, "from_seq": sel.from_seq, "summary": sum.as_ref().map(|s| s.class),
                "parent_frames": view.frames, "parent_messages": view.msgs.len(), "parent_head": view.head,
                "runs_in_flight": view.runs_in_flight, "message_with_several_runs": view.multi_run_message,
                "child": j.child,
            }));
        }
        if j.violated {
            had_violation = true;
        }
        if let Some(a) = j.new_artifact {
            existing_artifacts.push(a);
        }
        if let Some(child) = j.child {
            // next append on the child gets seq 2 (sometimes across a restart)
            if rng.chance(1, 2) {
                let restart = rng.chance(1, 4);
                if restart {
                    drop(app);
                    app = match App::open(&store, None) {
                        Ok(a) => a,
                        Err(e) => {
                            r.inconclusive(&format!("case {idx}: reopen failed: {e}"));
                            return;
                        }
                    };
                    stats.c("restarts");
                }
                let before = store.log_bytes_settled().len();
                match app.store().append_message(&child, "rv".into(), "rv".into(), format!("first on child {c}")) {
                    Ok(mid) => {
                        let after = store.log_bytes_settled();
                        let added = truth::parse_log(&after[before.min(after.len())..]).unwrap_or_default();
                        let ok = added.len() == 1 && added[0].id() == mid && added[0].stream_id() == child && added[0].seq() == 2;
                        if ok {
                            stats.c("child_next_append_seq_2");
                        } else {
                            r.violation(
                                &format!("C10/child_next_seq_wrong/{}/{}", op.name(), if restart { "after_restart" } else { "live" }),
                                &format!(
                                    "the first append on the new thread did not get seq 2: {:?}",
                                    added.iter().map(|f| format!("{}#{}", f.ty(), f.seq())).collect::<Vec<_>>()
                                ),
                                json!({"case": idx, "call": c, "child": child}),
                            );
                            had_violation = true;
                        }
                        known.msgs.push((child.clone(), mid));
                    }
                    Err(e) => {
                        r.violation(
                            &format!("C10/child_append_failed/{}", op.name()),
                            &format!("appending to the freshly created thread failed: {e}"),
                            json!({"case": idx, "call": c, "child": child}),
                        );
                        had_violation = true;
                    }
                }
                if parents.len() < 4 && rng.chance(1, 2) {
                    let n = 1 + rng.usize(8);
                    grow_history(&app, &store, &[child.clone()], &mut known, rng, n, &tag, false);
                    parents.push(child);
                }
            }
        }
        // the parent keeps living between calls
        if rng.chance(1, 3) {
            let n = 1 + rng.usize(4);
            let no_msgs = hist_shape == 0 && rng.chance(2, 3);
            grow_history(&app, &store, &[root.clone()], &mut known, rng, n, &tag, no_msgs);
        }
    }
    // whole-log sanity at the end (seq 0,1,2,… per stream, unique ids)
    let _ = had_violation;
    {
        match truth::parse_log(&store.log_bytes_settled()) {
            Ok(frames) => {
                if let Err(e) = truth::check_streams(&frames) {
                    r.violation(
                        &format!("C10/stream_order_after_branching/{}", e.kind),
                        &format!("per-stream seq broken after branch/handoff workload: {}", e.detail),
                        json!({"case": idx, "detail": e.detail}),
                    );
                }
                stats.counters.entry("frames_in_judged_logs".into()).and_modify(|n| *n += frames.len() as u64).or_insert(frames.len() as u64);
            }
            Err(e) => r.inconclusive(&format!("case {idx}: final log unreadable: {}", e.detail)),
        }
    }
    stats.c("histories");
}

// ---------------------------------------------------------------------------------------------
// concurrent appends to the source thread while branches / handoffs are created

const APPENDER_ACTOR_PREFIX: &str = "rv-app-";

struct Shared {
    stop: AtomicBool,
    /// appender calls that returned Ok: each of them put (at least) one frame on the source thread, all of
    /// it under the store's append lock, so `head0 + completed` frames are certainly there — log and
    /// sidecar — when the counter is read
    completed: AtomicU64,
    errors: AtomicU64,
    /// acknowledged message ids of the source thread, in acknowledgement order
    msgs: Mutex<Vec<String>>,
}

struct ConcCall {
    n: usize,
    op: Op,
    http: bool,
    sel: Selector,
    sum_class: &'static str,
    /// head of the source thread certainly reached when the call started
    lower: u64,
    /// head of the source thread in events.jsonl read after the call returned (None: unreadable)
    upper: Option<u64>,
    res: CallOutcome,
}

/// seq of the last whole line of the source thread in events.jsonl
fn head_in_file(store: &Store, root: &str) -> Option<u64> {
    let mut b = store.log_bytes();
    match b.iter().rposition(|c| *c == b'\n') {
        Some(p) => b.truncate(p + 1),
        None => b.clear(),
    }
    for line in b.split(|c| *c == b'\n').rev() {
        if line.is_empty() {
            continue;
        }
        let v: Value = serde_json::from_slice(line).ok()?;
        let f = Frame { line_no: 0, v };
        if f.stream_kind() == "continuity" && f.stream_id() == root {
            return Some(f.seq());
        }
    }
    None
}

fn prefix_view(parent_frames: &[Frame], root: &str, upto: u64) -> Option<ParentView> {
    let pre: Vec<Frame> = parent_frames.iter().filter(|f| f.seq() <= upto).cloned().collect();
    parent_view(&pre, root)
}

fn appender(st: Arc<ripd::ContinuityStore>, sh: Arc<Shared>, root: String, tag: String, t: usize, mut rng: Rng, cap: u64) -> (u64, [u64; 6]) {
    let actor = format!("{APPENDER_ACTOR_PREFIX}{t}");
    let origin = "rv".to_string();
    let mut open: Vec<(String, String)> = Vec::new();
    let mut kinds = [0u64; 6];
    let mut n = 0u64;
    while !sh.stop.load(Ordering::SeqCst) && n < cap {
        n += 1;
        let tok = format!("{tag}-t{t}#{n}");
        let recent = {
            let g = sh.msgs.lock().unwrap_or_else(|e| e.into_inner());
            if g.is_empty() {
                None
            } else {
                let len = g.len();
                Some(g[len - 1 - rng.usize(len.min(3))].clone())
            }
        };
        let k = rng.below(100);
        let res: Result<String, String> = match (k, recent) {
            (50..=63, Some(m)) => {
                kinds[1] += 1;
                let sess = format!("sess-{tok}");
                let x = st.append_run_spawned(&root, &m, &sess, actor.clone(), origin.clone());
                if x.is_ok() {
                    open.push((m, sess));
                }
                x
            }
            (64..=77, Some(_)) if !open.is_empty() => {
                kinds[2] += 1;
                let (m, sess) = open.remove(rng.usize(open.len()));
                st.append_run_ended(&root, &m, &sess, "completed".into(), actor.clone(), origin.clone())
            }
            (78..=87, Some(m)) => {
                kinds[3] += 1;
                let link = ripd::ContinuityRunLink {
                    continuity_id: root.clone(),
                    message_id: m,
                    actor_id: actor.clone(),
                    origin: origin.clone(),
                };
                let eff = ripd::ToolSideEffects {
                    tool_id: format!("tool-{tok}"),
                    tool_name: "write".into(),
                    affected_paths: Some(vec![format!("f-{n}.txt")]),
                    checkpoint_id: None,
                };
                st.append_tool_side_effects(&link, &format!("sess-{tok}"), eff)
            }
            (88..=93, Some(_)) => {
                kinds[4] += 1;
                st.verif_append_provider_cursor_updated(
                    &root,
                    "openresponses".into(),
                    None,
                    None,
                    Some(json!({"previous_response_id": format!("resp-{tok}")})),
                    "set".into(),
                    None,
                    Some(format!("sess-{tok}")),
                    actor.clone(),
                    origin.clone(),
                )
            }
            (94..=99, Some(m)) => {
                kinds[5] += 1;
                let req = ripd::CompactionCheckpointCumulativeV1Request {
                    summary_markdown: Some(format!("summary {tok}")),
                    summary_artifact_id: None,
                    to_message_id: Some(m),
                    to_seq: None,
                    stride_messages: None,
                    actor_id: actor.clone(),
                    origin: origin.clone(),
                };
                st.compaction_checkpoint_cumulative_v1(&root, req).map(|x| x.0)
            }
            _ => {
                kinds[0] += 1;
                let x = st.append_message(&root, actor.clone(), origin.clone(), tok.clone());
                if let Ok(id) = &x {
                    sh.msgs.lock().unwrap_or_else(|e| e.into_inner()).push(id.clone());
                }
                x
            }
        };
        match res {
            Ok(_) => {
                sh.completed.fetch_add(1, Ordering::SeqCst);
            }
            Err(_) => {
                sh.errors.fetch_add(1, Ordering::SeqCst);
            }
        }
        if rng.chance(1, 6) {
            std::thread::sleep(std::time::Duration::from_micros(rng.below(200)));
        }
    }
    (n, kinds)
}

fn pick_conc_selector(rng: &mut Rng, lower: u64, msgs: &[String]) -> Selector {
    let mk = |class, from_seq, from_message_id| Selector {
        class,
        from_seq,
        from_message_id,
        raw_seq: None,
    };
    loop {
        match rng.below(20) {
            0..=6 => return mk("none", None, None),
            // at, or a few frames past, the head the caller has seen: in range or not depending on what
            // the appenders do meanwhile
            7..=10 => return mk("seq_near_live_head", Some(lower + rng.below(5)), None),
            11 | 12 => return mk("seq_mid", Some(rng.below(lower + 1)), None),
            13..=16 => {
                if !msgs.is_empty() {
                    // freshly acknowledged messages (their runs are being appended right now) or any
                    let n = msgs.len();
                    let i = if rng.chance(2, 3) { n - 1 - rng.usize(n.min(4)) } else { rng.usize(n) };
                    return mk("id_known", None, Some(msgs[i].clone()));
                }
            }
            17 => {
                let id = format!("{}-{}-4{}-a{}-{}", rng.hex(8), rng.hex(4), rng.hex(3), rng.hex(3), rng.hex(12));
                return mk("id_unknown", None, Some(id));
            }
            18 => return mk("seq_u64_max", Some(u64::MAX), None),
            _ => {
                if let Some(m) = msgs.last() {
                    return mk("both", Some(lower), Some(m.clone()));
                }
            }
        }
    }
}

fn concurrent_case(cfg: &Cfg, r: &mut Report, rt: &tokio::runtime::Runtime, seed: u64, idx: u64, stats: &mut Stats) {
    let mut rng = Rng::derive(seed ^ 0x5c10_c0c0_a99e_17d5, idx);
    let t_case = std::time::Instant::now();
    let store = Store::new("c10c");
    let app = match App::open(&store, None) {
        Ok(a) => a,
        Err(e) => {
            r.inconclusive(&format!("concurrent case {idx}: cannot open engine: {e}"));
            return;
        }
    };
    let st = app.store();
    let Ok(root) = st.ensure_default() else {
        r.inconclusive(&format!("concurrent case {idx}: ensure_default failed"));
        return;
    };
    let tag = format!("c10c-{idx}");
    // history of the source thread before the concurrent phase
    let mut known = Known::default();
    let pre = match rng.below(4) {
        0 => 0,
        1 => 1 + rng.usize(4),
        _ => 5 + rng.usize(cfg.tier.pick(30, 90)),
    };
    grow_history(&app, &store, &[root.clone()], &mut known, &mut rng, pre, &tag, false);
    let bytes0 = store.log_bytes_settled();
    let Some(view0) = truth::parse_log(&bytes0).ok().and_then(|f| parent_view(&f, &root)) else {
        r.inconclusive(&format!("concurrent case {idx}: log unreadable before the concurrent phase"));
        return;
    };
    let head0 = view0.head;

    let sh = Arc::new(Shared {
        stop: AtomicBool::new(false),
        completed: AtomicU64::new(0),
        errors: AtomicU64::new(0),
        msgs: Mutex::new(view0.msgs.iter().map(|(_, id)| id.clone()).collect()),
    });
    let appenders = 1 + rng.usize(3);
    let noise_us = *rng.pick(&[30u64, 120, 120, 400]);
    let s = sched();
    s.reset();
    s.set_noise(rng.next_u64(), &[("log.append.*", noise_us), ("cont.cache.*", noise_us)]);
    let cap = cfg.tier.pick(700u64, 1500u64);
    let mut handles = Vec::new();
    for t in 0..appenders {
        let (st, sh, root, tag) = (st.clone(), sh.clone(), root.clone(), tag.clone());
        let trng = Rng::derive(rng.next_u64(), t as u64);
        handles.push(std::thread::spawn(move || appender(st, sh, root, tag, t, trng, cap)));
    }

    let ncalls = 8 + rng.usize(cfg.tier.pick(8, 16));
    let mut calls: Vec<ConcCall> = Vec::new();
    let t_phase = std::time::Instant::now();
    for n in 0..ncalls {
        if r.over(cfg) && n >= 4 {
            break;
        }
        let msgs_now: Vec<String> = sh.msgs.lock().unwrap_or_else(|e| e.into_inner()).clone();
        let op = if rng.bool() { Op::Branch } else { Op::Handoff };
        let http = rng.chance(1, 3);
        let sum = if op == Op::Handoff {
            Some(if rng.chance(1, 10) {
                Summary {
                    class: "neither",
                    markdown: None,
                    artifact_id: None,
                    artifact_exists: false,
                }
            } else {
                Summary {
                    class: "text",
                    markdown: Some(format!("### handoff {tag}-{n}\n")),
                    artifact_id: None,
                    artifact_exists: false,
                }
            })
        } else {
            None
        };
        let lower = head0 + sh.completed.load(Ordering::SeqCst);
        let sel = pick_conc_selector(&mut rng, lower, &msgs_now);
        let res = do_call(rt, &app, stats, op, http, &root, &sel, sum.as_ref(), Some(format!("t-conc-{n}")));
        let upper = head_in_file(&store, &root);
        calls.push(ConcCall {
            n,
            op,
            http,
            sel,
            sum_class: sum.as_ref().map(|s| s.class).unwrap_or("-"),
            lower,
            upper,
            res,
        });
        if rng.chance(1, 3) {
            std::thread::sleep(std::time::Duration::from_micros(rng.below(400)));
        }
    }
    sh.stop.store(true, Ordering::SeqCst);
    let mut appended_ops = 0u64;
    let mut kinds = [0u64; 6];
    let mut appender_died = false;
    for h in handles {
        match h.join() {
            Ok((n, k)) => {
                appended_ops += n;
                for i in 0..6 {
                    kinds[i] += k[i];
                }
            }
            Err(_) => appender_died = true,
        }
    }
    s.reset();
    *stats.counters.entry("conc_phase_wall_ms".into()).or_insert(0) += t_phase.elapsed().as_millis() as u64;
    if appender_died {
        r.inconclusive(&format!("concurrent case {idx}: an appender thread panicked; case not judged"));
        return;
    }

    // ---- judge on the final log
    let bytes1 = store.log_bytes_settled();
    if !bytes1.starts_with(&bytes0) {
        r.inconclusive("events.jsonl is not an extension of its earlier bytes after a concurrent phase (C02 matter); case not judged");
        return;
    }
    let frames = match truth::parse_log(&bytes1) {
        Ok(f) => f,
        Err(e) => {
            r.inconclusive(&format!("concurrent case {idx}: final log unreadable: {}", e.detail));
            return;
        }
    };
    if let Err(e) = truth::check_streams(&frames) {
        r.violation(
            &format!("C10/stream_order_after_branching/{}", e.kind),
            &format!("per-stream seq broken after a concurrent branch/handoff workload: {}", e.detail),
            json!({"case": idx, "concurrent": true, "detail": e.detail}),
        );
        return;
    }
    let pframes: Vec<Frame> = truth::stream(&frames, "continuity", &root).into_iter().cloned().collect();
    let final_head = pframes.last().map(|f| f.seq()).unwrap_or(0);
    let base_wit = json!({
        "case": idx, "concurrent": true, "appenders": appenders, "noise_us": noise_us,
        "parent_head_before": head0, "parent_head_final": final_head,
        "note": "schedule-dependent; --replay runs the case 8 times",
    });
    let acked = sh.completed.load(Ordering::SeqCst);
    stats.c("conc_cases");
    *stats.counters.entry("conc_appender_ops".into()).or_insert(0) += appended_ops;
    *stats.counters.entry("conc_appender_ops_acked".into()).or_insert(0) += acked;
    *stats.counters.entry("conc_appender_errors".into()).or_insert(0) += sh.errors.load(Ordering::SeqCst);
    *stats.counters.entry("conc_parent_frames_appended".into()).or_insert(0) += final_head - head0;
    for (i, name) in ["message", "run_spawned", "run_ended", "side_effects", "cursor", "checkpoint"].iter().enumerate() {
        *stats.counters.entry(format!("conc_appender_{name}")).or_insert(0) += kinds[i];
    }
    if final_head < head0 + acked {
        r.violation(
            "C10/concurrent/acknowledged_parent_appends_missing",
            &format!("{acked} appends to the source thread were acknowledged during the phase, its head moved from {head0} to {final_head} only"),
            base_wit.clone(),
        );
        return;
    }

    // (1) the source thread holds nothing but the appenders' frames
    for f in pframes.iter().filter(|f| f.seq() > head0) {
        if !f.s("actor_id").starts_with(APPENDER_ACTOR_PREFIX) {
            let mut w = base_wit.clone();
            w["frame"] = f.v.clone();
            r.violation(
                &format!("C10/parent_stream_touched/concurrent/{}", f.ty()),
                &format!(
                    "the source thread got a {} frame (seq {}, actor {:?}) that no appender wrote while branches/handoffs were created",
                    f.ty(),
                    f.seq(),
                    f.s("actor_id")
                ),
                w,
            );
            break;
        }
    }

    let mut children: BTreeSet<String> = BTreeSet::new();
    for c in &calls {
        r.eval();
        stats.calls_reached_store += 1;
        stats.conc_calls += 1;
        let transport = if c.http { "http" } else { "api" };
        stats.c(&format!("conc_calls_{}_{}", c.op.name(), transport));
        stats.c(&format!("conc_selector_{}", c.sel.class));
        let upper = c.upper.unwrap_or(final_head).min(final_head);
        let overlapped = upper > c.lower;
        if overlapped {
            stats.c("conc_calls_overlapped_by_parent_appends");
        }
        let wit = |extra: Value| {
            let mut w = base_wit.clone();
            if let Some(o) = w.as_object_mut() {
                o.insert("call".into(), json!(c.n));
                o.insert("op".into(), json!(c.op.name()));
                o.insert("transport".into(), json!(transport));
                o.insert("selector_class".into(), json!(c.sel.class));
                o.insert("from_seq".into(), json!(c.sel.from_seq));
                o.insert("from_message_id".into(), json!(c.sel.from_message_id));
                o.insert("summary_class".into(), json!(c.sum_class));
                o.insert("parent_head_certain_at_call_start".into(), json!(c.lower));
                o.insert("parent_head_in_log_after_return".into(), json!(upper));
                o.insert("response".into(), json!(c.res.detail));
                o.insert("detail".into(), extra);
            }
            w
        };
        // what every linearisation between start and return answers
        let must_reject = c.sum_class == "neither"
            || matches!(c.sel.class, "id_unknown" | "seq_u64_max" | "both")
            || c.sel.from_seq.map(|q| q > upper).unwrap_or(false);
        let must_accept = !must_reject
            && match c.sel.class {
                "none" | "id_known" => true,
                _ => c.sel.from_seq.map(|q| q <= c.lower).unwrap_or(false),
            };
        let outcome;
        match &c.res.ok {
            None => {
                outcome = "rejected";
                stats.c("conc_calls_rejected");
                if must_accept {
                    r.violation(
                        &format!("C10/rejected_valid_request/concurrent/{}/{}", c.op.name(), c.sel.class),
                        &format!(
                            "{} with a selector that is valid for every state of the source thread between call start and return ({}) was rejected: {}",
                            c.op.name(),
                            c.sel.class,
                            c.res.detail
                        ),
                        wit(Value::Null),
                    );
                }
            }
            Some((child, rcut, rmsg)) => {
                outcome = "accepted";
                stats.c("conc_calls_accepted");
                children.insert(child.clone());
                if must_reject {
                    r.violation(
                        &format!("C10/accepted_invalid_request/concurrent/{}/{}/{}", c.op.name(), c.sel.class, c.sum_class),
                        &format!(
                            "{} accepted a request that is invalid for every state of the source thread between call start and return (selector {}, from_seq {:?}, head after return {}, summary {})",
                            c.op.name(),
                            c.sel.class,
                            c.sel.from_seq,
                            upper,
                            c.sum_class
                        ),
                        wit(Value::Null),
                    );
                }
                // the child opens with creation + lineage (nobody appends to children in this phase)
                let cf = truth::stream(&frames, "continuity", child);
                let shape_ok = cf.len() == 2
                    && cf[0].ty() == "continuity_created"
                    && cf[0].seq() == 0
                    && cf[1].ty() == c.op.lineage_type()
                    && cf[1].seq() == 1;
                if !shape_ok {
                    r.violation(
                        &format!("C10/child_prefix_wrong/concurrent/{}", c.op.name()),
                        &format!(
                            "the thread created by {} does not consist of continuity_created(seq 0) + {}(seq 1): {:?}",
                            c.op.name(),
                            c.op.lineage_type(),
                            cf.iter().map(|f| format!("{}#{}", f.ty(), f.seq())).collect::<Vec<_>>()
                        ),
                        wit(json!({"child": cf.iter().map(|f| f.v.clone()).collect::<Vec<_>>()})),
                    );
                    continue;
                }
                let lin = cf[1];
                let fmsg = lin.v.get(c.op.msg_field()).and_then(|x| x.as_str()).map(|s| s.to_string());
                if lin.s(c.op.parent_field()) != root {
                    r.violation(
                        &format!("C10/lineage_names_wrong_parent/{}", c.op.name()),
                        &format!("lineage frame names parent {} instead of {}", lin.s(c.op.parent_field()), root),
                        wit(json!({"frame": lin.v})),
                    );
                }
                let Some(fcut) = lin.u(c.op.cut_field()) else {
                    r.violation(
                        &format!("C10/cut_beyond_parent_head/concurrent/{}/{}", c.op.name(), c.sel.class),
                        "the lineage frame records no cut seq",
                        wit(json!({"frame": lin.v})),
                    );
                    continue;
                };
                if Some(*rcut) != Some(fcut) || rmsg != &fmsg {
                    r.violation(
                        &format!("C10/response_differs_from_frame/{}/{}", c.op.name(), transport),
                        &format!("response says cut {rcut} message {rmsg:?}, lineage frame says {fcut} {fmsg:?}"),
                        wit(json!({"frame": lin.v})),
                    );
                }
                // the cut lies within the source thread as it was at some moment of the call
                if fcut > upper {
                    r.violation(
                        &format!("C10/cut_beyond_parent_head/concurrent/{}/{}", c.op.name(), c.sel.class),
                        &format!(
                            "recorded cut {fcut} lies beyond the head ({upper}) the source thread had in events.jsonl after the call returned"
                        ),
                        wit(json!({"frame": lin.v})),
                    );
                    continue;
                }
                if c.sel.class == "none" {
                    if fcut < c.lower {
                        r.violation(
                            &format!("C10/concurrent/default_cut_before_head_at_call_start/{}", c.op.name()),
                            &format!(
                                "default cut recorded as {fcut}, but {} frames of the source thread were acknowledged before the call started",
                                c.lower
                            ),
                            wit(json!({"frame": lin.v})),
                        );
                    } else if fcut > c.lower {
                        stats.c("conc_default_cuts_past_head_at_call_start");
                    }
                }
                // the cut rule on the parent log prefix up to the recorded cut …
                let Some(pv) = prefix_view(&pframes, &root, fcut) else {
                    continue;
                };
                match expect_for(&pv, &c.sel) {
                    Expect::Accept { cut, msg } => {
                        if cut != fcut {
                            r.violation(
                                &format!("C10/cut_wrong/concurrent/{}/{}", c.op.name(), c.sel.class),
                                &format!("recorded cut {fcut}; the ADR-0009 rule on the source thread up to seq {fcut} gives {cut}"),
                                wit(json!({"frame": lin.v, "expected_cut": cut})),
                            );
                        }
                        if msg != fmsg {
                            r.violation(
                                &format!("C10/cut_message_wrong/concurrent/{}/{}", c.op.name(), c.sel.class),
                                &format!(
                                    "recorded (cut {fcut}, message {fmsg:?}): the last message of the source thread at or before seq {fcut} is {msg:?}"
                                ),
                                wit(json!({"frame": lin.v, "expected_message": msg})),
                            );
                        } else {
                            stats.c("conc_lineage_records_matching_parent_prefix");
                        }
                    }
                    Expect::Reject => {
                        r.violation(
                            &format!("C10/cut_wrong/concurrent/{}/{}", c.op.name(), c.sel.class),
                            &format!("recorded cut {fcut}, but on the source thread up to seq {fcut} the selector does not resolve at all"),
                            wit(json!({"frame": lin.v})),
                        );
                    }
                }
                // … and, for a message selector, the end of the run that answered it as far as it was
                // certainly there when the call started
                if let (Some(m), true) = (&c.sel.from_message_id, c.sel.from_seq.is_none()) {
                    if c.lower > fcut {
                        if let Some(later) = prefix_view(&pframes, &root, c.lower).and_then(|v| v.related_max.get(m).copied()) {
                            if later > fcut {
                                r.violation(
                                    &format!("C10/cut_wrong/concurrent_related_frame_missed/{}", c.op.name()),
                                    &format!(
                                        "cut for message {m} recorded as {fcut}; a run frame of that message at seq {later} was acknowledged before the call started"
                                    ),
                                    wit(json!({"frame": lin.v})),
                                );
                            }
                        }
                    }
                }
                if c.op == Op::Handoff {
                    let f_md = lin.v.get("summary_markdown").and_then(|x| x.as_str());
                    let f_art = lin.v.get("summary_artifact_id").and_then(|x| x.as_str());
                    if f_md.is_none() && !f_art.map(|a| blob_json(&store, a).is_some()).unwrap_or(false) {
                        r.violation(
                            &format!("C10/handoff_unresolvable_summary/{}", c.sum_class),
                            "handoff created while the source thread was appended to carries no resolvable summary",
                            wit(json!({"frame": lin.v})),
                        );
                    }
                }
            }
        }
        r.distinct_str(&format!(
            "conc|{}|{}|{}|{}|{}|{}|a{}",
            c.op.name(),
            c.sel.class,
            c.sum_class,
            transport,
            outcome,
            overlapped as u8,
            appenders
        ));
        if r.samples.len() + 2 < r.max_samples && c.n == 0 {
            r.sample(wit(json!({"outcome": outcome})));
        }
    }
    // (4) nothing else was appended: every frame of the phase is an appender's or belongs to a reported child
    if let Ok(added) = truth::parse_log(&bytes1[bytes0.len()..]) {
        if let Some(f) = added.iter().find(|f| {
            !(f.stream_kind() == "continuity" && (children.contains(f.stream_id()) || f.stream_id() == root))
                && !f.s("actor_id").starts_with(APPENDER_ACTOR_PREFIX)
        }) {
            let mut w = base_wit.clone();
            w["frame"] = f.v.clone();
            r.violation(
                "C10/rejected_call_appended/concurrent",
                &format!(
                    "a {} frame on stream {} {} belongs neither to the source thread nor to a thread reported by an accepted call",
                    f.ty(),
                    f.stream_kind(),
                    if children.is_empty() { "(no call was accepted)" } else { "(not one of the reported children)" }
                ),
                w,
            );
        }
        *stats.counters.entry("conc_frames_judged".into()).or_insert(0) += added.len() as u64;
    }
    *stats.counters.entry("conc_case_wall_ms".into()).or_insert(0) += t_case.elapsed().as_millis() as u64;
}

/// Directed cases that run on every invocation.
fn directed(_cfg: &Cfg, r: &mut Report, rt: &tokio::runtime::Runtime, stats: &mut Stats) {
    let store = Store::new("c10d");
    let app = match App::open(&store, None) {
        Ok(a) => a,
        Err(e) => {
            r.inconclusive(&format!("directed: cannot open engine: {e}"));
            return;
        }
    };
    let st = app.store();
    let Ok(root) = st.ensure_default() else {
        r.inconclusive("directed: ensure_default failed");
        return;
    };
    let mut ids = Vec::new();
    for i in 0..3 {
        if let Ok(m) = st.append_message(&root, "rv".into(), "rv".into(), format!("m{i}")) {
            ids.push(m);
        }
    }
    if let Some(m) = ids.get(1) {
        let _ = st.append_run_spawned(&root, m, "sess-d", "rv".into(), "rv".into());
        let _ = st.append_run_ended(&root, m, "sess-d", "completed".into(), "rv".into(), "rv".into());
    }
    let missing = "0123456789abcdef0123456789abcdef0123456789abcdef0123456789abcdef".to_string();
    for http in [false, true] {
        let frames = truth::parse_log(&store.log_bytes_settled()).unwrap_or_default();
        let Some(view) = parent_view(&frames, &root) else {
            r.inconclusive("directed: parent stream missing");
            return;
        };
        let sel = Selector {
            class: "none",
            from_seq: None,
            from_message_id: None,
            raw_seq: None,
        };
        let sum = Summary {
            class: "missing_artifact",
            markdown: None,
            artifact_id: Some(missing.clone()),
            artifact_exists: false,
        };
        let wit = json!({"directed": "handoff_missing_summary_artifact"});
        call_and_judge(r, rt, &store, &app, stats, Op::Handoff, http, &view, true, &sel, Some(&sum), "directed", &wit);
        // message answered by a run: cut = run_ended seq
        if let Some(m) = ids.get(1) {
            let sel = Selector {
                class: "id_known",
                from_seq: None,
                from_message_id: Some(m.clone()),
                raw_seq: None,
            };
            call_and_judge(r, rt, &store, &app, stats, Op::Branch, http, &view, true, &sel, None, "directed", &wit);
        }
    }
    stats.c("directed_cases");
}
