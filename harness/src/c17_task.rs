//! C17 task oracle: real router (fixture::App), pipes mode.

use super::emit::{bucket, gen_plan, lossy, read_journal, read_progress, tails_shape, wait_all_over, Journals, Plan, Tail, TailTruth, J_EXIT, J_SPAWNED};
use super::pages::{judge_random, judge_walk, page_sizes, Page};
use crate::fixture::{App, Store};
use crate::prng::Rng;
use crate::report::{Cfg, Report};
use crate::sched::Sched;
use crate::truth;
use serde_json::{json, Value};
use std::collections::BTreeMap;
use std::path::PathBuf;
use std::sync::atomic::{AtomicBool, Ordering};
use std::sync::{Arc, Condvar, Mutex};
use std::time::{Duration, Instant};

pub const DEFAULT_LIMIT: usize = 512 * 1024;
pub const DEFAULT_CAP: usize = 16 * 1024 * 1024;
const READ_SIZE: usize = 8192;

#[derive(Clone, Debug, PartialEq)]
pub enum Class {
    Normal,
    InvalidArgs(u8),
    SpawnFail(u8),
}

#[derive(Clone, Debug, PartialEq)]
pub enum Cancel {
    None,
    AfterMs(u64),
    AtRecord(u64),
    /// this long after the child has started all its descendants (child still alive when it lingers)
    AfterTailsSpawned(u64),
    /// this long after the direct child has exited (only descendants are alive)
    AfterChildExit(u64),
}

#[derive(Clone, Debug, PartialEq)]
pub enum Attach {
    Immediately,
    AfterMs(u64),
    AfterTerminal,
}

pub struct TaskCase {
    pub idx: u64,
    pub label: String,
    pub tool: &'static str,
    pub limit_arg: Option<usize>,
    pub cap_arg: Option<usize>,
    pub class: Class,
    pub cancel: Cancel,
    pub attach: Attach,
    pub plan: Plan,
    pub cwd: bool,
    pub env: bool,
    pub walks: usize,
    pub page_seed: u64,
    /// starve the blocking pool (1 thread kept busy) while the task runs
    pub starve: bool,
    pub force_page: Option<usize>,
    /// descendants of the child that keep the pipes open after it (pipe lifetime ≠ process lifetime)
    pub tails: Vec<Tail>,
}

/// Clock slack when a journal time stamp (descendant) is compared with a frame time stamp (ripd).
const STAMP_SLACK_MS: u64 = 20;

impl TaskCase {
    pub fn limit(&self) -> usize {
        self.limit_arg.unwrap_or(DEFAULT_LIMIT)
    }
    pub fn cap(&self) -> usize {
        self.cap_arg.unwrap_or(DEFAULT_CAP)
    }
    pub fn describe(&self) -> Value {
        json!({
            "case": self.idx, "kind": "task", "label": self.label, "tool": self.tool,
            "max_bytes": self.limit_arg, "artifact_max_bytes": self.cap_arg,
            "class": format!("{:?}", self.class), "cancel": format!("{:?}", self.cancel),
            "attach": format!("{:?}", self.attach), "stdout_len": self.plan.out.len(),
            "stderr_len": self.plan.err.len(), "writes": self.plan.ops.len(), "exit": self.plan.exit,
            "shape": self.plan.shape, "starve_blocking_pool": self.starve,
            "stdout_head_hex": hex::encode(&self.plan.out[..self.plan.out.len().min(24)]),
            "linger_ms": self.plan.linger_ms,
            "descendants": self.tails.iter().map(|t| t.describe()).collect::<Vec<_>>(),
        })
    }
}

pub fn gen_case(cfg: &Cfg, rng: &mut Rng, idx: u64) -> TaskCase {
    let limit_arg = match rng.below(4) {
        0 => None,
        _ => Some(*rng.pick(&[0usize, 1, 2, 3, 4, 5, 16, 100, 1000, 4096, 8191, 8192, 8193, 20000])),
    };
    let cap_arg = match rng.below(3) {
        0 => None,
        _ => Some(*rng.pick(&[0usize, 1, 100, 4096, 8192, 8193, 10000, 20000, 50000])),
    };
    let limit = limit_arg.unwrap_or(DEFAULT_LIMIT);
    let cap = cap_arg.unwrap_or(DEFAULT_CAP);
    let max_size = cfg.tier.pick(70_000usize, 400_000usize);
    let mut plan = gen_plan(rng, limit, cap, max_size, cfg.tier.pick(150, 400));
    let class = match rng.below(25) {
        0 => Class::InvalidArgs(rng.below(4) as u8),
        1 => Class::SpawnFail(rng.below(3) as u8),
        _ => Class::Normal,
    };
    let cancel = match rng.below(20) {
        0..=10 => Cancel::None,
        11..=14 => Cancel::AfterMs(*rng.pick(&[0u64, 0, 1, 2, 3, 5, 8, 15, 30])),
        _ => Cancel::AtRecord(match rng.below(4) {
            0 => 0,
            1 => 1,
            2 => 2,
            _ => 2 + rng.below(12),
        }),
    };
    if cancel != Cancel::None && rng.chance(3, 4) {
        plan.linger_ms = 150 + rng.below(150);
    }
    let attach = match rng.below(5) {
        0..=2 => Attach::Immediately,
        3 => Attach::AfterMs(rng.below(12)),
        _ => Attach::AfterTerminal,
    };
    // pipe lifetime ≠ process lifetime (own rng lane: the rest of the case stays what it was)
    let mut trng = Rng::derive(rng.clone().next_u64(), 0x7A11);
    let mut cancel = cancel;
    let mut tails = Vec::new();
    if class == Class::Normal && trng.chance(1, 90) {
        tails = super::emit::gen_tails(&mut trng);
        if cancel != Cancel::None {
            cancel = match trng.below(3) {
                0 => cancel,
                1 => {
                    plan.linger_ms = 400;
                    Cancel::AfterTailsSpawned(trng.below(120))
                }
                _ => Cancel::AfterChildExit(trng.below(120)),
            };
        }
    }
    TaskCase {
        idx,
        label: "random".into(),
        tool: if rng.chance(1, 4) { "shell" } else { "bash" },
        limit_arg,
        cap_arg,
        class,
        cancel,
        attach,
        plan,
        cwd: rng.chance(1, 6),
        env: rng.chance(1, 6),
        walks: 2,
        page_seed: rng.next_u64(),
        starve: false,
        force_page: None,
        tails,
    }
}

#[derive(Default)]
struct HookShared {
    want_record_seq: Option<u64>,
    fired: bool,
    paths: Option<(PathBuf, PathBuf)>,
    /// seq -> (stdout file len, stderr file len) at the instant the frame was published
    lens_at_send: BTreeMap<u64, (u64, u64)>,
    ack: bool,
}

struct Hook {
    st: Mutex<HookShared>,
    cv: Condvar,
    snapshot_written: AtomicBool,
}

pub struct Outcome {
    pub nontrivial: bool,
    pub shape: String,
}

fn terminal(status: &str) -> bool {
    matches!(status, "exited" | "failed" | "cancelled")
}

fn is_terminal_frame(v: &Value) -> bool {
    v["type"] == "tool_task_status" && terminal(v["status"].as_str().unwrap_or(""))
}

/// Run one task through the router and judge everything that was observed.
pub async fn run_case(r: &mut Report, s: &Arc<Sched>, case: &TaskCase, store: &Store, app: &App) -> Option<Outcome> {
    let wit = case.describe();
    if case.cwd {
        let _ = std::fs::create_dir_all(store.ws.join("sub dir"));
    }
    let has_tails = !case.tails.is_empty();
    let (command, progress, journals): (String, Option<PathBuf>, Option<Journals>) = if has_tails {
        let (c, p, j) = case.plan.command_with_tails(&store.dir, &format!("task{}", case.idx), true, &case.tails);
        (c, p, Some(j))
    } else {
        let (c, p) = case.plan.command(&store.dir, &format!("task{}", case.idx), true);
        (c, p, None)
    };
    let mut args = json!({"command": command});
    if let Some(l) = case.limit_arg {
        args["max_bytes"] = json!(l);
    }
    if let Some(c) = case.cap_arg {
        args["artifact_max_bytes"] = json!(c);
    }
    if case.cwd {
        args["cwd"] = json!("sub dir");
    }
    if case.env {
        args["env"] = json!({"RV_C17": "x y", "LC_ALL": "C"});
    }
    match &case.class {
        Class::Normal => {}
        Class::InvalidArgs(k) => {
            args = match k {
                0 => json!({"cmd": "echo hi"}),
                1 => json!({"command": 17}),
                2 => json!("echo hi"),
                _ => json!({"command": "echo hi", "max_bytes": -1}),
            };
        }
        Class::SpawnFail(k) => {
            args["cwd"] = match k {
                0 => json!("does/not/exist"),
                1 => json!("/tmp"),
                _ => json!("../outside"),
            };
        }
    }
    let mut body = json!({"tool": case.tool, "args": args});
    if case.idx % 3 == 0 {
        body["title"] = json!("rv c17");
    }

    // hooks: cancel at a chosen emit, file length at every publish, end-of-task signal
    let hook = Arc::new(Hook {
        st: Mutex::new(HookShared {
            want_record_seq: if let Cancel::AtRecord(k) = case.cancel { Some(k) } else { None },
            ..Default::default()
        }),
        cv: Condvar::new(),
        snapshot_written: AtomicBool::new(false),
    });
    let (tx, rx) = std::sync::mpsc::channel::<String>();
    s.reset();
    {
        let hook = hook.clone();
        s.set_custom(Some(Arc::new(move |point: &'static str, ctx: &str| match point {
            "task.emit.after_send" => {
                let mut g = hook.st.lock().unwrap_or_else(|e| e.into_inner());
                if let Some((o, e)) = g.paths.clone() {
                    let seq = ctx.rsplit(' ').next().and_then(|x| x.parse::<u64>().ok()).unwrap_or(u64::MAX);
                    let lo = std::fs::metadata(&o).map(|m| m.len()).unwrap_or(0);
                    let le = std::fs::metadata(&e).map(|m| m.len()).unwrap_or(0);
                    g.lens_at_send.insert(seq, (lo, le));
                }
            }
            "task.emit.after_record" => {
                let mut g = hook.st.lock().unwrap_or_else(|e| e.into_inner());
                let seq = ctx.rsplit(' ').next().and_then(|x| x.parse::<u64>().ok());
                if !g.fired && g.want_record_seq.is_some() && g.want_record_seq == seq {
                    g.fired = true;
                    let id = ctx.split(' ').next().unwrap_or("").to_string();
                    let _ = tx.send(id);
                    let deadline = Instant::now() + Duration::from_secs(2);
                    while !g.ack {
                        let now = Instant::now();
                        if now >= deadline {
                            break;
                        }
                        let (ng, _) = hook.cv.wait_timeout(g, deadline - now).unwrap_or_else(|e| e.into_inner());
                        g = ng;
                    }
                }
            }
            "snapshot.written" => {
                hook.snapshot_written.store(true, Ordering::SeqCst);
            }
            _ => {}
        })));
    }

    // optional starvation of the blocking pool
    let stop_starve = Arc::new(AtomicBool::new(false));
    let mut starvers = Vec::new();
    if case.starve {
        for _ in 0..2 {
            let stop = stop_starve.clone();
            starvers.push(tokio::spawn(async move {
                while !stop.load(Ordering::Relaxed) {
                    let _ = tokio::task::spawn_blocking(|| std::thread::sleep(Duration::from_millis(4))).await;
                }
            }));
        }
        tokio::time::sleep(Duration::from_millis(5)).await;
    }

    let t0 = Instant::now();
    let (st, created) = app.json("POST", "/tasks", Some(&body)).await;
    let finish = |s: &Arc<Sched>| {
        stop_starve.store(true, Ordering::Relaxed);
        s.reset();
    };
    if st != 201 {
        finish(s);
        r.violation(
            "C17/task/create_rejected",
            &format!("POST /tasks answered {st} for a bash/shell pipes task"),
            wit.clone(),
        );
        return None;
    }
    let id = created["task_id"].as_str().unwrap_or("").to_string();
    // log refs are known from creation on
    let (_, st0) = app.json("GET", &format!("/tasks/{id}"), None).await;
    let ref_path = |v: &Value, sname: &str| -> Option<PathBuf> {
        v["artifacts"]["logs"][sname]["path"].as_str().map(|p| store.ws.join(p))
    };
    if let (Some(o), Some(e)) = (ref_path(&st0, "stdout"), ref_path(&st0, "stderr")) {
        hook.st.lock().unwrap().paths = Some((o, e));
    }

    // cancel driver
    let cancel_sent = Arc::new(AtomicBool::new(false));
    let cancel_task = {
        let app = app.clone();
        let id = id.clone();
        let cancel = case.cancel.clone();
        let sent = cancel_sent.clone();
        let cancel_journals = journals.clone();
        tokio::spawn(async move {
            match cancel {
                Cancel::None => {}
                Cancel::AfterMs(ms) => {
                    if ms > 0 {
                        tokio::time::sleep(Duration::from_millis(ms)).await;
                    }
                    let (st, _) = app.json("POST", &format!("/tasks/{id}/cancel"), Some(&json!({"reason": "rv"}))).await;
                    sent.store(st == 202, Ordering::SeqCst);
                }
                Cancel::AtRecord(_) => {}
                Cancel::AfterTailsSpawned(ms) | Cancel::AfterChildExit(ms) => {
                    // wait for the moment in the child's own journal (never longer than the watchdog)
                    let want_exit = matches!(cancel, Cancel::AfterChildExit(_));
                    let t = Instant::now();
                    let mut reached = false;
                    while t.elapsed() < Duration::from_secs(15) {
                        if let Some(j) = &cancel_journals {
                            let cj = read_journal(&j.child);
                            reached = if want_exit {
                                cj.iter().any(|r| r.kind == J_EXIT)
                            } else {
                                cj.iter().filter(|r| r.kind == J_SPAWNED).count() >= j.tails.len()
                            };
                        }
                        if reached {
                            break;
                        }
                        tokio::time::sleep(Duration::from_millis(3)).await;
                    }
                    if reached {
                        tokio::time::sleep(Duration::from_millis(ms)).await;
                        let (st, _) = app.json("POST", &format!("/tasks/{id}/cancel"), Some(&json!({"reason": "rv"}))).await;
                        sent.store(st == 202, Ordering::SeqCst);
                    }
                }
            }
        })
    };
    if matches!(case.cancel, Cancel::AtRecord(_)) {
        // The hook blocks a runtime worker; the cancel must therefore be driven from outside the
        // runtime (a wake-up from the blocked worker would sit in its own LIFO slot).
        let app = app.clone();
        let hook = hook.clone();
        let sent = cancel_sent.clone();
        let handle = tokio::runtime::Handle::current();
        std::thread::spawn(move || {
            if let Ok(tid) = rx.recv_timeout(Duration::from_secs(25)) {
                let (st, _) = handle.block_on(app.json("POST", &format!("/tasks/{tid}/cancel"), Some(&json!({"reason": "rv"}))));
                sent.store(st == 202, Ordering::SeqCst);
                let mut g = hook.st.lock().unwrap_or_else(|e| e.into_inner());
                g.ack = true;
                drop(g);
                hook.cv.notify_all();
            }
        });
    } else {
        drop(rx);
    }

    // SSE view
    let watchdog = Duration::from_secs(20);
    match case.attach {
        Attach::Immediately => {}
        Attach::AfterMs(ms) => tokio::time::sleep(Duration::from_millis(ms)).await,
        Attach::AfterTerminal => {
            let mut ok = false;
            while t0.elapsed() < watchdog {
                let (_, v) = app.json("GET", &format!("/tasks/{id}"), None).await;
                if terminal(v["status"].as_str().unwrap_or("")) {
                    ok = true;
                    break;
                }
                tokio::time::sleep(Duration::from_millis(3)).await;
            }
            if !ok {
                finish(s);
                r.inconclusive(&format!("case {}: task not terminal within the watchdog", case.idx));
                return None;
            }
        }
    }
    let (code, reader) = app.sse(&format!("/tasks/{id}/events")).await;
    let Some(mut reader) = reader else {
        finish(s);
        r.inconclusive(&format!("case {}: SSE open answered {code}", case.idx));
        return None;
    };
    let mut sse: Vec<Value> = Vec::new();
    let mut saw_terminal = false;
    let live_paths = hook.st.lock().unwrap().paths.clone();
    // seq -> length of the named log file when the delta frame arrived on the wire
    let mut len_at_receive: BTreeMap<u64, u64> = BTreeMap::new();
    // A frame published between this subscriber's subscribe and its snapshot can be lost (C06's
    // concern); do not wait for a terminal frame that the status endpoint says has long been emitted.
    let mut sse_lost = false;
    let mut status_terminal_since: Option<Instant> = None;
    while t0.elapsed() < watchdog {
        match reader.next_json(Duration::from_millis(200)).await {
            Some(v) => {
                let t = is_terminal_frame(&v);
                if v["type"] == "tool_task_output_delta" && case.attach == Attach::Immediately {
                    if let (Some((o, e)), Some(q)) = (&live_paths, v["seq"].as_u64()) {
                        let p = if v["stream"] == "stderr" { e } else { o };
                        len_at_receive.insert(q, std::fs::metadata(p).map(|m| m.len()).unwrap_or(0));
                    }
                }
                sse.push(v);
                if t {
                    saw_terminal = true;
                    break;
                }
            }
            None => {
                let (_, v) = app.json("GET", &format!("/tasks/{id}"), None).await;
                if terminal(v["status"].as_str().unwrap_or("")) {
                    match status_terminal_since {
                        None => status_terminal_since = Some(Instant::now()),
                        Some(t) if t.elapsed() > Duration::from_millis(500) => {
                            sse_lost = true;
                            break;
                        }
                        _ => {}
                    }
                }
            }
        }
    }
    if sse_lost {
        r.count("sse_subscriber_never_got_terminal_frame_not_judged", 1);
    } else if !saw_terminal {
        finish(s);
        s.release_all();
        r.inconclusive(&format!("case {}: no terminal frame on SSE within the watchdog", case.idx));
        return None;
    }
    // files at the instant the terminal frame reached us
    let read_logs = |v: &Value| -> BTreeMap<&'static str, Vec<u8>> {
        let mut m = BTreeMap::new();
        for sname in ["stdout", "stderr"] {
            if let Some(p) = ref_path(v, sname) {
                m.insert(sname, std::fs::read(p).unwrap_or_default());
            }
        }
        m
    };
    let files_early = read_logs(&st0);
    // Pipe lifetime ≠ process lifetime: judge the state that is left once the last descendant that held
    // a pipe is gone (whatever a detached reader would still do has been done by then).
    let mut tails_note: Option<super::emit::Lives> = None;
    if let Some(j) = &journals {
        let longest = case.tails.iter().map(|t| t.life_ms()).max().unwrap_or(0) + case.plan.linger_ms;
        let l = wait_all_over(j, Duration::from_millis(longest + 4000)).await;
        if !l.all_over {
            finish(s);
            r.inconclusive(&format!("case {}: descendants still alive {} ms after the terminal frame", case.idx, longest + 4000));
            return None;
        }
        tokio::time::sleep(Duration::from_millis(250)).await;
        tails_note = Some(l);
    }
    // end of run_task (snapshot written) = nothing more can be emitted
    let t1 = Instant::now();
    while !hook.snapshot_written.load(Ordering::SeqCst) && t1.elapsed() < Duration::from_secs(5) {
        tokio::time::sleep(Duration::from_millis(1)).await;
    }
    let quiesced = hook.snapshot_written.load(Ordering::SeqCst);
    // anything after the terminal frame on the wire?
    let mut extra = 0;
    while let Some(v) = reader.next_json(Duration::from_millis(if quiesced { 5 } else { 40 })).await {
        sse.push(v);
        extra += 1;
        if extra > 8 {
            break;
        }
    }
    drop(reader);
    let _ = tokio::time::timeout(Duration::from_secs(3), cancel_task).await;
    stop_starve.store(true, Ordering::Relaxed);
    for h in starvers {
        let _ = h.await;
    }
    // let the last in-flight file write land before the "eventual" comparison
    let mut files = read_logs(&st0);
    if let Some(t) = sse.iter().find(|v| is_terminal_frame(v)) {
        let t = t.clone();
        let t3 = Instant::now();
        loop {
            let done = ["stdout", "stderr"].iter().all(|sn| {
                let want = t["artifacts"]["logs"][*sn]["bytes_stored"].as_u64().unwrap_or(0);
                files.get(*sn).map(|f| f.len() as u64 >= want).unwrap_or(true)
            });
            if done || t3.elapsed() > Duration::from_millis(800) {
                break;
            }
            tokio::time::sleep(Duration::from_millis(2)).await;
            files = read_logs(&st0);
        }
    }
    let (_, status_final) = app.json("GET", &format!("/tasks/{id}"), None).await;
    let lens_at_send = hook.st.lock().unwrap().lens_at_send.clone();
    s.reset();
    if !quiesced {
        r.inconclusive(&format!("case {}: task snapshot not written within 5 s of the terminal frame", case.idx));
    }

    // log view (wait until the terminal frame has been appended)
    let mut logv: Vec<Value> = Vec::new();
    let t2 = Instant::now();
    loop {
        let bytes = store.log_bytes_settled();
        match truth::parse_log(&bytes) {
            Ok(frames) => {
                if let Err(e) = truth::check_streams(&frames) {
                    r.violation(
                        &format!("C17/task_log/{}", e.kind),
                        &format!("task stream in events.jsonl is not seq 0,1,2,…: {}", e.detail),
                        wit.clone(),
                    );
                    return None;
                }
                logv = truth::stream(&frames, "task", &id).into_iter().map(|f| f.v.clone()).collect();
                if logv.iter().any(is_terminal_frame) {
                    break;
                }
            }
            Err(_) if t2.elapsed() < Duration::from_secs(2) => {}
            Err(e) => {
                r.violation(
                    &format!("C17/task_log/{}", e.kind),
                    &format!("events.jsonl is not whole JSON lines: {}", e.detail),
                    wit.clone(),
                );
                return None;
            }
        }
        if t2.elapsed() > Duration::from_secs(2) {
            break;
        }
        tokio::time::sleep(Duration::from_millis(2)).await;
    }

    r.eval();
    r.count("tasks_run", 1);
    r.count("task_frames_seen_log", logv.len() as u64);
    r.count("task_frames_seen_sse", sse.len() as u64);
    let cancel_ok = cancel_sent.load(Ordering::SeqCst);
    if cancel_ok {
        r.count("cancels_accepted", 1);
    }

    // ---- lifecycle grammar, on both views
    if grammar(r, "log", &logv, &id, case, cancel_ok, &wit) {
        return None;
    }
    let sse_complete = !sse_lost && sse.iter().enumerate().all(|(i, v)| v["seq"].as_u64() == Some(i as u64));
    if sse_complete {
        if grammar(r, "sse", &sse, &id, case, cancel_ok, &wit) {
            return None;
        }
        let key = |v: &Value| (v["seq"].as_u64(), v["id"].as_str().map(|x| x.to_string()), v["type"].as_str().map(|x| x.to_string()));
        let same = sse.len() == logv.len() && sse.iter().zip(logv.iter()).all(|(a, b)| key(a) == key(b) && a == b);
        if !same {
            r.violation(
                "C17/task/sse_view_differs_from_log_view",
                &format!("SSE delivered {} frames, events.jsonl holds {} for the task (or contents differ)", sse.len(), logv.len()),
                json!({"case": wit, "sse_types": types(&sse), "log_types": types(&logv)}),
            );
            return None;
        }
        r.count("sse_views_equal_to_log", 1);
    } else {
        // a frame lost at attach time is C06's concern (publish-before-record), not judged here
        r.count("sse_views_with_seq_gap_not_judged", 1);
    }

    let term = logv.last().cloned().unwrap_or(Value::Null);
    let term_status = term["status"].as_str().unwrap_or("").to_string();
    r.count(&format!("terminal_{term_status}"), 1);
    let mut shape = format!(
        "T|{}|{:?}|{}|att{}|L{:?}C{:?}|{}|{}|{}",
        case.plan.shape,
        case.class,
        match case.cancel {
            Cancel::None => "nocancel".to_string(),
            Cancel::AfterMs(_) => "cancel-delay".to_string(),
            Cancel::AtRecord(k) => format!("cancel@{}", k.min(3)),
            Cancel::AfterTailsSpawned(_) => "cancel-child+desc".to_string(),
            Cancel::AfterChildExit(_) => "cancel-desc-only".to_string(),
        },
        match case.attach {
            Attach::Immediately => 0,
            Attach::AfterMs(_) => 1,
            Attach::AfterTerminal => 2,
        },
        case.limit_arg,
        case.cap_arg,
        term_status,
        bucket(case.plan.out.len(), case.limit().min(READ_SIZE), case.cap()),
        bucket(case.plan.err.len(), case.limit().min(READ_SIZE), case.cap()),
    );

    // summary from GET /tasks/{id} must agree with the terminal frame
    if status_final["status"] != term["status"]
        || status_final["exit_code"] != term["exit_code"]
        || (!term["artifacts"].is_null() && status_final["artifacts"] != term["artifacts"])
    {
        r.violation(
            "C17/task/status_endpoint_differs_from_terminal_frame",
            "GET /tasks/{id} after the end disagrees with the terminal status frame (status / exit_code / artifacts)",
            json!({"case": wit, "endpoint": status_final, "frame": term}),
        );
        return None;
    }

    match case.class {
        Class::Normal => {}
        _ => {
            // failed only: handled by grammar(); nothing was captured
            return Some(Outcome { nontrivial: true, shape });
        }
    }
    if term_status == "failed" {
        r.violation(
            "C17/task/unexpected_failed",
            &format!("a runnable command ended `failed`: {}", term["error"]),
            json!({"case": wit, "terminal": term}),
        );
        return None;
    }
    let cancelled = term_status == "cancelled";
    if !cancelled && term["exit_code"].as_i64() != Some(case.plan.exit as i64) {
        r.violation(
            "C17/task/exit_code_differs",
            &format!("child exited with {}, terminal frame says {}", case.plan.exit, term["exit_code"]),
            json!({"case": wit, "terminal": term}),
        );
        return None;
    }
    if cancel_ok && !cancelled {
        r.count("cancel_accepted_but_task_exited_normally", 1);
    }
    let prog = progress.as_deref().and_then(read_progress);
    // ground truth with descendants: child's bytes, then the writing descendant's, per stream
    let tt = TailTruth::build(&case.plan, &case.tails, journals.as_ref());
    let t_term = term["timestamp_ms"].as_u64().unwrap_or(0);
    if has_tails {
        shape.push_str(&format!("|{}|{}", tails_shape(&case.tails), if case.plan.linger_ms > 0 { "childlingers" } else { "childgone" }));
        r.count("descendant_cases_judged_task", 1);
        if let Some(l) = &tails_note {
            r.count("descendants_started", l.tails_spawned as u64);
            r.count("descendants_killed_before_their_exit", l.tails_killed as u64);
        }
        // did the terminal frame come before or after the last descendant let go of the pipe?
        let last_exit = journals
            .as_ref()
            .map(|j| j.tails.iter().filter_map(|p| read_journal(p).iter().find(|r| r.kind == J_EXIT).map(|r| r.t_ms)).max().unwrap_or(0))
            .unwrap_or(0);
        if last_exit > 0 && t_term > 0 {
            r.count(if t_term + 20 >= last_exit { "terminal_status_after_last_descendant_exit" } else { "terminal_status_before_last_descendant_exit" }, 1);
        }
    }

    // ---- stored bytes, counters, ranges, previews
    let limit_eff = case.limit().min(READ_SIZE);
    let cap = case.cap();
    let mut any_gap = false;
    for (k, sname) in ["stdout", "stderr"].iter().enumerate() {
        let truth_b: &[u8] = &tt.full[k];
        let sum = &term["artifacts"]["logs"][*sname];
        let file = files.remove(*sname).unwrap_or_default();
        let early = files_early.get(*sname).cloned().unwrap_or_default();
        let w = |extra: Value| json!({"case": wit, "stream": sname, "summary": sum, "detail": extra});
        let total = sum["bytes_total"].as_u64().unwrap_or(u64::MAX);
        let stored = sum["bytes_stored"].as_u64().unwrap_or(u64::MAX);
        let want_stored_len = (truth_b.len().min(cap)) as u64;
        // (with descendants a summary that does not describe the stored log is reported as such, below)
        if !sum["error"].is_null() && !(has_tails && stored != file.len() as u64) {
            r.violation("C17/task/log_summary_error", &format!("{sname} summary carries an error: {}", sum["error"]), w(json!(null)));
            return None;
        }
        // prefix of the truth, byte for byte
        if file.len() > truth_b.len().min(cap) || file[..] != truth_b[..file.len()] {
            let at = file.iter().zip(truth_b.iter()).position(|(a, b)| a != b).unwrap_or(file.len().min(truth_b.len()));
            r.violation(
                "C17/task/stored_bytes_differ_from_written",
                &format!("{sname} log ({} bytes) is not a prefix of what the child wrote up to the cap {} (first difference at byte {at})", file.len(), cap),
                w(json!({"file_len": file.len(), "truth_len": truth_b.len(), "first_diff": at})),
            );
            return None;
        }
        if has_tails {
            // The terminal frame must describe the stored log for good: `file` was read after the last
            // process that held the pipe was gone, `early` when the terminal frame arrived.
            if stored != file.len() as u64 {
                r.violation(
                    "C17/task/terminal_summary_differs_from_stored_log",
                    &format!(
                        "{sname}: the terminal status frame says bytes_stored {stored}; the log held {} bytes when that frame arrived and holds {} bytes after the last descendant that kept the pipe open had exited (a descendant outlived the shell on the task's pipe)",
                        early.len(), file.len()
                    ),
                    w(json!({"len_when_terminal_received": early.len(), "len_after_descendants_exited": file.len(),
                             "log_grew_after_terminal_status": file.len() > early.len()})),
                );
                return None;
            }
            let (lo, hi) = if t_term > 0 { tt.bounds(k, t_term, STAMP_SLACK_MS) } else { (0, truth_b.len() as u64) };
            if total < lo {
                r.violation(
                    "C17/task/output_written_before_terminal_status_not_counted",
                    &format!(
                        "{sname}: child and descendants had written {lo} bytes at least {STAMP_SLACK_MS} ms before the terminal status frame was made, the frame counts {total}"
                    ),
                    w(json!({"written_before_terminal_at_least": lo, "written_at_most": hi, "truth_len": truth_b.len()})),
                );
                return None;
            }
            if total > hi || stored != total.min(cap as u64) || sum["truncated"] != json!(total > cap as u64) {
                r.violation(
                    "C17/task/summary_counters_differ_from_truth",
                    &format!("{sname}: between {lo} and {hi} bytes were written up to the terminal frame (cap {cap}) but the summary says total {total}, stored {stored}, truncated {}", sum["truncated"]),
                    w(json!({"written_before_terminal_at_least": lo, "written_at_most": hi})),
                );
                return None;
            }
            r.count(if total == truth_b.len() as u64 { "descendant_streams_stored_whole" } else { "descendant_streams_stored_up_to_terminal" }, 1);
            r.count("descendant_bytes_compared", (file.len().saturating_sub(case.plan.stream(sname).len().min(cap))) as u64);
        } else if !cancelled {
            if file.len() as u64 != want_stored_len {
                r.violation(
                    "C17/task/stored_bytes_incomplete",
                    &format!("{sname} log holds {} bytes, the child wrote {} (cap {})", file.len(), truth_b.len(), cap),
                    w(json!({"file_len": file.len(), "truth_len": truth_b.len()})),
                );
                return None;
            }
            if total != truth_b.len() as u64 || stored != want_stored_len || sum["truncated"] != json!(truth_b.len() > cap) {
                r.violation(
                    "C17/task/summary_counters_differ_from_truth",
                    &format!("{sname}: wrote {} (cap {cap}) but summary says total {total}, stored {stored}, truncated {}", truth_b.len(), sum["truncated"]),
                    w(json!(null)),
                );
                return None;
            }
        } else {
            let floor = prog.map(|p| if k == 0 { p.0 } else { p.1 }).unwrap_or(0);
            let ok = total <= truth_b.len() as u64
                && total >= floor
                && stored == total.min(cap as u64)
                && stored == file.len() as u64
                && sum["truncated"] == json!(total > cap as u64);
            if !ok {
                r.violation(
                    "C17/task/cancelled_counters_inconsistent",
                    &format!(
                        "{sname} after cancel: child had written ≥{floor} of {}, summary total {total}, stored {stored}, file {} bytes, truncated {}",
                        truth_b.len(), file.len(), sum["truncated"]
                    ),
                    w(json!({"progress_floor": floor})),
                );
                return None;
            }
        }
        r.count("stored_bytes_compared", file.len() as u64);
        // The file when the terminal frame arrived on the wire (client-observable) and, as evidence
        // only, at the instant it was published in-process.
        let at_publish = term["seq"].as_u64().and_then(|q| lens_at_send.get(&q)).map(|l| if k == 0 { l.0 } else { l.1 });
        if let Some(l) = at_publish {
            r.count(if l >= stored { "terminal_published_with_log_complete" } else { "terminal_published_with_last_write_in_flight" }, 1);
        }
        if (early.len() as u64) < stored.min(file.len() as u64) {
            r.violation(
                "C17/task/log_file_behind_received_frame",
                &format!(
                    "{sname}: when the terminal status frame arrived on the SSE stream the log file held {} bytes, the frame says bytes_stored {stored} (the bytes arrive later: TaskLogWriter never flushes/awaits its tokio file write before the frame is emitted; reading the output right after the frame returns a short log)",
                    early.len()
                ),
                w(json!({"len_when_terminal_received": early.len(), "len_when_terminal_published": at_publish,
                         "eventual_len": file.len(), "blocking_pool_kept_busy": case.starve})),
            );
            r.count(if case.starve { "terminal_received_before_bytes_in_file_pool_busy" } else { "terminal_received_before_bytes_in_file_pool_idle" }, 1);
            any_gap = true; // keep judging
        } else {
            r.count("terminal_received_with_log_complete", 1);
        }

        // delta frames of this stream
        let deltas: Vec<&Value> = logv
            .iter()
            .filter(|v| v["type"] == "tool_task_output_delta" && v["stream"] == *sname)
            .collect();
        r.count("delta_frames_judged", deltas.len() as u64);
        let mut prev_end = 0u64;
        let mut prev_total = 0u64;
        let mut gaps: Vec<(u64, u64)> = Vec::new();
        let mut rebuilt: Vec<u8> = Vec::new();
        for d in &deltas {
            let lg = &d["artifacts"]["log"];
            if !lg.is_object() {
                r.violation("C17/task/delta_without_range", &format!("{sname} delta frame carries no artifact range"), w(json!({"frame": d})));
                return None;
            }
            let off = lg["offset_bytes"].as_u64().unwrap_or(u64::MAX);
            let n = lg["bytes"].as_u64().unwrap_or(u64::MAX);
            let tot = lg["bytes_total"].as_u64().unwrap_or(0);
            let sto = lg["bytes_stored"].as_u64().unwrap_or(0);
            if lg["id"] != sum["id"] || lg["path"] != sum["path"] {
                r.violation("C17/task/delta_names_other_artifact", &format!("{sname} delta range names a different artifact than the stream's log"), w(json!({"frame": d})));
                return None;
            }
            if off < prev_end {
                r.violation(
                    "C17/task/delta_ranges_overlap",
                    &format!("{sname} delta range starts at {off}, previous range ended at {prev_end}"),
                    w(json!({"frame": d})),
                );
                return None;
            }
            if off > prev_end {
                gaps.push((prev_end, off));
            }
            if off.saturating_add(n) > file.len() as u64 || sto != off + n || tot < prev_total || tot < sto {
                r.violation(
                    "C17/task/delta_range_inconsistent",
                    &format!("{sname} delta range [{off}, +{n}) stored {sto} total {tot} does not fit the {}-byte log", file.len()),
                    w(json!({"frame": d})),
                );
                return None;
            }
            rebuilt.extend_from_slice(&file[off as usize..(off + n) as usize]);
            // range must be in the file when the frame reaches a subscriber
            if let Some(seq) = d["seq"].as_u64() {
                if let Some(l) = lens_at_send.get(&seq) {
                    let have = if k == 0 { l.0 } else { l.1 };
                    r.count(if have < off + n { "delta_published_with_write_in_flight" } else { "delta_published_with_range_in_file" }, 1);
                }
                if let Some(have) = len_at_receive.get(&seq) {
                    if *have < off + n {
                        r.violation(
                            "C17/task/log_file_behind_received_frame",
                            &format!(
                                "{sname}: delta frame names range [{off}, {}) but the log file held only {have} bytes when the frame arrived on the SSE stream (TaskLogWriter never flushes/awaits its tokio file write before the frame is emitted)",
                                off + n
                            ),
                            w(json!({"frame_seq": seq, "len_at_receive": have, "blocking_pool_kept_busy": case.starve})),
                        );
                        r.count(if case.starve { "delta_received_before_bytes_in_file_pool_busy" } else { "delta_received_before_bytes_in_file_pool_idle" }, 1);
                        any_gap = true;
                    } else {
                        r.count("delta_received_with_range_in_file", 1);
                    }
                }
            }
            // inline preview: prefix of the chunk it stands for, within its own limit
            let chunk = d["chunk"].as_str().unwrap_or("");
            let start_n: Option<(u64, u64)> = if lg["truncated"] == json!(false) {
                Some((off, n))
            } else if limit_eff >= READ_SIZE {
                Some((prev_total, tot - prev_total))
            } else {
                None
            };
            if let Some((st, len)) = start_n {
                let a = (st as usize).min(truth_b.len());
                let b = (a + (len as usize).min(limit_eff)).min(truth_b.len());
                let want = lossy(&truth_b[a..b]);
                let got = chunk.strip_suffix('\u{FFFD}').unwrap_or(chunk);
                if !(want.starts_with(got) || want.starts_with(chunk)) {
                    r.violation(
                        "C17/task/delta_preview_not_prefix_of_its_range",
                        &format!("{sname} delta preview is not a prefix (within min(max_bytes, 8192) = {limit_eff} bytes) of the bytes read at {st}"),
                        w(json!({"frame": d, "want_head": want.chars().take(40).collect::<String>()})),
                    );
                    return None;
                }
                r.count("delta_previews_checked", 1);
            }
            prev_end = off + n;
            prev_total = tot;
        }
        if prev_end < file.len() as u64 {
            gaps.push((prev_end, file.len() as u64));
        }
        if gaps.is_empty() {
            if rebuilt != file {
                r.violation("C17/task/delta_ranges_do_not_reproduce_log", &format!("{sname}: concatenating the ranges named by the delta frames does not give the stored log"), w(json!(null)));
                return None;
            }
            r.count("streams_reproduced_from_delta_ranges", 1);
        } else {
            any_gap = true;
            // explained by "read whose preview is empty emits no frame"?
            let explained = gaps.iter().all(|(a, b)| {
                if limit_eff == 0 {
                    return true;
                }
                let _ = b;
                let a = *a as usize;
                if limit_eff >= READ_SIZE || truth_b.len().saturating_sub(a) <= limit_eff {
                    return false;
                }
                let head = &truth_b[a..(a + limit_eff).min(truth_b.len())];
                match std::str::from_utf8(head) {
                    Ok(_) => false,
                    Err(e) => e.valid_up_to() == 0,
                }
            });
            let (sig, what) = if explained {
                (
                    "C17/task/delta_ranges_gap/read_with_empty_preview_emits_no_frame",
                    format!(
                        "{sname}: the ranges named by the output frames do not cover the stored log (gaps {:?} of {} bytes; max_bytes {}): a read \
                         whose preview is empty (limit 0, limit smaller than the first character, or invalid UTF-8 at the start of a chunk larger \
                         than the limit) is stored but no tool_task_output_delta frame is emitted for it",
                        &gaps[..gaps.len().min(4)], file.len(), case.limit()
                    ),
                )
            } else {
                (
                    "C17/task/delta_ranges_gap/unexplained",
                    format!("{sname}: delta ranges leave gaps {:?} in the {}-byte log", &gaps[..gaps.len().min(4)], file.len()),
                )
            };
            r.violation(sig, &what, w(json!({"gaps": gaps.iter().take(8).collect::<Vec<_>>(), "frames": deltas.len()})));
        }

        // ---- page reads
        let mut prng = Rng::derive(case.page_seed, k as u64);
        for wno in 0..case.walks {
            let (mut sizes, mut style) = page_sizes(&mut prng, file.len(), 120);
            if let (Some(fp), 0) = (case.force_page, wno) {
                sizes = vec![fp];
                style = format!("forced{fp}");
            }
            let mut pages: Vec<Page> = Vec::new();
            let mut off = 0u64;
            let mut i = 0usize;
            loop {
                let max = sizes[i % sizes.len()];
                i += 1;
                let Some(p) = fetch(&app, &id, sname, Some(off), Some(max)).await else {
                    r.violation("C17/task_output/request_failed", &format!("GET /tasks/{{id}}/output?stream={sname}&offset_bytes={off}&max_bytes={max} did not answer 200 with a body"), w(json!(null)));
                    return None;
                };
                let adv = p.bytes;
                pages.push(p);
                off += adv;
                if adv == 0 || off >= file.len() as u64 || pages.len() > 400 {
                    break;
                }
            }
            if judge_walk(r, "task_output", &file, &pages, &json!({"case": wit, "stream": sname, "walk": wno, "style": style})) {
                any_gap = true;
                break;
            }
            if wno == 0 {
                shape.push_str(&format!("|pg:{style}"));
            }
        }
        // random access, incl. at and past the end, and max_bytes 0
        for _ in 0..3 {
            let off = match prng.below(4) {
                0 => file.len() as u64,
                1 => file.len() as u64 + 1 + prng.below(100),
                _ => prng.below(file.len() as u64 + 1),
            };
            let max = *prng.pick(&[0usize, 1, 3, 4, 100, 8192, 100_000]);
            if let Some(p) = fetch(&app, &id, sname, Some(off), Some(max)).await {
                if judge_random(r, "task_output", &file, &p, &json!({"case": wit, "stream": sname})) {
                    break;
                }
            } else {
                r.violation("C17/task_output/request_failed", &format!("range read at offset {off} max_bytes {max} failed"), w(json!(null)));
                break;
            }
        }
    }
    let _ = any_gap;
    let nontrivial = case.plan.out.len() + case.plan.err.len() > 0;
    Some(Outcome { nontrivial, shape })
}

async fn fetch(app: &App, id: &str, stream: &str, off: Option<u64>, max: Option<usize>) -> Option<Page> {
    let mut q = format!("/tasks/{id}/output?stream={stream}");
    if let Some(o) = off {
        q.push_str(&format!("&offset_bytes={o}"));
    }
    if let Some(m) = max {
        q.push_str(&format!("&max_bytes={m}"));
    }
    let (st, v) = app.json("GET", &q, None).await;
    if st != 200 || !v.is_object() {
        return None;
    }
    Some(Page {
        req_offset: off.unwrap_or(0),
        req_max: max.unwrap_or(DEFAULT_LIMIT),
        content: v["content"].as_str()?.to_string(),
        offset: v["offset_bytes"].as_u64()?,
        bytes: v["bytes"].as_u64()?,
        total: v["total_bytes"].as_u64()?,
        truncated: v["truncated"].as_bool()?,
    })
}

fn types(frames: &[Value]) -> Vec<String> {
    frames
        .iter()
        .map(|v| {
            let t = v["type"].as_str().unwrap_or("?").trim_start_matches("tool_task_").to_string();
            if t == "status" {
                format!("status:{}", v["status"].as_str().unwrap_or("?"))
            } else {
                t
            }
        })
        .collect()
}

/// spawned · running? · (delta | cancel_requested)* · cancelled? · status(terminal). Returns true on violation.
fn grammar(r: &mut Report, view: &str, frames: &[Value], id: &str, case: &TaskCase, cancel_sent: bool, wit: &Value) -> bool {
    let ty = types(frames);
    let mut bad: Option<(&'static str, String)> = None;
    let mut fail = |k: &'static str, m: String| {
        if bad.is_none() {
            bad = Some((k, m));
        }
    };
    if frames.is_empty() {
        fail("no_frames", "the task stream is empty".into());
    }
    for (i, v) in frames.iter().enumerate() {
        if v["seq"].as_u64() != Some(i as u64) {
            fail("seq_not_consecutive", format!("frame {i} has seq {}", v["seq"]));
        }
        if v["task_id"] != json!(id) || v["session_id"] != json!(id) || v["stream_kind"] != "task" {
            fail("frame_of_other_stream", format!("frame {i} does not belong to task {id}"));
        }
    }
    let n = ty.len();
    let n_term = frames.iter().filter(|v| is_terminal_frame(v)).count();
    if n_term == 0 {
        fail("no_terminal_status", "no terminal status frame".into());
    } else if n_term > 1 {
        fail("more_than_one_terminal_status", format!("{n_term} terminal status frames"));
    }
    if n > 0 && !is_terminal_frame(&frames[n - 1]) {
        fail("frame_after_terminal_status", format!("the stream does not end with its terminal status: {:?}", &ty[n.saturating_sub(4)..]));
    }
    let failing_class = case.class != Class::Normal;
    let last_status = frames.last().map(|v| v["status"].as_str().unwrap_or("").to_string()).unwrap_or_default();
    if failing_class {
        // `failed` terminal only (a spawn frame may precede it; invalid args are refused before spawning)
        let ok = ty == ["status:failed"] || ty == ["spawned", "status:failed"];
        if !ok {
            fail("failure_class_not_failed_only", format!("invalid args / spawn failure must give (spawned ·)? failed, got {ty:?}"));
        } else if ty.len() == 1 {
            r.count("refused_before_spawn_stream_has_no_spawn_frame", 1);
        }
        if ok && frames.last().map(|v| v["error"].is_null()).unwrap_or(true) {
            fail("failed_without_error", "failed status without an error text".into());
        }
    } else if n > 0 {
        if ty[0] != "spawned" {
            fail("first_frame_not_spawned", format!("stream opens with {}", ty[0]));
        }
        if ty.iter().filter(|t| *t == "spawned").count() > 1 {
            fail("spawned_twice", "more than one spawn frame".into());
        }
        let running: Vec<usize> = ty.iter().enumerate().filter(|(_, t)| *t == "status:running").map(|(i, _)| i).collect();
        if running.len() > 1 {
            fail("running_more_than_once", format!("running reported {} times", running.len()));
        }
        if let Some(&i) = running.first() {
            if i != 1 {
                fail("running_not_after_spawn", format!("running at position {i}"));
            }
        }
        let req: Vec<usize> = ty.iter().enumerate().filter(|(_, t)| *t == "cancel_requested").map(|(i, _)| i).collect();
        let cancelled: Vec<usize> = ty.iter().enumerate().filter(|(_, t)| *t == "cancelled").map(|(i, _)| i).collect();
        if cancelled.len() > 1 {
            fail("cancelled_more_than_once", "several cancelled frames".into());
        }
        if let Some(&c) = cancelled.first() {
            if req.is_empty() || req[0] > c {
                fail("cancelled_before_cancel_requested", format!("cancelled at {c}, cancel_requested at {req:?}"));
            }
            if c + 2 != n {
                fail("cancelled_not_directly_before_terminal", format!("cancelled at {c} of {n} frames"));
            }
            if last_status != "cancelled" {
                fail("cancelled_frame_but_terminal_not_cancelled", format!("terminal is {last_status}"));
            }
        }
        if last_status == "cancelled" && req.is_empty() {
            fail("cancelled_status_without_cancel_requested", "terminal status cancelled but no cancel_requested frame".into());
        }
        if !req.is_empty() && !cancel_sent && case.cancel == Cancel::None {
            fail("cancel_requested_never_asked", "cancel_requested frame although nobody cancelled".into());
        }
        for (i, t) in ty.iter().enumerate() {
            let ok = matches!(t.as_str(), "spawned" | "status:running" | "output_delta" | "cancel_requested" | "cancelled")
                || (i + 1 == n && t.starts_with("status:"));
            if !ok {
                fail("unexpected_frame", format!("frame {i} is {t}"));
            }
            if t == "output_delta" && !running.first().map(|r| *r < i).unwrap_or(false) {
                fail("output_before_running", format!("delta at {i} before running"));
            }
        }
    }
    if let Some((k, m)) = bad {
        r.violation(
            &format!("C17/task_grammar/{k}"),
            &format!("[{view} view] {m}"),
            json!({"case": wit, "view": view, "frame_types": ty.iter().take(40).collect::<Vec<_>>(), "frames": n}),
        );
        return true;
    }
    r.count(&format!("lifecycles_judged_{view}"), 1);
    false
}
