//! C17 shell-tool oracle: rip_tools::register_builtin_tools + ToolRunner::run("bash" / "shell").

use super::emit::{bucket, gen_plan, gen_tails, lossy, tails_shape, wait_all_over, Journals, Plan, Tail, TailTruth};
use super::pages::{judge_random, judge_walk, page_sizes, Page};
use crate::fixture::{scratch_root, sha256_hex};
use crate::prng::Rng;
use crate::report::{Cfg, Report};
use rip_tools::{register_builtin_tools, BuiltinToolConfig, ToolInvocation, ToolRegistry, ToolRunner};
use serde_json::{json, Value};
use std::path::PathBuf;
use std::sync::atomic::{AtomicBool, AtomicU64, Ordering};
use std::sync::Arc;
use std::time::Duration;

static NEXT: AtomicU64 = AtomicU64::new(0);

#[derive(Clone, Debug, PartialEq)]
pub enum ShClass {
    Normal,
    InvalidArgs(u8),
    SpawnFail(u8),
}

pub struct ShellCase {
    pub idx: u64,
    pub label: String,
    pub tool: &'static str,
    pub cfg_limit: usize,
    pub arg_limit: Option<usize>,
    pub cap: usize,
    pub class: ShClass,
    pub plan: Plan,
    pub cwd: bool,
    pub env: bool,
    pub walks: usize,
    pub page_seed: u64,
    pub starve: bool,
    pub force_page: Option<usize>,
    /// descendants of the child that keep the pipes open after it (`cmd &` style background writers)
    pub tails: Vec<Tail>,
}

/// Clock slack when a journal time stamp (descendant) is compared with a frame time stamp.
const STAMP_SLACK_MS: u64 = 20;

impl ShellCase {
    pub fn limit(&self) -> usize {
        self.arg_limit.unwrap_or(self.cfg_limit)
    }
    pub fn describe(&self) -> Value {
        json!({
            "case": self.idx, "kind": "shell", "label": self.label, "tool": self.tool,
            "config_max_bytes": self.cfg_limit, "arg_max_bytes": self.arg_limit,
            "config_artifact_max_bytes": self.cap, "class": format!("{:?}", self.class),
            "stdout_len": self.plan.out.len(), "stderr_len": self.plan.err.len(),
            "writes": self.plan.ops.len(), "exit": self.plan.exit, "shape": self.plan.shape,
            "starve_blocking_pool": self.starve,
            "stdout_head_hex": hex::encode(&self.plan.out[..self.plan.out.len().min(24)]),
            "descendants": self.tails.iter().map(|t| t.describe()).collect::<Vec<_>>(),
        })
    }
}

pub fn gen_case(cfg: &Cfg, rng: &mut Rng, idx: u64) -> ShellCase {
    const LIMITS: &[usize] = &[0, 1, 2, 3, 4, 5, 16, 100, 1000, 4096, 8191, 8192, 8193, 20000, 512 * 1024];
    let cfg_limit = *rng.pick(LIMITS);
    let arg_limit = if rng.chance(1, 3) { Some(*rng.pick(LIMITS)) } else { None };
    let cap = *rng.pick(&[0usize, 1, 100, 4096, 8192, 8193, 10000, 20000, 50000, 16 * 1024 * 1024]);
    let limit = arg_limit.unwrap_or(cfg_limit);
    let max_size = cfg.tier.pick(70_000usize, 400_000usize);
    let plan = gen_plan(rng, limit, cap, max_size, cfg.tier.pick(150, 400));
    let class = match rng.below(25) {
        0 => ShClass::InvalidArgs(rng.below(3) as u8),
        1 => ShClass::SpawnFail(rng.below(3) as u8),
        _ => ShClass::Normal,
    };
    let mut trng = Rng::derive(rng.clone().next_u64(), 0x7A11);
    let tails = if class == ShClass::Normal && trng.chance(1, 90) { gen_tails(&mut trng) } else { Vec::new() };
    ShellCase {
        idx,
        label: "random".into(),
        tool: if rng.chance(1, 3) { "shell" } else { "bash" },
        cfg_limit,
        arg_limit,
        cap,
        class,
        plan,
        cwd: rng.chance(1, 6),
        env: rng.chance(1, 6),
        walks: 2,
        page_seed: rng.next_u64(),
        starve: false,
        force_page: None,
        tails,
    }
}

pub struct Outcome {
    pub nontrivial: bool,
    pub shape: String,
}

/// `str::lines` + trailing-CR trimming, joined with "\n" (what the tool does to a preview).
fn norm_lines(s: &str) -> String {
    s.lines().map(|l| l.trim_end_matches('\r')).collect::<Vec<_>>().join("\n")
}

pub async fn run_case(r: &mut Report, case: &ShellCase) -> Option<Outcome> {
    let wit = case.describe();
    let n = NEXT.fetch_add(1, Ordering::Relaxed);
    let dir: PathBuf = scratch_root().join(format!("c17s-{n}"));
    let ws = dir.join("ws");
    let _ = std::fs::create_dir_all(ws.join("sub dir"));
    struct Rm(PathBuf);
    impl Drop for Rm {
        fn drop(&mut self) {
            let _ = std::fs::remove_dir_all(&self.0);
        }
    }
    let _rm = Rm(dir.clone());

    let config = BuiltinToolConfig {
        workspace_root: ws.clone(),
        artifact_max_bytes: case.cap,
        max_bytes: case.cfg_limit,
        max_results: 100,
        max_depth: 8,
        follow_symlinks: false,
        include_hidden: false,
    };
    let registry = Arc::new(ToolRegistry::default());
    register_builtin_tools(&registry, config.clone());
    let runner = ToolRunner::new(registry, 4);

    let has_tails = !case.tails.is_empty();
    let (command, journals): (String, Option<Journals>) = if has_tails {
        let (c, _, j) = case.plan.command_with_tails(&dir, "shell", false, &case.tails);
        (c, Some(j))
    } else {
        (case.plan.command(&dir, "shell", false).0, None)
    };
    let mut args = json!({"command": command});
    if let Some(l) = case.arg_limit {
        args["max_bytes"] = json!(l);
    }
    if case.cwd {
        args["cwd"] = json!("sub dir");
    }
    if case.env {
        args["env"] = json!({"RV_C17": "x y", "LC_ALL": "C"});
    }
    match &case.class {
        ShClass::Normal => {}
        ShClass::InvalidArgs(k) => {
            args = match k {
                0 => json!({"cmd": "echo hi"}),
                1 => json!({"command": ["echo", "hi"]}),
                _ => json!({"command": "echo hi", "max_bytes": "many"}),
            }
        }
        ShClass::SpawnFail(k) => {
            args["cwd"] = match k {
                0 => json!("does/not/exist"),
                1 => json!("/tmp"),
                _ => json!("../outside"),
            }
        }
    }

    let stop = Arc::new(AtomicBool::new(false));
    let mut starvers = Vec::new();
    if case.starve {
        for _ in 0..2 {
            let stop = stop.clone();
            starvers.push(tokio::spawn(async move {
                while !stop.load(Ordering::Relaxed) {
                    let _ = tokio::task::spawn_blocking(|| std::thread::sleep(Duration::from_millis(4))).await;
                }
            }));
        }
        tokio::time::sleep(Duration::from_millis(5)).await;
    }

    let mut seq = 0u64;
    let inv = ToolInvocation {
        name: case.tool.to_string(),
        args,
        timeout_ms: None,
    };
    let run = tokio::time::timeout(Duration::from_secs(30), runner.run("c17", &mut seq, inv)).await;
    let events = match run {
        Ok(e) => e,
        Err(_) => {
            stop.store(true, Ordering::Relaxed);
            r.inconclusive(&format!("case {}: ToolRunner::run did not return within 30 s", case.idx));
            return None;
        }
    };
    let frames: Vec<Value> = events.iter().filter_map(|e| serde_json::to_value(e).ok()).collect();
    let ended = frames.iter().find(|v| v["type"] == "tool_ended").cloned();
    // blobs at the instant the tool returned
    let blob_path = |sname: &str| -> Option<PathBuf> {
        ended.as_ref()?["artifacts"][sname]["artifact"]["id"].as_str().map(|id| ws.join(".rip/artifacts/blobs").join(id))
    };
    let early: Vec<Option<Vec<u8>>> = ["stdout", "stderr"].iter().map(|s| blob_path(s).and_then(|p| std::fs::read(p).ok())).collect();
    // Pipe lifetime ≠ process lifetime: judge what is left once the last descendant that held a pipe is
    // gone (whatever a detached reader would still do has been done by then).
    if let Some(j) = &journals {
        let longest = case.tails.iter().map(|t| t.life_ms()).max().unwrap_or(0) + case.plan.linger_ms;
        let l = wait_all_over(j, Duration::from_millis(longest + 4000)).await;
        if !l.all_over {
            stop.store(true, Ordering::Relaxed);
            r.inconclusive(&format!("case {}: descendants still alive {} ms after the tool returned", case.idx, longest + 4000));
            return None;
        }
        tokio::time::sleep(Duration::from_millis(150)).await;
        r.count("descendants_started", l.tails_spawned as u64);
    }
    stop.store(true, Ordering::Relaxed);
    for h in starvers {
        let _ = h.await;
    }

    r.eval();
    r.count("shell_runs", 1);
    r.count("shell_frames_seen", frames.len() as u64);
    let Some(ended) = ended else {
        r.violation(
            "C17/shell/no_tool_ended",
            "ToolRunner::run produced no tool_ended frame for a bash/shell call without timeout",
            json!({"case": wit, "types": frames.iter().map(|v| v["type"].clone()).collect::<Vec<_>>()}),
        );
        return None;
    };
    let n_end = frames.iter().filter(|v| v["type"] == "tool_ended" || v["type"] == "tool_failed").count();
    if frames.first().map(|v| v["type"] != "tool_started").unwrap_or(true)
        || n_end != 1
        || frames.last().map(|v| v["type"] != "tool_ended").unwrap_or(true)
        || frames.iter().enumerate().any(|(i, v)| v["seq"].as_u64() != Some(i as u64))
    {
        r.violation(
            "C17/shell/frame_sequence_malformed",
            "tool frames are not started · stdout* · stderr* · ended with seq 0,1,2,…",
            json!({"case": wit, "types": frames.iter().map(|v| v["type"].clone()).collect::<Vec<_>>()}),
        );
        return None;
    }
    let lines = |ty: &str| -> Vec<String> {
        frames.iter().filter(|v| v["type"] == ty).map(|v| v["chunk"].as_str().unwrap_or("").to_string()).collect()
    };
    let exit = ended["exit_code"].as_i64().unwrap_or(i64::MIN);
    let mut shape = format!(
        "S|{}|{:?}|{}|cfgL{}argL{:?}C{}|{}|{}",
        case.plan.shape,
        case.class,
        case.tool,
        case.cfg_limit,
        case.arg_limit,
        case.cap,
        bucket(case.plan.out.len(), case.limit(), case.cap),
        bucket(case.plan.err.len(), case.limit(), case.cap),
    );
    if case.class != ShClass::Normal {
        let want_exit = if matches!(case.class, ShClass::InvalidArgs(_)) { 2 } else { 1 };
        if exit != want_exit || !ended["artifacts"].is_null() || !lines("tool_stdout").is_empty() || lines("tool_stderr").is_empty() {
            r.violation(
                "C17/shell/refused_call_not_failed_only",
                &format!("invalid args / unusable cwd must end with exit {want_exit}, an error text and no captured output; got exit {exit}"),
                json!({"case": wit, "ended": ended, "stderr": lines("tool_stderr")}),
            );
            return None;
        }
        r.count("shell_refusals_judged", 1);
        return Some(Outcome { nontrivial: true, shape });
    }
    if exit != case.plan.exit as i64 {
        r.violation(
            "C17/shell/exit_code_differs",
            &format!("child exited with {}, tool_ended says {exit}", case.plan.exit),
            json!({"case": wit, "ended": ended}),
        );
        return None;
    }

    let limit = case.limit();
    // ground truth with descendants: child's bytes, then the writing descendant's, per stream
    let tt = TailTruth::build(&case.plan, &case.tails, journals.as_ref());
    let t_end = ended["timestamp_ms"].as_u64().unwrap_or(0);
    if has_tails {
        shape.push_str(&format!("|{}", tails_shape(&case.tails)));
        r.count("descendant_cases_judged_shell", 1);
    }
    for (k, sname) in ["stdout", "stderr"].iter().enumerate() {
        let truth_full: &[u8] = &tt.full[k];
        let a = &ended["artifacts"][*sname];
        let w = |extra: Value| json!({"case": wit, "stream": sname, "capture": a, "detail": extra});
        if !a["error"].is_null() {
            r.violation("C17/shell/capture_error", &format!("{sname} capture reports an error: {}", a["error"]), w(json!(null)));
            return None;
        }
        let total = a["bytes_total"].as_u64().unwrap_or(u64::MAX);
        let bprev = a["bytes_preview"].as_u64().unwrap_or(u64::MAX);
        let truncated = a["truncated"].as_bool().unwrap_or(false);
        // Without descendants: everything the child wrote. With descendants: everything written up to
        // the tool_ended frame (bounds from the writers' own journals).
        let (lo, hi) = if has_tails && t_end > 0 { tt.bounds(k, t_end, STAMP_SLACK_MS) } else { (truth_full.len() as u64, truth_full.len() as u64) };
        if total < lo || total > hi {
            r.violation(
                "C17/shell/bytes_total_differs_from_written",
                &if has_tails {
                    format!("{sname}: child and descendants wrote between {lo} and {hi} bytes up to the tool_ended frame, bytes_total says {total}")
                } else {
                    format!("{sname}: child wrote {} bytes, bytes_total says {total}", truth_full.len())
                },
                w(json!(null)),
            );
            return None;
        }
        let truth_b: &[u8] = &truth_full[..(total as usize).min(truth_full.len())];
        if has_tails {
            r.count(if total == truth_full.len() as u64 { "descendant_streams_captured_whole" } else { "descendant_streams_captured_up_to_tool_ended" }, 1);
        }
        if bprev > limit as u64 || bprev > total {
            r.violation(
                "C17/shell/preview_exceeds_limit",
                &format!("{sname}: bytes_preview {bprev} with limit {limit} and {total} bytes written"),
                w(json!(null)),
            );
            return None;
        }
        if truncated != (truth_b.len() > limit) {
            r.violation(
                "C17/shell/truncated_flag_wrong",
                &format!("{sname}: wrote {} bytes with preview limit {limit} but truncated={truncated}", truth_b.len()),
                w(json!(null)),
            );
            return None;
        }
        // preview: prefix (not equality) of the lossy rendering, modulo a cut character and CRLF
        let joined = lines(if k == 0 { "tool_stdout" } else { "tool_stderr" }).join("\n");
        // tolerate an implementation that keeps the empty line after a final newline
        let joined = joined.trim_end_matches('\n').to_string();
        let got = joined.strip_suffix('\u{FFFD}').unwrap_or(&joined);
        let want_all = norm_lines(&lossy(truth_b));
        let want_lim = norm_lines(&lossy(&truth_b[..truth_b.len().min(limit)]));
        let is_prefix = want_all.starts_with(got) || want_all.starts_with(&joined);
        let within = want_lim.starts_with(got) || want_lim.starts_with(&joined);
        if !is_prefix || !within {
            let at = got.bytes().zip(want_all.bytes()).position(|(x, y)| x != y).unwrap_or(got.len().min(want_all.len()));
            r.violation(
                "C17/shell/preview_not_prefix_of_output",
                &format!("{sname}: the preview lines are not a prefix of the (lossy, CRLF-normalised) output within the limit {limit} (first difference near byte {at})"),
                w(json!({"preview_head": joined.chars().take(60).collect::<String>(), "want_head": want_all.chars().take(60).collect::<String>()})),
            );
            return None;
        }
        if !truncated && joined != want_all.trim_end_matches('\n') {
            r.violation(
                "C17/shell/untruncated_preview_incomplete",
                &format!("{sname}: truncated=false and no artifact, but the preview is not the whole output"),
                w(json!({"preview_len": joined.len(), "want_len": want_all.len()})),
            );
            return None;
        }
        r.count("shell_previews_checked", 1);
        r.count("shell_preview_bytes", bprev);

        // artifact
        let art = &a["artifact"];
        let want_art = truncated && case.cap > 0;
        if art.is_object() != want_art {
            r.violation(
                if want_art { "C17/shell/artifact_missing_for_truncated_output" } else { "C17/shell/artifact_for_untruncated_output" },
                &format!("{sname}: truncated={truncated}, artifact cap {} but artifact is {}", case.cap, if art.is_object() { "present" } else { "absent" }),
                w(json!(null)),
            );
            return None;
        }
        if !want_art {
            continue;
        }
        let id = art["id"].as_str().unwrap_or("").to_string();
        let path = ws.join(art["path"].as_str().unwrap_or("?"));
        let want_blob = &truth_b[..truth_b.len().min(case.cap)];
        // eventual content (an unflushed tail may still be in flight)
        let mut blob = std::fs::read(&path).unwrap_or_default();
        let t = std::time::Instant::now();
        while blob.len() < want_blob.len() && t.elapsed() < Duration::from_millis(800) {
            tokio::time::sleep(Duration::from_millis(2)).await;
            blob = std::fs::read(&path).unwrap_or_default();
        }
        if blob != want_blob {
            let at = blob.iter().zip(want_blob.iter()).position(|(x, y)| x != y).unwrap_or(blob.len().min(want_blob.len()));
            r.violation(
                "C17/shell/blob_differs_from_written_prefix",
                &format!("{sname}: blob has {} bytes, expected the first {} bytes written (first difference at {at})", blob.len(), want_blob.len()),
                w(json!({"blob_len": blob.len(), "want_len": want_blob.len(), "first_diff": at})),
            );
            return None;
        }
        if art["bytes"].as_u64() != Some(blob.len() as u64)
            || art["truncated"] != json!(truth_b.len() > case.cap)
            || path != ws.join(".rip/artifacts/blobs").join(&id)
        {
            r.violation(
                "C17/shell/artifact_ref_inconsistent",
                &format!("{sname}: artifact ref (bytes {}, truncated {}, path {}) does not describe the {}-byte blob", art["bytes"], art["truncated"], art["path"], blob.len()),
                w(json!(null)),
            );
            return None;
        }
        if id != sha256_hex(&blob) {
            r.violation(
                "C17/shell/artifact_id_not_hash_of_bytes",
                &format!("{sname}: artifact id {id} is not sha256 of the blob ({})", sha256_hex(&blob)),
                w(json!(null)),
            );
            return None;
        }
        r.count("shell_blobs_verified", 1);
        r.count("shell_blob_bytes_compared", blob.len() as u64);
        match &early[k] {
            Some(e) if e.len() == blob.len() => r.count("shell_blobs_complete_when_tool_returned", 1),
            other => {
                let have = other.as_ref().map(|e| e.len()).unwrap_or(0);
                r.violation(
                    "C17/shell/blob_incomplete_when_tool_returns",
                    &format!(
                        "{sname}: when ToolRunner::run returned, the blob held {have} of its {} bytes (capture_stream never flushes the \
                         tokio file before the rename: the last write is still in flight)",
                        blob.len()
                    ),
                    w(json!({"len_at_return": have, "eventual_len": blob.len(), "starved_pool": case.starve})),
                );
            }
        }

        // artifact_fetch pages
        let mut prng = Rng::derive(case.page_seed, k as u64);
        for wno in 0..case.walks {
            let (mut sizes, mut style) = page_sizes(&mut prng, blob.len(), 100);
            if let (Some(fp), 0) = (case.force_page, wno) {
                sizes = vec![fp];
                style = format!("forced{fp}");
            }
            let mut pages = Vec::new();
            let mut off = 0u64;
            let mut i = 0usize;
            loop {
                let max = sizes[i % sizes.len()];
                i += 1;
                let Some(p) = fetch(&runner, &id, Some(off), Some(max)).await else {
                    r.violation("C17/artifact_fetch/request_failed", &format!("artifact_fetch id={id} offset_bytes={off} max_bytes={max} failed"), w(json!(null)));
                    return None;
                };
                let adv = p.bytes;
                pages.push(p);
                off += adv;
                if adv == 0 || off >= blob.len() as u64 || pages.len() > 400 {
                    break;
                }
            }
            if judge_walk(r, "artifact_fetch", &blob, &pages, &json!({"case": wit, "stream": sname, "walk": wno, "style": style})) {
                break;
            }
            if wno == 0 {
                shape.push_str(&format!("|pg:{style}"));
            }
        }
        for _ in 0..2 {
            let off = match prng.below(4) {
                0 => blob.len() as u64,
                1 => blob.len() as u64 + 1 + prng.below(100),
                _ => prng.below(blob.len() as u64 + 1),
            };
            let max = *prng.pick(&[1usize, 3, 4, 100, 8192, 100_000]);
            match fetch(&runner, &id, Some(off), Some(max)).await {
                Some(p) => {
                    if judge_random(r, "artifact_fetch", &blob, &p, &json!({"case": wit, "stream": sname})) {
                        break;
                    }
                }
                None => {
                    r.violation("C17/artifact_fetch/request_failed", &format!("artifact_fetch at offset {off} max_bytes {max} failed"), w(json!(null)));
                    break;
                }
            }
        }
    }
    // nothing may be left in the spill directory
    let tmp_left = std::fs::read_dir(ws.join(".rip/artifacts/tmp")).map(|d| d.count()).unwrap_or(0);
    if tmp_left > 0 {
        r.count("shell_spill_files_left_behind", tmp_left as u64);
    }
    let nontrivial = case.plan.out.len() + case.plan.err.len() > 0;
    Some(Outcome { nontrivial, shape })
}

async fn fetch(runner: &ToolRunner, id: &str, off: Option<u64>, max: Option<usize>) -> Option<Page> {
    let mut args = json!({"id": id});
    if let Some(o) = off {
        args["offset_bytes"] = json!(o);
    }
    if let Some(m) = max {
        args["max_bytes"] = json!(m);
    }
    let mut seq = 0u64;
    let ev = runner
        .run("c17", &mut seq, ToolInvocation { name: "artifact_fetch".into(), args, timeout_ms: None })
        .await;
    let frames: Vec<Value> = ev.iter().filter_map(|e| serde_json::to_value(e).ok()).collect();
    let ended = frames.iter().find(|v| v["type"] == "tool_ended")?;
    if ended["exit_code"].as_i64() != Some(0) {
        return None;
    }
    let content: String = frames
        .iter()
        .filter(|v| v["type"] == "tool_stdout")
        .map(|v| v["chunk"].as_str().unwrap_or(""))
        .collect::<Vec<_>>()
        .join("");
    let a = &ended["artifacts"];
    Some(Page {
        req_offset: off.unwrap_or(0),
        req_max: max.unwrap_or(0),
        content,
        offset: a["offset_bytes"].as_u64()?,
        bytes: a["bytes"].as_u64()?,
        total: a["total_bytes"].as_u64()?,
        truncated: a["truncated"].as_bool()?,
    })
}
