//! Verdict plumbing: evidence file, known-findings matching, VIOLATION / KNOWN-FINDING lines.

use serde_json::{json, Map, Value};
use std::collections::{BTreeMap, HashSet};
use std::path::{Path, PathBuf};
use std::time::Instant;

#[derive(Clone, Copy, Debug, PartialEq, Eq)]
pub enum Tier {
    Quick,
    Thorough,
}

impl Tier {
    pub fn as_str(&self) -> &'static str {
        match self {
            Tier::Quick => "quick",
            Tier::Thorough => "thorough",
        }
    }
    pub fn pick<T>(&self, quick: T, thorough: T) -> T {
        match self {
            Tier::Quick => quick,
            Tier::Thorough => thorough,
        }
    }
}

#[derive(Clone, Debug)]
pub struct Cfg {
    pub id: String,
    pub tier: Tier,
    pub seed: u64,
    pub out: PathBuf,
    pub shard: (u64, u64),
    pub replay: Option<PathBuf>,
    pub root: PathBuf,
    /// soft wall-clock budget for the workload loop (seconds); cases stop being generated after it
    pub budget_s: f64,
    pub extra: Vec<String>,
}

impl Cfg {
    /// true if case index `i` belongs to this shard
    pub fn mine(&self, i: u64) -> bool {
        i % self.shard.1 == self.shard.0
    }
    pub fn case_rng(&self, lane: u64) -> crate::prng::Rng {
        crate::prng::Rng::derive(self.seed, lane)
    }
    pub fn has_flag(&self, flag: &str) -> bool {
        self.extra.iter().any(|e| e == flag)
    }
}

#[derive(Clone, Debug)]
pub struct Violation {
    pub signature: String,
    pub what: String,
    pub witness: Value,
    pub count: u64,
}

pub struct Report {
    pub id: String,
    pub level: &'static str,
    pub rule: String,
    pub evaluations: u64,
    pub distinct: HashSet<u64>,
    pub samples: Vec<Value>,
    pub max_samples: usize,
    pub extra: Map<String, Value>,
    pub counters: BTreeMap<String, u64>,
    pub assumptions: Vec<String>,
    pub violations: Vec<Violation>,
    pub inconclusive: Vec<String>,
    pub fatal_inconclusive: Vec<String>,
    pub start: Instant,
}

impl Report {
    pub fn new(id: &str, level: &'static str, rule: &str) -> Self {
        Report {
            id: id.to_string(),
            level,
            rule: rule.to_string(),
            evaluations: 0,
            distinct: HashSet::new(),
            samples: Vec::new(),
            max_samples: 4,
            extra: Map::new(),
            counters: BTreeMap::new(),
            assumptions: Vec::new(),
            violations: Vec::new(),
            inconclusive: Vec::new(),
            fatal_inconclusive: Vec::new(),
            start: Instant::now(),
        }
    }

    pub fn elapsed(&self) -> f64 {
        self.start.elapsed().as_secs_f64()
    }

    /// Has the soft budget been used up?
    pub fn over(&self, cfg: &Cfg) -> bool {
        self.elapsed() > cfg.budget_s
    }

    pub fn eval(&mut self) {
        self.evaluations += 1;
    }

    pub fn evals(&mut self, n: u64) {
        self.evaluations += n;
    }

    pub fn distinct(&mut self, h: u64) {
        self.distinct.insert(h);
    }

    pub fn distinct_str(&mut self, s: &str) {
        self.distinct.insert(crate::prng::fnv_str(s));
    }

    pub fn sample(&mut self, v: Value) {
        if self.samples.len() < self.max_samples {
            self.samples.push(v);
        }
    }

    pub fn count(&mut self, key: &str, n: u64) {
        *self.counters.entry(key.to_string()).or_insert(0) += n;
    }

    pub fn note(&mut self, key: &str, v: Value) {
        self.extra.insert(key.to_string(), v);
    }

    pub fn assume(&mut self, s: &str) {
        if !self.assumptions.iter().any(|a| a == s) {
            self.assumptions.push(s.to_string());
        }
    }

    pub fn violation(&mut self, signature: &str, what: &str, witness: Value) {
        if let Some(v) = self.violations.iter_mut().find(|v| v.signature == signature) {
            v.count += 1;
            return;
        }
        self.violations.push(Violation {
            signature: signature.to_string(),
            what: what.to_string(),
            witness,
            count: 1,
        });
    }

    pub fn inconclusive(&mut self, why: &str) {
        if self.inconclusive.len() < 50 {
            self.inconclusive.push(why.to_string());
        }
        self.count("inconclusive_cases", 1);
    }

    pub fn fatal_inconclusive(&mut self, why: &str) {
        self.fatal_inconclusive.push(why.to_string());
    }

    /// Write evidence (+ hashes side file), replays; print verdict lines; return exit code.
    pub fn finish(mut self, cfg: &Cfg) -> i32 {
        let known = load_known(&cfg.root);
        let mut unknown = 0u64;
        let mut known_hits: Vec<Value> = Vec::new();
        let mut lines: Vec<String> = Vec::new();
        // VERIF_REPLAY_DIR: used when a seeded change is being evaluated, so that witnesses of a
        // deliberately broken tree do not land among the committed ones
        let replay_dir = match std::env::var("VERIF_REPLAY_DIR") {
            Ok(d) if !d.trim().is_empty() => PathBuf::from(d.trim()).join(&self.id),
            _ => cfg.root.join("replays").join(&self.id),
        };
        for v in &self.violations {
            let k = known
                .iter()
                .find(|k| k.property == self.id && k.signature == v.signature && k.status == "known");
            if let Some(k) = k {
                lines.push(format!(
                    "KNOWN-FINDING: property={} {} [signature={} seen={}x]",
                    self.id, k.what, v.signature, v.count
                ));
                known_hits.push(json!({"signature": v.signature, "count": v.count}));
            } else {
                unknown += 1;
                let _ = std::fs::create_dir_all(&replay_dir);
                let fname = format!("{}-seed{}.json", sanitize(&v.signature), cfg.seed);
                let path = replay_dir.join(fname);
                let doc = json!({
                    "property": self.id,
                    "signature": v.signature,
                    "what": v.what,
                    "seed": cfg.seed,
                    "tier": cfg.tier.as_str(),
                    "shard": [cfg.shard.0, cfg.shard.1],
                    "count": v.count,
                    "witness": v.witness,
                });
                let _ = std::fs::write(&path, serde_json::to_vec_pretty(&doc).unwrap_or_default());
                lines.push(format!("VIOLATION property={} replay={}", self.id, path.display()));
                lines.push(format!("  what: {} [signature={} seen={}x]", v.what, v.signature, v.count));
            }
        }

        if self.evaluations == 0 && self.fatal_inconclusive.is_empty() {
            self.fatal_inconclusive.push("no case was evaluated".to_string());
        }

        let mut coverage = Map::new();
        coverage.insert("evaluations".into(), json!(self.evaluations));
        coverage.insert("distinct_nontrivial".into(), json!(self.distinct.len()));
        coverage.insert("rule".into(), json!(self.rule));
        coverage.insert("samples".into(), Value::Array(self.samples.clone()));
        if !self.counters.is_empty() {
            coverage.insert("observed".into(), json!(self.counters));
        }
        for (k, v) in &self.extra {
            coverage.insert(k.clone(), v.clone());
        }
        coverage.insert("known_findings_seen".into(), Value::Array(known_hits));
        coverage.insert("inconclusive".into(), json!(self.inconclusive));
        coverage.insert("fatal_inconclusive".into(), json!(self.fatal_inconclusive));
        coverage.insert(
            "violation_signatures".into(),
            json!(self
                .violations
                .iter()
                .map(|v| json!({"signature": v.signature, "count": v.count, "what": v.what}))
                .collect::<Vec<_>>()),
        );
        let evidence = json!({
            "property_id": self.id,
            "tier": cfg.tier.as_str(),
            "seed": cfg.seed,
            "level": self.level,
            "coverage": Value::Object(coverage),
            "assumptions": self.assumptions,
            "wall_s": (self.elapsed() * 1000.0).round() / 1000.0,
            "violations": unknown,
        });
        if let Some(parent) = cfg.out.parent() {
            let _ = std::fs::create_dir_all(parent);
        }
        let _ = std::fs::write(&cfg.out, serde_json::to_vec_pretty(&evidence).unwrap_or_default());
        // side file with distinct hashes so that a sharded parent can merge exactly
        if cfg.shard.1 > 1 {
            let mut s = String::new();
            for h in &self.distinct {
                s.push_str(&format!("{h:016x}\n"));
            }
            let _ = std::fs::write(hashes_path(&cfg.out), s);
        }

        for l in &lines {
            println!("{l}");
        }
        if unknown > 0 {
            return 1;
        }
        if !self.fatal_inconclusive.is_empty() {
            for w in &self.fatal_inconclusive {
                println!("INCONCLUSIVE property={} {}", self.id, w);
            }
            return 2;
        }
        println!(
            "OK property={} tier={} seed={} evaluations={} distinct_nontrivial={} wall_s={:.1}{}",
            self.id,
            cfg.tier.as_str(),
            cfg.seed,
            self.evaluations,
            self.distinct.len(),
            self.elapsed(),
            if self.inconclusive.is_empty() {
                String::new()
            } else {
                format!(" inconclusive_cases={}", self.inconclusive.len())
            }
        );
        0
    }
}

pub fn hashes_path(out: &Path) -> PathBuf {
    let mut s = out.as_os_str().to_os_string();
    s.push(".hashes");
    PathBuf::from(s)
}

fn sanitize(s: &str) -> String {
    s.chars()
        .map(|c| if c.is_ascii_alphanumeric() || c == '-' || c == '_' || c == '.' { c } else { '_' })
        .take(120)
        .collect()
}

pub struct Known {
    pub property: String,
    pub signature: String,
    pub what: String,
    pub status: String,
}

pub fn load_known(root: &Path) -> Vec<Known> {
    let path = root.join("known_findings.json");
    let Ok(bytes) = std::fs::read(&path) else {
        return Vec::new();
    };
    let Ok(v) = serde_json::from_slice::<Value>(&bytes) else {
        return Vec::new();
    };
    let mut out = Vec::new();
    if let Some(items) = v.get("findings").and_then(|f| f.as_array()) {
        for it in items {
            out.push(Known {
                property: it.get("property").and_then(|x| x.as_str()).unwrap_or("").to_string(),
                signature: it.get("signature").and_then(|x| x.as_str()).unwrap_or("").to_string(),
                what: it.get("what").and_then(|x| x.as_str()).unwrap_or("").to_string(),
                status: it.get("status").and_then(|x| x.as_str()).unwrap_or("known").to_string(),
            });
        }
    }
    out
}
