// Part of c02.rs (textually included): the history driver, the per-call judge and the actions.

fn simple_provider() -> Provider {
    Provider::start(Arc::new(|rec| {
        let id = format!("resp_{}", rec.index);
        let mut s = String::new();
        s.push_str(&sse_event(&ev_created(0, &id)));
        s.push_str(&sse_event(&ev_text_delta(1, "msg_1", "hello")));
        s.push_str(&sse_event(&ev_completed(2, &id, json!([]))));
        s.push_str(&sse_done());
        Reply::sse(s.into_bytes())
    }))
}

fn one_history(cfg: &Cfg, r: &mut Report, rt: &tokio::runtime::Runtime, rng: &mut Rng, idx: u64) {
    let directed = idx == 0;
    let steps = if directed {
        ALL_ACTS.len() * 3 + 20
    } else {
        cfg.tier.pick(60, 100) + rng.usize(cfg.tier.pick(60, 150))
    };
    let with_provider = directed || rng.chance(1, 4);
    let provider = if with_provider { Some(simple_provider()) } else { None };
    let provider_endpoint = provider.as_ref().map(|p| p.endpoint());
    // half of the provider histories configure it engine-wide, the others per message
    let provider_cfg = match (&provider_endpoint, directed || rng.bool()) {
        (Some(ep), true) => Some(OpenResponsesConfig {
            endpoint: ep.clone(),
            api_key: None,
            model: Some("m".into()),
            headers: vec![],
            tool_choice: ToolChoiceParam::auto(),
            followup_user_message: None,
            stateless_history: false,
            parallel_tool_calls: false,
        }),
        _ => None,
    };
    let store = Store::new("c02");
    let app = match App::open(&store, provider_cfg.clone()) {
        Ok(a) => a,
        Err(e) => {
            r.inconclusive(&format!("case {idx}: cannot open engine: {e}"));
            return;
        }
    };
    let mut h = Hist {
        idx,
        store,
        app: Some(app),
        provider_cfg,
        provider_endpoint,
        threads: Vec::new(),
        msgs: Vec::new(),
        sessions_fresh: Vec::new(),
        sessions_used: Vec::new(),
        tasks: Vec::new(),
        stale: Vec::new(),
        known: Known::default(),
        old: Vec::new(),
        pending: Vec::new(),
        fault_armed: 0,
        any_cache_fault: false,
        last_fault: "",
        ensured: false,
        step: 0,
        hung: false,
        // a second input on one session id restarts its seq at 0 (the repo's validator then rejects the whole
        // log and every log-fallback path fails): only a minority of histories go there
        allow_reuse: !directed && rng.chance(1, 8),
        orphan_job: false,
    };
    h.old = h.log();
    rt.block_on(async {
        for step in 0..steps {
            if r.elapsed() > cfg.budget_s * 1.15 {
                break;
            }
            h.step = step;
            let act = if directed && step < ALL_ACTS.len() * 3 {
                // every action kind, three rounds (empty-ish store, filled store, after faults)
                ALL_ACTS[step % ALL_ACTS.len()].0
            } else {
                h.pick_act(rng)
            };
            let Some(out) = h.perform(act, rng, r).await else {
                continue;
            };
            let bad = h.judge(r, act, out).await;
            if bad || h.hung {
                break;
            }
        }
    });
    r.count("histories", 1);
    if r.samples.len() < r.max_samples {
        r.sample(json!({
            "case": idx, "steps": h.step + 1, "threads": h.threads.len(), "messages": h.msgs.len(),
            "sessions": h.sessions_used.len(), "tasks": h.tasks.len(), "provider": with_provider,
            "final_log_bytes": h.old.len(),
        }));
    }
    h.app = None;
    drop(provider);
}

impl Hist {
    fn pick_act(&mut self, rng: &mut Rng) -> Act {
        if !self.ensured && rng.chance(2, 3) {
            return Act::Ensure;
        }
        if self.fault_armed > 0 {
            self.fault_armed -= 1;
            if rng.chance(7, 10) {
                return *rng.pick(&[Act::ReadOnlyPost, Act::ReadOnlyPost, Act::Sse, Act::DirectRead, Act::Auto, Act::Schedule, Act::Get]);
            }
        }
        let total: u64 = ALL_ACTS.iter().map(|a| a.1).sum();
        let mut x = rng.below(total);
        for (a, w) in ALL_ACTS {
            if x < *w {
                return *a;
            }
            x -= *w;
        }
        Act::Get
    }

    /// Judge one executed call. Returns true when a violation was reported (history abandoned).
    async fn judge(&mut self, r: &mut Report, act: Act, out: Outcome) -> bool {
        let fault_ctx = if self.fault_armed > 0 { self.last_fault } else { "" };
        let (w_idx, w_step) = (self.idx, self.step);
        let witness = |extra: Value| {
            json!({"case": w_idx, "step": w_step, "action": format!("{act:?}"), "route": out.route,
                   "status": out.status, "id_class": out.id_class, "shape": out.shape,
                   "expect": format!("{:?}", out.expect), "fault_context": fault_ctx,
                   "call": out.detail, "detail": extra})
        };
        if out.status == 0 {
            r.inconclusive(&format!("case {} step {}: call {} did not return within the watchdog", self.idx, self.step, out.route));
            self.hung = true;
            return false;
        }
        // (a) immediately at return: prefix + acknowledged ids flushed
        let imm = self.log();
        if !has_prefix(&imm, &self.old) {
            let sig = if imm.len() < self.old.len() { "log_shrunk" } else { "prefix_changed" };
            r.violation(
                &format!("C02/{sig}/{}", out.route),
                &format!("after {} the previous log content ({} bytes) is no longer a prefix of the file ({} bytes)", out.route, self.old.len(), imm.len()),
                witness(json!({"old_len": self.old.len(), "new_len": imm.len()})),
            );
            return true;
        }
        for id in &out.acked {
            if !contains(&imm[self.old.len()..], id.as_bytes()) {
                r.violation(
                    &format!("C02/acked_frame_not_in_log_at_return/{}", out.route),
                    &format!("{} acknowledged id {id} but the log did not contain it when the call returned", out.route),
                    witness(json!({"id": id, "old_len": self.old.len(), "len_at_return": imm.len()})),
                );
                return true;
            }
        }
        r.count("acknowledged_ids_checked_at_return", out.acked.len() as u64);
        // (b) wait for the asynchronous writers this call started
        if !self.pending.is_empty() {
            r.count("async_writers_awaited", self.pending.len() as u64);
            if !self.settle().await {
                if std::env::var("RV_DEBUG").is_ok() {
                    let b = self.log();
                    let t = String::from_utf8_lossy(&b);
                    let tail: Vec<&str> = t.lines().rev().take(4).collect();
                    eprintln!("DEBUG replay_validated: {:?}", rip_log::EventLog::new(self.store.log_path()).and_then(|l| l.replay_validated()).map(|v| v.len()));
                    eprintln!("DEBUG settle timeout: call={} tail={:#?} fault={} armed={}", out.detail, tail, self.last_fault, self.fault_armed);
                }
                r.inconclusive(&format!("case {} step {}: background writer of {} did not finish within the watchdog", self.idx, self.step, out.route));
                self.hung = true;
                return false;
            }
        }
        // (c) quiescent: prefix, whole frames, must-add-nothing
        let mut after = self.log();
        // A reader has no atomicity guarantee against a write(2) in progress: the marker that ended the wait can
        // sit in a last line whose final bytes are not visible yet. Only an unterminated line that PERSISTS is a
        // finding, so re-read for a while before judging.
        for _ in 0..40 {
            if after.is_empty() || after.last() == Some(&b'\n') {
                break;
            }
            tokio::time::sleep(std::time::Duration::from_millis(25)).await;
            after = self.log();
            r.count("rereads_for_unterminated_tail", 1);
        }
        if !has_prefix(&after, &self.old) {
            let sig = if after.len() < self.old.len() { "log_shrunk" } else { "prefix_changed" };
            r.violation(
                &format!("C02/{sig}/{}", out.route),
                &format!("after {} (and its background work) the previous log content is no longer a prefix", out.route),
                witness(json!({"old_len": self.old.len(), "new_len": after.len()})),
            );
            return true;
        }
        let suffix = &after[self.old.len()..];
        let head = String::from_utf8_lossy(&suffix[..suffix.len().min(400)]).to_string();
        match truth::parse_log(suffix) {
            Ok(frames) => {
                for f in &frames {
                    let ok = f.v.get("id").map(|x| x.is_string()).unwrap_or(false)
                        && f.v.get("type").map(|x| x.is_string()).unwrap_or(false)
                        && f.v.get("seq").map(|x| x.is_u64()).unwrap_or(false)
                        && f.v.get("stream_id").map(|x| x.is_string()).unwrap_or(false);
                    if !ok {
                        r.violation(
                            &format!("C02/suffix_not_whole_frames/not_a_frame/{}", out.route),
                            &format!("{} added a JSON line that is not an event frame", out.route),
                            witness(json!({"line": f.v})),
                        );
                        return true;
                    }
                }
                r.count("frames_appended_and_parsed", frames.len() as u64);
                for f in &frames {
                    r.count(&format!("appended:{}", f.ty()), 1);
                }
            }
            Err(e) => {
                r.violation(
                    &format!("C02/suffix_not_whole_frames/{}/{}", e.kind, out.route),
                    &format!("{} added bytes that are not whole newline-terminated JSON frames: {}", out.route, e.detail),
                    witness(json!({"error": e.detail, "added_head": head})),
                );
                return true;
            }
        }
        r.count("bytes_compared", self.old.len() as u64);
        r.count("calls_judged", 1);
        r.eval();
        if !self.old.is_empty() {
            r.distinct_str(&format!(
                "{}|{}|{}|{}|{:?}|{}",
                out.route, out.status, out.id_class, out.shape, out.expect, fault_ctx
            ));
        }
        r.count(&format!("route:{}", out.route), 1);
        if out.status >= 400 && out.status < 500 {
            r.count("rejected_4xx_calls", 1);
        }
        let mut bad = false;
        match &out.expect {
            Expect::Nothing(why) => {
                r.count("must_add_nothing_calls", 1);
                r.count(&format!("nothing:{why}"), 1);
                if fault_ctx != "" {
                    r.count("must_add_nothing_calls_after_cache_fault", 1);
                }
                if !suffix.is_empty() {
                    let types: Vec<String> = truth::parse_log(suffix)
                        .map(|f| f.iter().map(|x| x.ty().to_string()).collect())
                        .unwrap_or_default();
                    let ctx = if fault_ctx.is_empty() { String::new() } else { "/after_cache_fault".to_string() };
                    r.violation(
                        &format!("C02/readonly_call_wrote/{why}/{}{ctx}", out.route),
                        &format!(
                            "{} (status {}, class {why}) must add nothing but added {} bytes: frames {:?}",
                            out.route, out.status, suffix.len(), types
                        ),
                        witness(json!({"added_bytes": suffix.len(), "added_types": types, "added_head": head})),
                    );
                    bad = true;
                }
            }
            Expect::MayWrite => {
                r.count("writing_calls", 1);
                if !suffix.is_empty() {
                    r.count("writing_calls_that_added_frames", 1);
                }
            }
        }
        self.old = after;
        if self.orphan_job {
            r.count("histories_ended_on_job_without_job_ended_frame", 1);
            self.hung = true;
        }
        bad
    }

    async fn settle(&mut self) -> bool {
        let start = Instant::now();
        let mut last_len = usize::MAX;
        let mut stable_since = Instant::now();
        loop {
            let bytes = self.log();
            if bytes.len() != last_len {
                last_len = bytes.len();
                stable_since = Instant::now();
            }
            let new = if bytes.len() >= self.old.len() { &bytes[self.old.len()..] } else { &bytes[..] };
            let text = String::from_utf8_lossy(new);
            let data = self.store.data.clone();
            self.pending.retain(|p| match p {
                Pending::RunEnded(sid) => !text
                    .lines()
                    .any(|l| l.contains("\"type\":\"continuity_run_ended\"") && l.contains(sid.as_str())),
                Pending::JobEnded(jid) => !text
                    .lines()
                    .any(|l| l.contains("\"type\":\"continuity_job_ended\"") && l.contains(jid.as_str())),
                // an unlinked run writes nothing to the log after its session_ended frame
                Pending::SessionEnded(sid) => !text
                    .lines()
                    .any(|l| l.contains("\"type\":\"session_ended\"") && l.contains(sid.as_str())),
                Pending::TaskSnapshot(tid) => !snapshot_done(&data.join("task_snapshots").join(format!("{tid}.json"))),
            });
            if self.pending.is_empty() {
                return true;
            }
            // a job whose thread replay fails returns without a job_ended frame: give up on it once the
            // log has been still for a long while, and end the history afterwards (nothing later is judged)
            if start.elapsed() > Duration::from_millis(2500)
                && stable_since.elapsed() > Duration::from_millis(2000)
                && self.pending.iter().all(|p| matches!(p, Pending::JobEnded(_)))
            {
                self.pending.clear();
                self.orphan_job = true;
                return true;
            }
            if start.elapsed() > Duration::from_secs(25) {
                self.pending.clear();
                return false;
            }
            tokio::time::sleep(Duration::from_millis(2)).await;
        }
    }

    async fn perform(&mut self, act: Act, rng: &mut Rng, r: &mut Report) -> Option<Outcome> {
        let app = self.app();
        match act {
            Act::Ensure => {
                let (st, b) = send(&app, "POST", "/threads/ensure", None, vec![]).await?;
                let v = parse(&b);
                let mut acked = vec![];
                let expect = if self.ensured { Expect::Nothing("ensure_existing_default") } else { Expect::MayWrite };
                if let Some(id) = v.get("thread_id").and_then(|x| x.as_str()) {
                    if !self.ensured {
                        acked.push(id.to_string());
                    }
                    if !self.threads.iter().any(|t| t == id) {
                        self.threads.push(id.to_string());
                    }
                    self.ensured = true;
                }
                Some(Outcome { route: "POST /threads/ensure".into(), status: st, id_class: "-", shape: String::new(), expect, acked, detail: json!({}) })
            }
            Act::PostMessage => {
                let (tid, idc) = self.pick_thread_id(rng, 85);
                let n = self.known.counter;
                self.known.counter += 1;
                let (content, kind): (String, &str) = match rng.below(9) {
                    0 => (json!({"tool":"write","args":{"path": format!("f{n}.txt"), "content": format!("x{n}")}}).to_string(), "tool_write"),
                    1 => (json!({"tool":"bash","args":{"command": format!("echo out{n}; echo err{n} 1>&2")}}).to_string(), "tool_bash"),
                    2 => (json!({"tool":"ls","args":{}}).to_string(), "tool_ls"),
                    3 => (json!({"tool":"read","args":{"path":"does-not-exist.txt"}}).to_string(), "tool_read_fail"),
                    4 => (json!({"tool":"nosuchtool","args":{}}).to_string(), "tool_unknown"),
                    5 => (json!({"checkpoint":{"action":"create","label":"l","files":[format!("f{n}.txt")]}}).to_string(), "checkpoint_create"),
                    6 => (json!({"checkpoint":{"action":"rewind","id":"nope"}}).to_string(), "checkpoint_rewind_unknown"),
                    7 => (format!("prompt {n} {}", rng.unicode(12)), "prompt_unicode"),
                    _ => (format!("plain prompt {n}"), "prompt"),
                };
                let mut body = json!({"content": content});
                if rng.chance(1, 4) {
                    body["actor_id"] = json!("alice");
                    body["origin"] = json!("rv");
                }
                let mut shape = kind.to_string();
                if self.provider_cfg.is_none() {
                    if let Some(ep) = &self.provider_endpoint {
                        if kind.starts_with("prompt") && rng.chance(2, 3) {
                            body["openresponses"] = json!({"endpoint": ep, "model": "m"});
                            shape.push_str("+provider_override");
                        }
                    }
                } else if kind.starts_with("prompt") {
                    shape.push_str("+provider");
                }
                let path = format!("/threads/{}/messages", enc(&tid));
                let (st, b) = send(&app, "POST", &path, Some("application/json"), jbody(&body)).await?;
                let v = parse(&b);
                let mut acked = vec![];
                let expect = if st == 202 {
                    if let (Some(m), Some(s)) = (v.get("message_id").and_then(|x| x.as_str()), v.get("session_id").and_then(|x| x.as_str())) {
                        acked.push(m.to_string());
                        self.msgs.push((tid.clone(), m.to_string()));
                        self.known.msgs.push((tid.clone(), m.to_string()));
                        self.sessions_used.push(s.to_string());
                        self.pending.push(Pending::RunEnded(s.to_string()));
                    }
                    Expect::MayWrite
                } else if (400..500).contains(&st) {
                    Expect::Nothing("rejected_4xx")
                } else {
                    Expect::MayWrite
                };
                Some(Outcome { route: "POST /threads/{id}/messages".into(), status: st, id_class: idc, shape, expect, acked, detail: json!({"thread": tid, "body": body}) })
            }
            Act::StoreOp => {
                if self.threads.is_empty() {
                    return None;
                }
                let kinds = [
                    OpKind::Msg, OpKind::Msg, OpKind::Msg, OpKind::Msg, OpKind::BigMsg, OpKind::Cursor, OpKind::Cursor,
                    OpKind::SideEffects, OpKind::RunSpawned, OpKind::RunEnded, OpKind::Compile, OpKind::ManualCkpt,
                    OpKind::Auto, OpKind::Schedule, OpKind::Rotate,
                ];
                let kind = *rng.pick(&kinds);
                let tag = format!("c{}s{}", self.idx, self.step);
                let threads = self.threads.clone();
                let res = exec(&app, &self.store.data, &threads, &mut self.known, kind, rng, &tag);
                let k = res.kind.unwrap_or(kind);
                let expect = match k {
                    OpKind::Auto if res.ok && res.desc == "noop" => Expect::Nothing("auto_noop_or_dry_run"),
                    OpKind::Schedule if res.ok && (res.desc == "noop" || res.desc == "dry_run") => Expect::Nothing("schedule_noop_or_dry_run"),
                    OpKind::Rotate if res.ok && res.acked.is_empty() => Expect::Nothing("rotate_nothing_to_rotate"),
                    _ => Expect::MayWrite,
                };
                for (c, m) in &self.known.msgs {
                    if !self.msgs.iter().any(|(_, mm)| mm == m) {
                        self.msgs.push((c.clone(), m.clone()));
                    }
                }
                Some(Outcome { route: format!("store::{k:?}"), status: if res.ok { 200 } else { 500 }, id_class: "real", shape: res.desc.chars().take(24).collect(), expect, acked: res.acked, detail: json!({"thread": res.cont}) })
            }
            Act::Branch | Act::Handoff => {
                let (tid, idc) = self.pick_thread_id(rng, 80);
                let mut body = json!({});
                let sel = rng.below(6);
                match sel {
                    0 => {}
                    1 => body["from_seq"] = json!(rng.below(4)),
                    2 => body["from_seq"] = json!(u64::MAX),
                    3 => {
                        if let Some((_, m)) = self.msgs.iter().filter(|(c, _)| *c == tid).last() {
                            body["from_message_id"] = json!(m);
                        }
                    }
                    4 => body["from_message_id"] = json!("no-such-message"),
                    _ => {
                        body["from_seq"] = json!(0);
                        body["from_message_id"] = json!("both");
                    }
                }
                if rng.bool() {
                    body["title"] = json!(format!("t{}", self.step));
                }
                let route = if act == Act::Branch { "branch" } else { "handoff" };
                if act == Act::Handoff && rng.chance(4, 5) {
                    body["summary_markdown"] = json!(format!("summary {}", self.step));
                }
                if act == Act::Handoff && rng.chance(1, 8) {
                    body["summary_artifact_id"] = json!("0".repeat(64));
                }
                let path = format!("/threads/{}/{route}", enc(&tid));
                let (st, b) = send(&app, "POST", &path, Some("application/json"), jbody(&body)).await?;
                let v = parse(&b);
                let mut acked = vec![];
                let expect = if (400..500).contains(&st) { Expect::Nothing("rejected_4xx") } else { Expect::MayWrite };
                if st == 201 {
                    if let Some(id) = v.get("thread_id").and_then(|x| x.as_str()) {
                        acked.push(id.to_string());
                        if self.threads.len() < 6 {
                            self.threads.push(id.to_string());
                        }
                    }
                }
                Some(Outcome { route: format!("POST /threads/{{id}}/{route}"), status: st, id_class: idc, shape: Hist::shape_of(&body), expect, acked, detail: json!({"thread": tid, "body": body}) })
            }
            Act::Checkpoint => {
                let (tid, idc) = self.pick_thread_id(rng, 85);
                let mut body = json!({});
                if rng.chance(5, 6) {
                    body["summary_markdown"] = json!(format!("ck {}", self.step));
                }
                match rng.below(6) {
                    0 => {
                        if let Some((_, m)) = self.msgs.iter().filter(|(c, _)| *c == tid).last() {
                            body["to_message_id"] = json!(m);
                        }
                    }
                    1 => body["to_seq"] = json!(rng.below(6)),
                    2 => body["stride_messages"] = Hist::stride_pool()[rng.usize(9)].clone(),
                    3 => body["to_message_id"] = json!("no-such-message"),
                    4 => {
                        body["to_seq"] = json!(1);
                        body["to_message_id"] = json!("both");
                    }
                    _ => body["summary_artifact_id"] = json!("f".repeat(64)),
                }
                let path = format!("/threads/{}/compaction-checkpoint", enc(&tid));
                let (st, b) = send(&app, "POST", &path, Some("application/json"), jbody(&body)).await?;
                let v = parse(&b);
                let mut acked = vec![];
                let expect = if (400..500).contains(&st) { Expect::Nothing("rejected_4xx") } else { Expect::MayWrite };
                if st == 201 {
                    if let Some(id) = v.get("checkpoint_id").and_then(|x| x.as_str()) {
                        acked.push(id.to_string());
                    }
                }
                Some(Outcome { route: "POST /threads/{id}/compaction-checkpoint".into(), status: st, id_class: idc, shape: Hist::shape_of(&body), expect, acked, detail: json!({"thread": tid, "body": body}) })
            }
            Act::Rotate => {
                let (tid, idc) = self.pick_thread_id(rng, 85);
                let mut body = json!({"actor_id": "", "origin": ""});
                if rng.chance(1, 3) {
                    body["provider"] = json!(*rng.pick(&["openresponses", "other", "none"]));
                }
                if rng.chance(1, 4) {
                    body["endpoint"] = json!(*rng.pick(&["http://e1", "http://e2", "http://nowhere"]));
                }
                if rng.chance(1, 4) {
                    body["model"] = json!(*rng.pick(&["m1", "m2", "m"]));
                }
                if rng.bool() {
                    body["reason"] = json!(format!("r{}", self.step));
                }
                if rng.chance(1, 10) {
                    body.as_object_mut().unwrap().remove("actor_id");
                }
                let path = format!("/threads/{}/provider-cursor-rotate", enc(&tid));
                // independent of the answer: does the raw log hold a cursor frame of this thread that the filters select?
                // (a filter selects a frame only if the frame carries that very value)
                let no_cursor_selected = if idc == "real" && self.pending.is_empty() && (!self.any_cache_fault || self.store.streams_dir().is_file()) {
                    crate::truth::parse_log(&self.store.log_bytes_settled()).ok().map(|frames| {
                        let want = |k: &str| body.get(k).and_then(|x| x.as_str()).map(|s| s.to_string());
                        let (fp, fe, fm) = (want("provider"), want("endpoint"), want("model"));
                        !crate::truth::stream(&frames, "continuity", &tid).iter().any(|f| {
                            f.ty() == "continuity_provider_cursor_updated"
                                && fp.as_deref().map(|x| f.v.get("provider").and_then(|y| y.as_str()) == Some(x)).unwrap_or(true)
                                && fe.as_deref().map(|x| f.v.get("endpoint").and_then(|y| y.as_str()) == Some(x)).unwrap_or(true)
                                && fm.as_deref().map(|x| f.v.get("model").and_then(|y| y.as_str()) == Some(x)).unwrap_or(true)
                        })
                    })
                } else {
                    None
                };
                match no_cursor_selected {
                    Some(true) => r.count("rotate_calls_selecting_no_cursor_by_raw_log", 1),
                    Some(false) => r.count("rotate_calls_selecting_a_cursor_by_raw_log", 1),
                    None => {}
                }
                let (st, b) = send(&app, "POST", &path, Some("application/json"), jbody(&body)).await?;
                let v = parse(&b);
                let mut acked = vec![];
                let expect = if (400..500).contains(&st) {
                    Expect::Nothing("rejected_4xx")
                } else if st == 200 && v.get("rotated") == Some(&json!(false)) {
                    Expect::Nothing("rotate_nothing_to_rotate")
                } else if no_cursor_selected == Some(true) && st < 300 {
                    Expect::Nothing("rotate_selects_no_cursor_by_raw_log")
                } else {
                    if let Some(id) = v.get("cursor_event_id").and_then(|x| x.as_str()) {
                        acked.push(id.to_string());
                    }
                    Expect::MayWrite
                };
                Some(Outcome { route: "POST /threads/{id}/provider-cursor-rotate".into(), status: st, id_class: idc, shape: Hist::shape_of(&body), expect, acked, detail: json!({"thread": tid, "body": body, "response": v}) })
            }
            Act::Auto | Act::Schedule => {
                let (tid, idc) = self.pick_thread_id(rng, 85);
                let mut body = json!({"actor_id": "rv", "origin": "rv"});
                if let Some(s) = Hist::opt_u(rng, &Hist::stride_pool()[..9]) {
                    body["stride_messages"] = s;
                }
                if rng.chance(1, 12) {
                    body["stride_messages"] = Hist::stride_pool()[9 + rng.usize(4)].clone();
                }
                if let Some(m) = Hist::opt_u(rng, &[json!(0), json!(1), json!(2), json!(3), json!(u32::MAX)]) {
                    body["max_new_checkpoints"] = m;
                }
                let dry = match rng.below(5) {
                    0 | 1 => Some(true),
                    2 => Some(false),
                    _ => None,
                };
                if let Some(d) = dry {
                    body["dry_run"] = json!(d);
                }
                if act == Act::Schedule {
                    if rng.bool() {
                        body["execute"] = json!(rng.chance(3, 4));
                    }
                    if rng.bool() {
                        body["block_on_inflight"] = json!(rng.bool());
                    }
                }
                if rng.chance(1, 12) {
                    body.as_object_mut().unwrap().remove("origin");
                }
                if rng.chance(1, 10) {
                    body["unexpected_extra"] = json!({"a": [1, 2, 3]});
                }
                let route = if act == Act::Auto { "compaction-auto" } else { "compaction-auto-schedule" };
                let path = format!("/threads/{}/{route}", enc(&tid));
                // independent of what the call answers: does the raw log leave anything to compact for these parameters?
                let nothing_to_compact = {
                    let stride = match body.get("stride_messages") {
                        None => Some(None),
                        Some(x) => x.as_u64().map(Some),
                    };
                    let max_new = match body.get("max_new_checkpoints") {
                        None => Some(None),
                        Some(x) => x.as_u64().and_then(|m| u32::try_from(m).ok()).map(Some),
                    };
                    match (stride, max_new) {
                        // judged only where no cache file can be stale: no cache fault so far in this case, or the cache
                        // root is currently unusable (a well-formed but stale cache changing answers is C04's known finding)
                        (Some(st), Some(mx)) if idc == "real" && self.pending.is_empty() && (!self.any_cache_fault || self.store.streams_dir().is_file()) => {
                            crate::c09::nothing_to_compact(&self.store.log_bytes_settled(), &tid, st, mx)
                        }
                        _ => None,
                    }
                };
                match nothing_to_compact {
                    Some(true) => r.count("compaction_calls_with_nothing_to_compact_by_raw_log", 1),
                    Some(false) => r.count("compaction_calls_with_work_to_do_by_raw_log", 1),
                    None => r.count("compaction_calls_not_classified_by_raw_log", 1),
                }
                let (st, b) = send(&app, "POST", &path, Some("application/json"), jbody(&body)).await?;
                let v = parse(&b);
                let mut acked = vec![];
                let answer = v.get(if act == Act::Auto { "status" } else { "decision" }).and_then(|x| x.as_str()).unwrap_or("").to_string();
                if st == 202 {
                    if let Some(j) = v.get("job_id").and_then(|x| x.as_str()) {
                        let executes = act == Act::Auto || v.get("execute") == Some(&json!(true));
                        if executes {
                            self.pending.push(Pending::JobEnded(j.to_string()));
                        }
                        acked.push(j.to_string());
                    }
                }
                if let Some(d) = v.get("decision_id").and_then(|x| x.as_str()) {
                    acked.push(d.to_string());
                }
                let expect = if (400..500).contains(&st) {
                    Expect::Nothing("rejected_4xx")
                } else if dry == Some(true) && st < 500 {
                    Expect::Nothing("dry_run_true")
                } else if st == 200 && (answer == "noop" || answer == "dry_run") {
                    Expect::Nothing("answered_noop")
                } else if nothing_to_compact == Some(true) && st < 300 {
                    // every eligible cut point already has a checkpoint frame in the log: this invocation is a no-op
                    // whatever it answers
                    Expect::Nothing("nothing_to_compact_by_raw_log")
                } else {
                    Expect::MayWrite
                };
                if matches!(expect, Expect::Nothing(_)) {
                    acked.clear();
                }
                let mut shape = Hist::shape_of(&body);
                shape.push_str(&format!("->{answer}"));
                Some(Outcome { route: format!("POST /threads/{{id}}/{route}"), status: st, id_class: idc, shape, expect, acked, detail: json!({"thread": tid, "body": body, "response": v}) })
            }
            Act::SessionCreate => {
                let (st, b) = send(&app, "POST", "/sessions", None, vec![]).await?;
                if let Some(id) = parse(&b).get("session_id").and_then(|x| x.as_str()) {
                    self.sessions_fresh.push(id.to_string());
                }
                // creating a session handle is not one of the statement's read-only capabilities; it is only
                // held to append-only
                Some(Outcome { route: "POST /sessions".into(), status: st, id_class: "-", shape: String::new(), expect: Expect::MayWrite, acked: vec![], detail: json!({}) })
            }
            Act::SessionInput => {
                let use_fresh = !self.sessions_fresh.is_empty() && rng.chance(4, 5);
                let (sid, idc) = if use_fresh {
                    (self.sessions_fresh.remove(0), "real")
                } else if self.allow_reuse && !self.sessions_used.is_empty() && rng.chance(1, 3) {
                    // a second input on a session that already ran (the router accepts it)
                    (rng.pick(&self.sessions_used).clone(), "real_reused")
                } else {
                    let (i, c) = self.pick_thread_id(rng, 0);
                    (i, c)
                };
                let n = self.step;
                let input = match rng.below(4) {
                    0 => json!({"tool":"bash","args":{"command": format!("echo s{n}")}}).to_string(),
                    1 => json!({"tool":"write","args":{"path": format!("s{n}.txt"), "content": "y"}}).to_string(),
                    2 => format!("hello {n} {}", rng.unicode(6)),
                    _ => format!("hello {n}"),
                };
                let path = format!("/sessions/{}/input", enc(&sid));
                let (st, _) = send(&app, "POST", &path, Some("application/json"), jbody(&json!({"input": input}))).await?;
                let expect = if st == 202 {
                    if !self.sessions_used.contains(&sid) {
                        self.sessions_used.push(sid.clone());
                    }
                    self.pending.push(Pending::SessionEnded(sid.clone()));
                    Expect::MayWrite
                } else if (400..500).contains(&st) {
                    Expect::Nothing("rejected_4xx")
                } else {
                    Expect::MayWrite
                };
                Some(Outcome { route: "POST /sessions/{id}/input".into(), status: st, id_class: idc, shape: String::new(), expect, acked: vec![], detail: json!({"session": sid, "input": input}) })
            }
            Act::SessionCancel => {
                let (sid, idc) = if !self.sessions_used.is_empty() && rng.bool() {
                    (rng.pick(&self.sessions_used).clone(), "real")
                } else {
                    self.pick_thread_id(rng, 0)
                };
                let path = format!("/sessions/{}/cancel", enc(&sid));
                let (st, _) = send(&app, "POST", &path, None, vec![]).await?;
                let expect = if (400..500).contains(&st) { Expect::Nothing("rejected_4xx") } else { Expect::MayWrite };
                Some(Outcome { route: "POST /sessions/{id}/cancel".into(), status: st, id_class: idc, shape: String::new(), expect, acked: vec![], detail: json!({"session": sid}) })
            }
            Act::TaskCreate => {
                let n = self.step;
                let (body, shape) = match rng.below(8) {
                    0 | 1 | 2 => (json!({"tool":"bash","args":{"command": format!("echo o{n}; echo e{n} 1>&2")}}), "bash"),
                    3 => (json!({"tool":"shell","args":{"command":"exit 3"},"title":"t"}), "shell_exit3"),
                    4 => (json!({"tool":"bash","args":{}}), "bash_missing_command"),
                    5 => (json!({"tool":"python","args":{"command":"x"}}), "unsupported_tool"),
                    6 => (json!({"tool":"bash","args":{"command":"echo p"},"execution_mode":"pty"}), "pty_not_allowed"),
                    _ => (json!({"tool":"bash","args":{"command":"sleep 0.15; echo late"}}), "bash_sleep"),
                };
                let (st, b) = send(&app, "POST", "/tasks", Some("application/json"), jbody(&body)).await?;
                let expect = if st == 201 {
                    if let Some(id) = parse(&b).get("task_id").and_then(|x| x.as_str()) {
                        self.tasks.push(id.to_string());
                        if shape == "bash_sleep" && rng.bool() {
                            // leave it running for exactly one cancel call: cancel right away
                            let cpath = format!("/tasks/{}/cancel", enc(id));
                            let _ = send(&app, "POST", &cpath, Some("application/json"), jbody(&json!({"reason":"rv"}))).await;
                            r.count("running_tasks_cancelled", 1);
                        }
                        self.pending.push(Pending::TaskSnapshot(id.to_string()));
                    }
                    Expect::MayWrite
                } else if (400..500).contains(&st) {
                    Expect::Nothing("rejected_4xx")
                } else {
                    Expect::MayWrite
                };
                Some(Outcome { route: "POST /tasks".into(), status: st, id_class: "-", shape: shape.into(), expect, acked: vec![], detail: json!({"body": body}) })
            }
            Act::TaskCancel | Act::TaskMisc => {
                let (tid, idc) = if !self.tasks.is_empty() && rng.chance(2, 3) {
                    (rng.pick(&self.tasks).clone(), "real")
                } else {
                    self.pick_thread_id(rng, 0)
                };
                let (sub, body) = if act == Act::TaskCancel {
                    ("cancel", if rng.bool() { json!({"reason":"rv"}) } else { json!({}) })
                } else {
                    match rng.below(3) {
                        0 => ("stdin", json!({"chunk_b64":"aGk="})),
                        1 => ("resize", json!({"rows": rng.below(3), "cols": 80})),
                        _ => ("signal", json!({"signal": *rng.pick(&["TERM", "SIGKILL", "", "BOGUS"])})),
                    }
                };
                let path = format!("/tasks/{}/{sub}", enc(&tid));
                let (st, _) = send(&app, "POST", &path, Some("application/json"), jbody(&body)).await?;
                let expect = if (400..500).contains(&st) {
                    Expect::Nothing("rejected_4xx")
                } else if act == Act::TaskCancel && idc == "real" {
                    // the task ended before (histories are sequential): cancelling it is a no-op
                    Expect::Nothing("cancel_of_finished_task")
                } else {
                    Expect::MayWrite
                };
                Some(Outcome { route: format!("POST /tasks/{{id}}/{sub}"), status: st, id_class: idc, shape: Hist::shape_of(&body), expect, acked: vec![], detail: json!({"task": tid, "body": body}) })
            }
            Act::ReadOnlyPost => {
                let (tid, idc) = self.pick_thread_id(rng, 70);
                let which = rng.below(4);
                let (route, mut body) = match which {
                    0 => {
                        let mut b = json!({});
                        if let Some(s) = Hist::opt_u(rng, &Hist::stride_pool()) {
                            b["stride_messages"] = s;
                        }
                        if let Some(l) = Hist::opt_u(rng, &Hist::limit_pool()) {
                            b["limit"] = l;
                        }
                        ("compaction-cut-points", b)
                    }
                    1 => {
                        let mut b = json!({});
                        if let Some(s) = Hist::opt_u(rng, &Hist::stride_pool()) {
                            b["stride_messages"] = s;
                        }
                        ("compaction-status", b)
                    }
                    2 => ("provider-cursor-status", json!({})),
                    _ => {
                        let mut b = json!({});
                        if let Some(l) = Hist::opt_u(rng, &Hist::limit_pool()) {
                            b["limit"] = l;
                        }
                        ("context-selection-status", b)
                    }
                };
                if rng.chance(1, 6) {
                    body["dry_run"] = json!(false);
                    body["execute"] = json!(true);
                    body["extra"] = json!([{"deep": {"er": null}}]);
                }
                let path = format!("/threads/{}/{route}", enc(&tid));
                let (st, _) = send(&app, "POST", &path, Some("application/json"), jbody(&body)).await?;
                Some(Outcome { route: format!("POST /threads/{{id}}/{route}"), status: st, id_class: idc, shape: Hist::shape_of(&body), expect: Expect::Nothing("read_only_capability"), acked: vec![], detail: json!({"thread": tid, "body": body}) })
            }
            Act::Get => {
                let which = rng.below(9);
                let (route, path, idc): (&str, String, &'static str) = match which {
                    0 => ("GET /threads", "/threads".into(), "-"),
                    1 | 2 => {
                        let (t, c) = self.pick_thread_id(rng, 60);
                        ("GET /threads/{id}", format!("/threads/{}", enc(&t)), c)
                    }
                    3 => ("GET /config/doctor", "/config/doctor".into(), "-"),
                    4 => ("GET /openapi.json", "/openapi.json".into(), "-"),
                    5 => ("GET /tasks", "/tasks".into(), "-"),
                    6 => {
                        let (t, c) = if !self.tasks.is_empty() && rng.chance(2, 3) { (rng.pick(&self.tasks).clone(), "real") } else { self.pick_thread_id(rng, 0) };
                        ("GET /tasks/{id}", format!("/tasks/{}", enc(&t)), c)
                    }
                    _ => {
                        let (t, c) = if !self.tasks.is_empty() && rng.chance(3, 4) { (rng.pick(&self.tasks).clone(), "real") } else { self.pick_thread_id(rng, 0) };
                        let stream = *rng.pick(&["stdout", "stderr", "pty", "bogus", ""]);
                        let off = *rng.pick(&["0", "1", "5", "18446744073709551615", "-1", "x"]);
                        let max = *rng.pick(&["0", "1", "3", "4096", "18446744073709551615", "99999999999999999999"]);
                        let mut q = format!("?stream={stream}");
                        if rng.bool() {
                            q.push_str(&format!("&offset_bytes={off}"));
                        }
                        if rng.bool() {
                            q.push_str(&format!("&max_bytes={max}"));
                        }
                        ("GET /tasks/{id}/output", format!("/tasks/{}/output{q}", enc(&t)), c)
                    }
                };
                let (st, _) = send(&app, "GET", &path, None, vec![]).await?;
                Some(Outcome { route: route.into(), status: st, id_class: idc, shape: path.split('?').nth(1).unwrap_or("").chars().filter(|c| !c.is_ascii_digit()).collect(), expect: Expect::Nothing("read_only_capability"), acked: vec![], detail: json!({"path": path}) })
            }
            Act::Sse => {
                let which = rng.below(3);
                let (route, path, idc): (&str, String, &'static str) = match which {
                    0 => {
                        let (t, c) = self.pick_thread_id(rng, 75);
                        ("GET /threads/{id}/events", format!("/threads/{}/events", enc(&t)), c)
                    }
                    1 => {
                        let (t, c) = if !self.sessions_used.is_empty() && rng.chance(3, 4) { (rng.pick(&self.sessions_used).clone(), "real") } else { self.pick_thread_id(rng, 0) };
                        ("GET /sessions/{id}/events", format!("/sessions/{}/events", enc(&t)), c)
                    }
                    _ => {
                        let (t, c) = if !self.tasks.is_empty() && rng.chance(3, 4) { (rng.pick(&self.tasks).clone(), "real") } else { self.pick_thread_id(rng, 0) };
                        ("GET /tasks/{id}/events", format!("/tasks/{}/events", enc(&t)), c)
                    }
                };
                let fut = async {
                    let (st, reader) = app.sse(&path).await;
                    let mut n = 0u64;
                    if let Some(mut rd) = reader {
                        let cap = 5 + rng.below(200);
                        while n < cap {
                            if rd.next_json(Duration::from_millis(15)).await.is_none() {
                                break;
                            }
                            n += 1;
                        }
                    }
                    (st, n)
                };
                let (st, n) = match tokio::time::timeout(Duration::from_secs(20), fut).await {
                    Ok(v) => v,
                    Err(_) => (0, 0),
                };
                r.count("sse_frames_read", n);
                Some(Outcome { route: route.into(), status: st, id_class: idc, shape: if n > 0 { "frames".into() } else { "none".into() }, expect: Expect::Nothing("read_only_capability"), acked: vec![], detail: json!({"path": path, "frames_read": n}) })
            }
            Act::Malformed => {
                let (tid, idc) = self.pick_thread_id(rng, 70);
                let t = enc(&tid);
                let posts = [
                    format!("/threads/{t}/messages"),
                    format!("/threads/{t}/branch"),
                    format!("/threads/{t}/handoff"),
                    format!("/threads/{t}/compaction-checkpoint"),
                    format!("/threads/{t}/compaction-cut-points"),
                    format!("/threads/{t}/compaction-status"),
                    format!("/threads/{t}/provider-cursor-status"),
                    format!("/threads/{t}/provider-cursor-rotate"),
                    format!("/threads/{t}/context-selection-status"),
                    format!("/threads/{t}/compaction-auto"),
                    format!("/threads/{t}/compaction-auto-schedule"),
                    "/tasks".to_string(),
                    format!("/sessions/{t}/input"),
                ];
                let kind = rng.below(10);
                let (method, path, ctype, body, shape): (&str, String, Option<&str>, Vec<u8>, &str) = match kind {
                    0 => ("POST", rng.pick(&posts).clone(), Some("application/json"), b"".to_vec(), "empty_body"),
                    1 => ("POST", rng.pick(&posts).clone(), Some("application/json"), b"{".to_vec(), "truncated_json"),
                    2 => ("POST", rng.pick(&posts).clone(), Some("application/json"), b"null".to_vec(), "json_null"),
                    3 => ("POST", rng.pick(&posts).clone(), Some("application/json"), b"[1,2]".to_vec(), "json_array"),
                    4 => ("POST", rng.pick(&posts).clone(), None, b"{}".to_vec(), "no_content_type"),
                    5 => ("POST", rng.pick(&posts).clone(), Some("text/plain"), b"{}".to_vec(), "text_plain"),
                    6 => ("POST", rng.pick(&posts).clone(), Some("application/json"), vec![0xff, 0xfe, b'{', b'}'], "invalid_utf8"),
                    7 => ("POST", rng.pick(&posts).clone(), Some("application/json"), jbody(&json!({"content": 5, "stride_messages": "x", "limit": {}, "input": [], "tool": 1, "actor_id": 3})), "wrong_types"),
                    8 => (*rng.pick(&["DELETE", "PUT", "PATCH", "GET"]), rng.pick(&posts).clone(), None, vec![], "wrong_method"),
                    _ => (*rng.pick(&["GET", "POST"]), format!("/threads/{t}/{}", rng.pick(&["nope", "events/extra", "%FF", "compaction-status/../messages"])), Some("application/json"), b"{}".to_vec(), "unknown_route"),
                };
                let (st, _) = send(&app, method, &path, ctype, body).await?;
                // only requests the server rejected are in this class; a 2xx means the body was acceptable after all
                let expect = if (400..500).contains(&st) { Expect::Nothing("rejected_4xx") } else { Expect::MayWrite };
                if !(400..500).contains(&st) {
                    // an accepted "malformed" request may have started something we do not track: settle by time
                    tokio::time::sleep(Duration::from_millis(60)).await;
                    r.count("malformed_request_accepted", 1);
                }
                Some(Outcome { route: format!("malformed:{shape}"), status: st, id_class: idc, shape: path.rsplit('/').next().unwrap_or("").chars().take(28).collect(), expect, acked: vec![], detail: json!({"method": method, "path": path, "shape": shape}) })
            }
            Act::DirectRead => {
                let (tid, idc) = self.pick_thread_id(rng, 60);
                let store = app.store();
                let which = rng.below(5);
                let (route, ok) = match which {
                    0 | 1 => ("store::replay_events", store.replay_events(&tid).is_ok()),
                    2 => ("store::list+get", {
                        let _ = store.list();
                        store.get(&tid).is_some()
                    }),
                    3 => ("EventLog::replay_validated", rip_log::EventLog::new(self.store.log_path()).and_then(|l| l.replay_validated()).is_ok()),
                    _ => ("EventLog::replay_stream", rip_log::EventLog::new(self.store.log_path()).and_then(|l| l.replay_stream(rip_kernel::StreamKind::Continuity, &tid)).is_ok()),
                };
                Some(Outcome { route: route.into(), status: if ok { 200 } else { 404 }, id_class: idc, shape: String::new(), expect: Expect::Nothing("replay"), acked: vec![], detail: json!({"thread": tid}) })
            }
            Act::Restart => {
                self.stale.extend(self.sessions_used.drain(..));
                self.stale.extend(self.sessions_fresh.drain(..));
                self.stale.extend(self.tasks.drain(..));
                if self.stale.len() > 12 {
                    let cut = self.stale.len() - 12;
                    self.stale.drain(..cut);
                }
                self.app = None;
                drop(app);
                // a fresh Known for the in-memory view is not needed: message ids stay valid
                self.known.open_runs.clear();
                match App::open(&self.store, self.provider_cfg.clone()) {
                    Ok(a) => self.app = Some(a),
                    Err(e) => {
                        r.inconclusive(&format!("case {} step {}: reopen failed: {e}", self.idx, self.step));
                        self.hung = true;
                        return None;
                    }
                }
                r.count("restarts", 1);
                Some(Outcome { route: "restart".into(), status: 200, id_class: "-", shape: String::new(), expect: Expect::Nothing("restart"), acked: vec![], detail: json!({}) })
            }
            Act::CacheFault => {
                let dir = self.store.streams_dir();
                let files: Vec<PathBuf> = std::fs::read_dir(&dir)
                    .map(|rd| rd.flatten().map(|e| e.path()).filter(|p| p.is_file()).collect())
                    .unwrap_or_default();
                let kind = rng.below(8);
                let what: &'static str = match kind {
                    // the cache root itself unusable (a regular file in its place): every cache write is dropped and
                    // every read answers from the log until a later fault of kind 0 / 5 / 7 clears the way again
                    6 => {
                        let _ = std::fs::remove_dir_all(&dir);
                        let _ = std::fs::remove_file(&dir);
                        let _ = std::fs::write(&dir, b"not a directory");
                        "cache_root_replaced_by_file"
                    }
                    7 => {
                        if dir.is_file() {
                            let _ = std::fs::remove_file(&dir);
                            "cache_root_restored"
                        } else {
                            let _ = std::fs::remove_dir_all(&dir);
                            "delete_all_stream_caches"
                        }
                    }
                    0 => {
                        let _ = std::fs::remove_dir_all(&dir);
                        let _ = std::fs::remove_file(&dir);
                        "delete_all_stream_caches"
                    }
                    1 if !files.is_empty() => {
                        let _ = std::fs::remove_file(rng.pick(&files));
                        "delete_one_cache_file"
                    }
                    2 if !files.is_empty() => {
                        let f = rng.pick(&files);
                        if let Ok(b) = std::fs::read(f) {
                            let cut = rng.usize(b.len() + 1);
                            let _ = std::fs::write(f, &b[..cut]);
                        }
                        "truncate_cache_file"
                    }
                    3 if !files.is_empty() => {
                        let f = rng.pick(&files);
                        if let Ok(mut b) = std::fs::read(f) {
                            b.extend_from_slice(b"{\"garbage\":tru");
                            let _ = std::fs::write(f, &b);
                        }
                        "garbage_tail_in_cache_file"
                    }
                    4 => {
                        let _ = std::fs::remove_file(self.store.data.join("continuities").join("index.json"));
                        "delete_continuity_index"
                    }
                    _ => {
                        let _ = std::fs::remove_dir_all(&dir);
                        let _ = std::fs::remove_file(&dir);
                        let _ = std::fs::remove_file(self.store.data.join("continuities").join("index.json"));
                        "delete_all_caches_and_index"
                    }
                };
                self.any_cache_fault = true;
                self.fault_armed = if what == "cache_root_replaced_by_file" { 10_000 } else { 8 };
                self.last_fault = what;
                r.count("cache_faults_applied", 1);
                r.count(&format!("fault:{what}"), 1);
                // the fault itself is a harness action on cache files only; it must of course leave the log alone
                Some(Outcome { route: format!("cache_fault:{what}"), status: 200, id_class: "-", shape: String::new(), expect: Expect::Nothing("harness_cache_fault"), acked: vec![], detail: json!({"fault": what}) })
            }
        }
    }
}

fn snapshot_done(p: &std::path::Path) -> bool {
    // the snapshot is created after the last log append of the run; a complete JSON array means it is written
    match std::fs::read(p) {
        Ok(b) => serde_json::from_slice::<Value>(&b).map(|v| v.is_array()).unwrap_or(false),
        Err(_) => false,
    }
}
