//! C17 — captured process output is faithful; a task has one well-formed lifecycle.
//!
//! Ground truth: the child process is the harness itself (`rv emit <spec>`, see c17_emit.rs), so
//! every byte written per stream, the write sizes, the pauses and the exit code are known.
//! Task oracle (c17_task.rs): real router via fixture::App, pipes mode; SSE view + events.jsonl view;
//! lifecycle grammar, stored bytes == truth[..cap], delta ranges, previews, summary counters,
//! page walks over GET /tasks/{id}/output, failure classes, cancels at random delays and at
//! `task.emit.after_record` hits, file length at every publish (`task.emit.after_send`).
//! Shell-tool oracle (c17_shell.rs): rip_tools::register_builtin_tools + ToolRunner::run.
//! Pipe lifetime ≠ process lifetime: the child may start descendants (`emit::Tail`) that keep stdout and/or
//! stderr open after it exited, write later (0 … 3.5 s), write to the other stream, write nothing, sit in
//! their own session (escape the cancel's group kill); the child may give a pipe up early and keep running.
//! Such cases are judged on the state left after the last descendant is gone: nothing after the terminal
//! frame, terminal summary == stored log, stored log == what child + descendants wrote up to that frame.
//! PTY mode is excluded (not runnable in this sandbox).

#[path = "c17_emit.rs"]
pub mod emit;
#[path = "c17_pages.rs"]
mod pages;
#[path = "c17_shell.rs"]
mod shell;
#[path = "c17_task.rs"]
mod task;

use crate::fixture::{runtime, App, Store};
use crate::prng::Rng;
use crate::report::{Cfg, Report};
use crate::sched::sched;
use serde_json::{json, Value};

pub use emit::emit_main;

const N_DIRECTED: u64 = 24;

enum Case {
    Task(task::TaskCase),
    Shell(shell::ShellCase),
}

fn ascii_plan(rng: &mut Rng, n: usize, writes: usize) -> emit::Plan {
    let out = emit::gen_payload(rng, emit::Content::Ascii, n);
    let mut ops = Vec::new();
    let each = n.div_ceil(writes.max(1)).max(1);
    let mut left = n;
    while left > 0 {
        let k = each.min(left);
        ops.push((1u8, k, 300));
        left -= k;
    }
    emit::Plan { out, err: b"e\n".to_vec(), ops: [ops, vec![(2u8, 2, 0)]].concat(), exit: 0, linger_ms: 0, shape: "directed".into() }
}

fn base_task(idx: u64, label: &str, plan: emit::Plan) -> task::TaskCase {
    task::TaskCase {
        idx,
        label: label.into(),
        tool: "bash",
        limit_arg: None,
        cap_arg: None,
        class: task::Class::Normal,
        cancel: task::Cancel::None,
        attach: task::Attach::Immediately,
        plan,
        cwd: false,
        env: false,
        walks: 1,
        page_seed: idx,
        starve: false,
        force_page: None,
        tails: Vec::new(),
    }
}

fn base_shell(idx: u64, label: &str, plan: emit::Plan) -> shell::ShellCase {
    shell::ShellCase {
        idx,
        label: label.into(),
        tool: "bash",
        cfg_limit: 16,
        arg_limit: None,
        cap: 16 * 1024 * 1024,
        class: shell::ShClass::Normal,
        plan,
        cwd: false,
        env: false,
        walks: 1,
        page_seed: idx,
        starve: false,
        force_page: None,
        tails: Vec::new(),
    }
}

/// Directed cases: run on every invocation, independent of the seed.
fn directed(idx: u64) -> Case {
    let mut rng = Rng::derive(0xC17, idx);
    let cjk = |n: usize| -> emit::Plan {
        let out = "中文日本".repeat(n / 12 + 1).as_bytes()[..n / 3 * 3].to_vec();
        let len = out.len();
        emit::Plan { out, err: Vec::new(), ops: vec![(1, len, 0)], exit: 0, linger_ms: 0, shape: "directed-cjk".into() }
    };
    match idx {
        // F17: page boundary inside a multi-byte character (task output)
        0 => {
            let mut c = base_task(idx, "F17 task_output pages of 100 bytes over 3-byte characters", cjk(9000));
            c.force_page = Some(100);
            Case::Task(c)
        }
        // F17: same through artifact_fetch
        1 => {
            let mut c = base_shell(idx, "F17 artifact_fetch pages of 100 bytes over 3-byte characters", cjk(9000));
            c.force_page = Some(100);
            Case::Shell(c)
        }
        // F18: preview limit 0
        2 => {
            let mut c = base_task(idx, "F18 max_bytes 0", ascii_plan(&mut rng, 300, 2));
            c.limit_arg = Some(0);
            Case::Task(c)
        }
        // F18: limit smaller than the first character
        3 => {
            let mut c = base_task(idx, "F18 max_bytes 2, output starts with a 3-byte character", cjk(600));
            c.limit_arg = Some(2);
            Case::Task(c)
        }
        // F18: invalid UTF-8 at the start of a chunk larger than the limit
        4 => {
            let mut p = ascii_plan(&mut rng, 5000, 1);
            p.out[0] = 0xFF;
            let mut c = base_task(idx, "F18 max_bytes 100, chunk of 5000 bytes starting with 0xFF", p);
            c.limit_arg = Some(100);
            Case::Task(c)
        }
        // unflushed log file (blocking pool kept busy)
        5 => {
            let mut c = base_task(idx, "flush: 20000 bytes in 3 writes, blocking pool starved", ascii_plan(&mut rng, 20_000, 3));
            c.starve = true;
            Case::Task(c)
        }
        6 => {
            let mut c = base_shell(idx, "flush: 20000 bytes, preview 16, blocking pool starved", ascii_plan(&mut rng, 20_000, 3));
            c.starve = true;
            Case::Shell(c)
        }
        // cancel right after `running` was recorded, child still writing
        7 => {
            let mut p = ascii_plan(&mut rng, 30_000, 10);
            p.linger_ms = 300;
            let mut c = base_task(idx, "cancel at task.emit.after_record seq 1", p);
            c.cancel = task::Cancel::AtRecord(1);
            Case::Task(c)
        }
        // cap == read size, output one byte more
        8 => {
            let mut c = base_task(idx, "8193 bytes, cap 8192, limit 8192", ascii_plan(&mut rng, 8193, 1));
            c.cap_arg = Some(8192);
            c.limit_arg = Some(8192);
            Case::Task(c)
        }
        // shell: caps 0
        9 => {
            let mut c = base_shell(idx, "max_bytes 0 and artifact_max_bytes 0", ascii_plan(&mut rng, 500, 2));
            c.cfg_limit = 0;
            c.cap = 0;
            Case::Shell(c)
        }
        // shell: preview cut inside a character, blob capped inside a character
        10 => {
            let mut c = base_shell(idx, "preview 100 and cap 1000 over 3-byte characters", cjk(3000));
            c.cfg_limit = 100;
            c.cap = 1000;
            Case::Shell(c)
        }
        // ---- pipe lifetime ≠ process lifetime (indexes chosen so that the slow ones spread over the shards)
        // a descendant writes to both streams 3.5 s after the shell exited
        12 => {
            let mut c = base_task(idx, "descendant writes 5000 B stdout + 700 B stderr 3.5 s after the child exited", ascii_plan(&mut rng, 300, 2));
            let (o, e) = (emit::gen_payload(&mut rng, emit::Content::Ascii, 5000), emit::gen_payload(&mut rng, emit::Content::Ascii, 700));
            c.tails = vec![emit::Tail::writer(3500, o, e)];
            Case::Task(c)
        }
        // a descendant holds both pipes for 2.5 s and writes nothing
        13 => {
            let mut c = base_task(idx, "descendant holds stdout+stderr open for 2.5 s, writes nothing", ascii_plan(&mut rng, 300, 2));
            c.tails = vec![emit::Tail::holder(2500, true, true)];
            Case::Task(c)
        }
        // cancel while child + descendant are alive; the descendant sits in its own session, survives the kill, writes later
        14 => {
            let mut p = ascii_plan(&mut rng, 300, 2);
            p.linger_ms = 3000;
            let mut c = base_task(idx, "cancel 200 ms after the child started a descendant in its own session that writes 2.5 s later", p);
            let mut t = emit::Tail::writer(2500, emit::gen_payload(&mut rng, emit::Content::Ascii, 4000), Vec::new());
            t.setsid = true;
            c.tails = vec![t];
            c.cancel = task::Cancel::AfterTailsSpawned(200);
            Case::Task(c)
        }
        // the descendant keeps only stdout and writes there after 1.2 s
        15 => {
            let mut c = base_task(idx, "descendant keeps only stdout, writes 9000 B there 1.2 s after the child exited", ascii_plan(&mut rng, 300, 2));
            let mut t = emit::Tail::writer(1200, emit::gen_payload(&mut rng, emit::Content::Utf8, 9000), Vec::new());
            t.keep_err = false;
            c.tails = vec![t];
            Case::Task(c)
        }
        16 => {
            let mut c = base_task(idx, "descendant writes 100 B stdout 0.2 s after the child exited", ascii_plan(&mut rng, 8193, 2));
            c.tails = vec![emit::Tail::writer(200, emit::gen_payload(&mut rng, emit::Content::Ascii, 100), Vec::new())];
            Case::Task(c)
        }
        // the child only ever wrote stdout; the descendant writes to the other stream
        17 => {
            let mut p = ascii_plan(&mut rng, 1000, 2);
            p.err = Vec::new();
            p.ops.retain(|o| o.0 == 1);
            let mut c = base_task(idx, "child writes stdout only, descendant writes 3000 B stderr 0.8 s later", p);
            c.tails = vec![emit::Tail::writer(800, Vec::new(), emit::gen_payload(&mut rng, emit::Content::Ascii, 3000))];
            Case::Task(c)
        }
        // two descendants: a silent holder of stdout, a stderr-only writer; cancel while only they are alive
        18 => {
            let mut c = base_task(idx, "two descendants (stdout holder 0.8 s, stderr-only writer 0.4 s); cancel 150 ms after the child exited", ascii_plan(&mut rng, 300, 2));
            let mut w = emit::Tail::writer(400, Vec::new(), emit::gen_payload(&mut rng, emit::Content::Ascii, 2000));
            w.keep_out = false;
            c.tails = vec![emit::Tail::holder(800, true, false), w];
            c.cancel = task::Cancel::AfterChildExit(150);
            Case::Task(c)
        }
        // the child gives stdout up early and keeps running (writes stderr for another 1.2 s)
        19 => {
            let out = emit::gen_payload(&mut rng, emit::Content::Ascii, 2000);
            let err = emit::gen_payload(&mut rng, emit::Content::Ascii, 300);
            let p = emit::Plan {
                out,
                err,
                ops: vec![(1, 2000, 0), (11, 0, 0), (2, 100, 400_000), (2, 100, 400_000), (2, 100, 400_000)],
                exit: 3,
                linger_ms: 0,
                shape: "directed-closes-stdout-early".into(),
            };
            Case::Task(base_task(idx, "child closes stdout after 2000 B and keeps writing stderr for 1.2 s", p))
        }
        // cancel while child + descendant are alive, same process group: the kill reaches both
        20 => {
            let mut p = ascii_plan(&mut rng, 300, 2);
            p.linger_ms = 3000;
            let mut c = base_task(idx, "cancel 200 ms after the child started a descendant (same process group) that would write 1.5 s later", p);
            c.tails = vec![emit::Tail::writer(1500, emit::gen_payload(&mut rng, emit::Content::Ascii, 4000), Vec::new())];
            c.cancel = task::Cancel::AfterTailsSpawned(200);
            Case::Task(c)
        }
        // foreground shell tool with a background writer (`cmd &`)
        21 => {
            let mut c = base_shell(idx, "bash tool: descendant writes 5000 B stdout 0.8 s after the child exited (preview 16)", ascii_plan(&mut rng, 300, 2));
            c.tails = vec![emit::Tail::writer(800, emit::gen_payload(&mut rng, emit::Content::Ascii, 5000), Vec::new())];
            Case::Shell(c)
        }
        // descendant writes at once (races the child's exit)
        22 => {
            let mut c = base_task(idx, "descendant writes 20000 B stdout + 100 B stderr immediately", ascii_plan(&mut rng, 300, 2));
            let (o, e) = (emit::gen_payload(&mut rng, emit::Content::Binary, 20_000), emit::gen_payload(&mut rng, emit::Content::Ascii, 100));
            c.tails = vec![emit::Tail::writer(0, o, e)];
            Case::Task(c)
        }
        23 => {
            let mut c = base_shell(idx, "bash tool: stdout holder 0.6 s + descendant writing 3000 B stderr after 1.2 s (preview 100)", ascii_plan(&mut rng, 300, 2));
            c.cfg_limit = 100;
            let mut w = emit::Tail::writer(1200, Vec::new(), emit::gen_payload(&mut rng, emit::Content::Utf8, 3000));
            w.keep_out = false;
            c.tails = vec![emit::Tail::holder(600, true, false), w];
            Case::Shell(c)
        }
        // empty command output, exit code
        _ => {
            let mut p = ascii_plan(&mut rng, 0, 1);
            p.err = Vec::new();
            p.ops.clear();
            p.exit = 42;
            Case::Task(base_task(idx, "no output, exit 42", p))
        }
    }
}

fn make_case(cfg: &Cfg, seed: u64, idx: u64) -> Case {
    if idx < N_DIRECTED {
        return directed(idx);
    }
    let mut rng = Rng::derive(seed, idx);
    if rng.chance(1, 2) {
        Case::Task(task::gen_case(cfg, &mut rng, idx))
    } else {
        Case::Shell(shell::gen_case(cfg, &mut rng, idx))
    }
}

fn find_case_idx(v: &Value) -> Option<u64> {
    match v.get("case") {
        Some(Value::Number(n)) => n.as_u64(),
        Some(o @ Value::Object(_)) => find_case_idx(o),
        _ => None,
    }
}

pub fn run(cfg: &Cfg) -> i32 {
    let mut r = Report::new(
        "C17",
        "exploration",
        "seeded cases, half background tasks through the real router (pipes), half foreground bash/shell tool calls; the child \
         is `rv emit` writing generator-chosen bytes (ASCII / multi-byte text split across writes / binary with NUL and invalid \
         UTF-8 / empty; sizes around the preview limit, 8192/8193 and the artifact cap; chosen write sizes, pauses, exit code) \
         plus 24 directed cases (12 of them: descendants that outlive the child on its pipes — late writers after 0 … 3.5 s, \
         silent holders, other-stream writers, own-session descendants under cancel, child giving a pipe up early; ~1 in 90 \
         random cases gets seeded descendants too); cancels at random delays and at task.emit.after_record hits; random page walks; a case is \
         non-trivial when the child wrote at least one byte; distinct = content class × write style × size-vs-boundary \
         buckets × limits × cancel/attach plan × terminal status × page style",
    );
    r.assume("hook points do not change behaviour beyond timing");
    r.assume("PTY mode excluded (cannot run in this sandbox)");
    r.assume("pipe chunking is influenced by write sizes and pauses but decided by the OS; the oracle never depends on it");
    let s = sched();
    let rt = runtime(6);
    let rt_starved = tokio::runtime::Builder::new_multi_thread()
        .worker_threads(4)
        .max_blocking_threads(1)
        .enable_all()
        .build()
        .expect("starved runtime");

    let (seed, only): (u64, Option<u64>) = match &cfg.replay {
        Some(p) => {
            let doc: Value = std::fs::read(p).ok().and_then(|b| serde_json::from_slice(&b).ok()).unwrap_or(Value::Null);
            let idx = find_case_idx(&doc["witness"]);
            if idx.is_none() {
                r.fatal_inconclusive("replay file carries no case index");
                return r.finish(cfg);
            }
            (doc["seed"].as_u64().unwrap_or(cfg.seed), idx)
        }
        None => (cfg.seed, None),
    };

    let max_cases = cfg.tier.pick(4000u64, 2_000_000u64);
    let mut env: Option<(Store, App, u32)> = None;
    let mut i = 0u64;
    while i < max_cases {
        let idx = match only {
            Some(k) => k,
            None => i,
        };
        i += 1;
        if only.is_none() {
            // directed cases always run, even when the budget is short
            if !cfg.mine(idx) {
                continue;
            }
            // leave ~15 % of the budget for the last case, shard merge and clean-up
            if idx >= N_DIRECTED && r.elapsed() > cfg.budget_s * 0.85 {
                break;
            }
        }
        let case = make_case(cfg, seed, idx);
        let t_case = std::time::Instant::now();
        let trace = std::env::var("RV_C17_TRACE").is_ok();
        let desc = match &case {
            Case::Task(c) => c.describe(),
            Case::Shell(c) => c.describe(),
        };
        match case {
            Case::Task(c) => {
                let rtx = if c.starve { &rt_starved } else { &rt };
                // one router per ~25 tasks (opening an engine costs ~70 ms); a fresh one for starved cases
                let stale = match &env {
                    Some((st, _, n)) => c.starve || *n >= 25 || std::fs::metadata(st.log_path()).map(|m| m.len()).unwrap_or(0) > 3_000_000,
                    None => true,
                };
                if stale {
                    env = None;
                    let st = Store::new("c17t");
                    match App::open(&st, None) {
                        Ok(a) => env = Some((st, a, 0)),
                        Err(e) => {
                            r.inconclusive(&format!("case {idx}: cannot open app: {e}"));
                            continue;
                        }
                    }
                }
                let out = {
                    let (st, app, n) = env.as_mut().expect("env");
                    *n += 1;
                    rtx.block_on(task::run_case(&mut r, &s, &c, st, app))
                };
                if c.starve {
                    env = None;
                }
                s.reset();
                if let Some(o) = out {
                    if o.nontrivial {
                        r.distinct_str(&o.shape);
                    }
                    if idx >= N_DIRECTED {
                        r.sample(c.describe());
                    }
                }
            }
            Case::Shell(c) => {
                let rtx = if c.starve { &rt_starved } else { &rt };
                let out = rtx.block_on(shell::run_case(&mut r, &c));
                if let Some(o) = out {
                    if o.nontrivial {
                        r.distinct_str(&o.shape);
                    }
                    if idx >= N_DIRECTED {
                        r.sample(c.describe());
                    }
                }
            }
        }
        if trace {
            eprintln!("case {idx} {:.0} ms {}", t_case.elapsed().as_secs_f64() * 1000.0, desc);
        }
        if only.is_some() {
            break;
        }
    }
    s.reset();
    drop(env);
    r.note("directed_cases", json!(N_DIRECTED));
    drop(rt);
    drop(rt_starved);
    r.finish(cfg)
}
