//! C11 — workspace mutations never overlap and are logged in the order they happened.
//!
//! Workload: 2–8 parallel sessions (tool / checkpoint envelopes posted to threads, scripted-provider
//! tool loops with several calls per turn, plain sessions) and 0–4 shell tasks on one engine.
//! Monitors:
//!  (1) in-flight accounting at `ws.exec.begin` / `ws.exec.end` (the HARNESS classifies tools), plus a
//!      seeded hold right after a begin was accounted (up to H ms or until another begin shows up) so
//!      that a missing exclusion is seen with near certainty;
//!  (2) black box: shell tools / tasks run `rv mark` which brackets a short sleep with O_APPEND
//!      BEGIN/END lines in one marks file; brackets of different actors must not interleave;
//!  (3) offline thread oracle over the truth log: one side-effects frame per mutating tool call, placed
//!      after the tool's end and before the run's end, listing the changed files, in begin order.

use crate::c06::Heartbeat;
use crate::fixture::{runtime, wait_for, App, Store};
use crate::prng::Rng;
use crate::provider::{
    ev_completed, ev_created, ev_item_added, ev_item_done, ev_text_delta, function_call_item, sse_done, sse_event,
    Provider, Recorded, Reply,
};
use crate::report::{Cfg, Report};
use crate::sched::{sched, Sched};
use crate::truth;
use ripd::verif_export::{OpenResponsesConfig, ToolChoiceParam};
use serde_json::{json, Value};
use std::collections::{BTreeMap, HashMap};
use std::io::Write;
use std::sync::{Arc, Condvar, Mutex};
use std::time::{Duration, Instant};

// ---------------------------------------------------------------------------------------------
// helper sub-command:  rv mark <file> <id> <sleep_ms>

pub fn mark_helper(args: &[String]) -> i32 {
    if args.len() < 3 {
        eprintln!("usage: rv mark <file> <id> <sleep_ms>");
        return 2;
    }
    let file = &args[0];
    let id = &args[1];
    let ms: u64 = args[2].parse().unwrap_or(0);
    let line = |what: &str| -> std::io::Result<()> {
        let mut f = std::fs::OpenOptions::new().create(true).append(true).open(file)?;
        // one write(2) of a whole line on an O_APPEND descriptor: atomic, ordered
        f.write_all(format!("{what} {id} {}\n", now_ns()).as_bytes())
    };
    if line("BEGIN").is_err() {
        return 1;
    }
    std::thread::sleep(Duration::from_millis(ms));
    if line("END").is_err() {
        return 1;
    }
    println!("marked {id}");
    0
}

fn now_ns() -> u128 {
    let mut ts = libc::timespec { tv_sec: 0, tv_nsec: 0 };
    // system-wide monotonic clock: comparable across processes
    unsafe { libc::clock_gettime(libc::CLOCK_MONOTONIC, &mut ts) };
    ts.tv_sec as u128 * 1_000_000_000 + ts.tv_nsec as u128
}

// ---------------------------------------------------------------------------------------------
// (1) in-flight monitor

pub fn is_read_only(tool: &str) -> bool {
    matches!(tool, "read" | "ls" | "grep" | "artifact_fetch")
}

#[derive(Clone, Debug)]
pub struct Begin {
    pub clock: u64,
    pub actor: String,
    pub tool: String,
}

#[derive(Default)]
struct MonState {
    clock: u64,
    /// ctx -> (mutating, begin clock)
    inflight: HashMap<String, (bool, u64)>,
    begins: Vec<Begin>,
    ends: u64,
    end_without_begin: u64,
    /// pairs of tools (sorted) seen mutating at the same time, with the two ctx strings
    mut_overlaps: Vec<(String, String, String, String)>,
    max_mutating: usize,
    ro_with_ro: u64,
    ro_with_mut: u64,
    holds: u64,
    holds_cut_short: u64,
    begin_seen: u64, // bumped at every begin, wakes holders
    rng: Option<Rng>,
    hold_num: u64, // hold probability numerator / 8
    hold_ms: u64,
    side_effect_points: u64,
    sfx_holder: bool,
    sfx_holds: u64,
    sfx_holds_overtaken: u64,
}

pub struct Monitor {
    st: Mutex<MonState>,
    cv: Condvar,
}

impl Monitor {
    fn new() -> Arc<Monitor> {
        Arc::new(Monitor {
            st: Mutex::new(MonState::default()),
            cv: Condvar::new(),
        })
    }

    fn arm(&self, seed: u64, hold_num: u64, hold_ms: u64) {
        let mut g = self.st.lock().unwrap();
        *g = MonState::default();
        g.rng = Some(Rng::new(seed));
        g.hold_num = hold_num;
        g.hold_ms = hold_ms;
    }

    /// wake every holder (watchdog path)
    fn release(&self) {
        let mut g = self.st.lock().unwrap();
        g.begin_seen += 1;
        g.side_effect_points += 1;
        g.hold_ms = 0;
        drop(g);
        self.cv.notify_all();
    }

    fn on_point(&self, name: &'static str, ctx: &str) {
        match name {
            "ws.exec.begin" => {
                let (actor, tool) = ctx.split_once(' ').unwrap_or((ctx, ""));
                let mutating = !is_read_only(tool);
                let mut g = self.st.lock().unwrap();
                g.clock += 1;
                let clock = g.clock;
                g.begin_seen += 1;
                // who else is in flight?
                let others: Vec<(String, bool)> = g.inflight.iter().map(|(k, v)| (k.clone(), v.0)).collect();
                for (octx, omut) in &others {
                    if mutating && *omut {
                        let ot = octx.split_once(' ').map(|x| x.1).unwrap_or("").to_string();
                        let (a, b) = if ot.as_str() <= tool { (ot, tool.to_string()) } else { (tool.to_string(), ot) };
                        g.mut_overlaps.push((a, b, octx.clone(), ctx.to_string()));
                    } else if !mutating && !*omut {
                        g.ro_with_ro += 1;
                    } else {
                        g.ro_with_mut += 1;
                    }
                }
                g.inflight.insert(ctx.to_string(), (mutating, clock));
                let nmut = g.inflight.values().filter(|v| v.0).count();
                g.max_mutating = g.max_mutating.max(nmut);
                g.begins.push(Begin { clock, actor: actor.to_string(), tool: tool.to_string() });
                self.cv.notify_all();
                // seeded hold: stay "in the tool" until somebody else begins, or H ms
                let (num, ms) = (g.hold_num, g.hold_ms);
                let hold = ms > 0 && g.rng.as_mut().map(|r| r.below(8) < num).unwrap_or(false);
                if hold {
                    g.holds += 1;
                    let seen = g.begin_seen;
                    let deadline = Instant::now() + Duration::from_millis(ms);
                    loop {
                        if g.begin_seen != seen {
                            g.holds_cut_short += 1;
                            break;
                        }
                        let now = Instant::now();
                        if now >= deadline {
                            break;
                        }
                        let (ng, _) = self.cv.wait_timeout(g, deadline - now).unwrap();
                        g = ng;
                    }
                }
            }
            "ws.exec.end" => {
                let mut g = self.st.lock().unwrap();
                g.clock += 1;
                g.ends += 1;
                if g.inflight.remove(ctx).is_none() {
                    g.end_without_begin += 1;
                }
            }
            "ws.side_effects.before_append" => {
                // A run is about to write its side-effects frame. Sometimes keep it here until ANOTHER
                // run reaches this same point (only possible if the workspace lock is no longer held)
                // and give that one the time to write its frame first; at most one holder at a time.
                let mut g = self.st.lock().unwrap();
                g.side_effect_points += 1;
                self.cv.notify_all();
                let (num, ms) = (g.hold_num.max(3), g.hold_ms.clamp(10, 25));
                let hold = !g.sfx_holder && g.rng.as_mut().map(|r| r.below(8) < num).unwrap_or(false);
                if hold {
                    g.sfx_holder = true;
                    g.sfx_holds += 1;
                    let seen = g.side_effect_points;
                    let deadline = Instant::now() + Duration::from_millis(ms);
                    let mut overtaken = false;
                    loop {
                        if g.side_effect_points != seen {
                            overtaken = true;
                            break;
                        }
                        let now = Instant::now();
                        if now >= deadline {
                            break;
                        }
                        let (ng, _) = self.cv.wait_timeout(g, deadline - now).unwrap();
                        g = ng;
                    }
                    g.sfx_holder = false;
                    if overtaken {
                        g.sfx_holds_overtaken += 1;
                        drop(g);
                        std::thread::sleep(Duration::from_millis(3));
                    }
                }
            }
            _ => {}
        }
    }
}

// ---------------------------------------------------------------------------------------------
// scripted provider: the plan of a prompt run is looked up by a token in the prompt

#[derive(Clone, Debug)]
pub struct Call {
    pub name: String,
    pub args: Value,
}

type Plans = Arc<Mutex<HashMap<String, Vec<Vec<Call>>>>>;

/// The LAST token in the request: the compiled context may carry earlier messages of the thread.
fn find_token(v: &Value) -> Option<String> {
    let text = v.to_string();
    let i = text.rfind("tok_")?;
    let t: String = text[i..].chars().take_while(|c| c.is_ascii_alphanumeric() || *c == '_').collect();
    Some(t)
}

fn start_provider(plans: Plans) -> Provider {
    Provider::start(Arc::new(move |rec: &Recorded| {
        let body = rec.json().unwrap_or(Value::Null);
        // follow-ups carry previous_response_id = resp_<token>_<turn>
        let (token, turn) = match body.get("previous_response_id").and_then(|x| x.as_str()) {
            Some(prev) if prev.starts_with("resp_") => {
                let rest = &prev[5..];
                match rest.rsplit_once('_') {
                    Some((tok, n)) => (tok.to_string(), n.parse::<usize>().unwrap_or(0)),
                    None => (rest.to_string(), 0),
                }
            }
            _ => (find_token(&body).unwrap_or_else(|| "tok_none".into()), 0),
        };
        let calls: Vec<Call> = plans.lock().unwrap().get(&token).and_then(|p| p.get(turn).cloned()).unwrap_or_default();
        let rid = format!("resp_{token}_{}", turn + 1);
        let mut s = String::new();
        let mut seq = 0u64;
        s.push_str(&sse_event(&ev_created(seq, &rid)));
        seq += 1;
        let mut output = Vec::new();
        if calls.is_empty() {
            s.push_str(&sse_event(&ev_text_delta(seq, "msg_1", "done")));
            seq += 1;
        }
        for (i, c) in calls.iter().enumerate() {
            let item_id = format!("fc_{token}_{turn}_{i}");
            let call_id = format!("call_{token}_{turn}_{i}");
            let args = c.args.to_string();
            s.push_str(&sse_event(&ev_item_added(seq, i as u64, function_call_item(Some(&item_id), &call_id, &c.name, "", "in_progress"))));
            seq += 1;
            let done = function_call_item(Some(&item_id), &call_id, &c.name, &args, "completed");
            s.push_str(&sse_event(&ev_item_done(seq, i as u64, done.clone())));
            seq += 1;
            output.push(done);
        }
        s.push_str(&sse_event(&ev_completed(seq, &rid, Value::Array(output))));
        s.push_str(&sse_done());
        Reply::sse(s)
    }))
}

// ---------------------------------------------------------------------------------------------
// workload vocabulary

#[derive(Clone, Debug)]
pub enum Op {
    Write { path: String, content: String },
    Patch { files: Vec<String> },
    /// `shell` = the registered alias of `bash` (same arguments)
    Bash { mark: String, sleep_ms: u64, shell: bool },
    Read { path: String },
    Ls,
    Grep,
    Fetch,
}

struct Env {
    exe: String,
    marks: String,
}

impl Op {
    fn name(&self) -> &'static str {
        match self {
            Op::Write { .. } => "write",
            Op::Patch { .. } => "apply_patch",
            Op::Bash { shell: true, .. } => "shell",
            Op::Bash { .. } => "bash",
            Op::Read { .. } => "read",
            Op::Ls => "ls",
            Op::Grep => "grep",
            Op::Fetch => "artifact_fetch",
        }
    }
    fn args(&self, env: &Env) -> Value {
        match self {
            Op::Write { path, content } => json!({"path": path, "content": content}),
            Op::Patch { files } => {
                let mut p = String::from("*** Begin Patch\n");
                for f in files {
                    p.push_str(&format!("*** Add File: {f}\n+patched {f}\n"));
                }
                p.push_str("*** End Patch");
                json!({ "patch": p })
            }
            Op::Bash { mark, sleep_ms, .. } => {
                json!({"command": format!("'{}' mark '{}' {} {}", env.exe, env.marks, mark, sleep_ms)})
            }
            Op::Read { path } => json!({ "path": path }),
            Op::Ls => json!({"path": ".", "recursive": true}),
            Op::Grep => json!({"pattern": "seed", "path": "."}),
            Op::Fetch => json!({"id": "0".repeat(64)}),
        }
    }
    fn envelope(&self, env: &Env) -> String {
        json!({"tool": self.name(), "args": self.args(env)}).to_string()
    }
}

fn gen_op(rng: &mut Rng, tag: &str, n: &mut u32, read_bias: u64) -> Op {
    *n += 1;
    let i = *n;
    if rng.below(10) < read_bias {
        match rng.below(4) {
            0 => Op::Read { path: format!("seed{}.txt", rng.below(3)) },
            1 => Op::Ls,
            2 => Op::Grep,
            _ => Op::Fetch,
        }
    } else {
        match rng.below(3) {
            0 => Op::Write { path: format!("w_{tag}_{i}.txt"), content: format!("content {tag} {i}") },
            1 => {
                let mut files = vec![format!("p_{tag}_{i}_a.txt")];
                if rng.bool() {
                    files.push(format!("p_{tag}_{i}_b.txt"));
                }
                Op::Patch { files }
            }
            _ => Op::Bash { mark: format!("sb-{tag}-{i}"), sleep_ms: 3 + rng.below(15), shell: rng.chance(1, 3) },
        }
    }
}

#[derive(Clone, Debug)]
enum Actor {
    Envelope { thread: usize, op: Op },
    Checkpoint { thread: usize },
    Prompt { thread: usize, token: String, turns: Vec<Vec<Op>> },
    Plain { op: Op },
    Task { mark: String, sleep_ms: u64 },
}

impl Actor {
    fn shape(&self) -> String {
        match self {
            Actor::Envelope { op, .. } => format!("env:{}", op.name()),
            Actor::Checkpoint { .. } => "checkpoint:create+rewind".into(),
            Actor::Prompt { turns, .. } => format!(
                "prompt:[{}]",
                turns.iter().map(|t| t.iter().map(|o| o.name()).collect::<Vec<_>>().join(",")).collect::<Vec<_>>().join("|")
            ),
            Actor::Plain { op } => format!("plain:{}", op.name()),
            Actor::Task { .. } => "task".into(),
        }
    }
}

/// What an actor did: the runs it started (session id, thread id if attached, the ops in order).
#[derive(Clone, Debug, Default)]
struct RunRec {
    session_id: String,
    thread: Option<String>,
    ops: Vec<Op>,
    checkpoint: bool,
}

#[derive(Default)]
struct ActorOut {
    runs: Vec<RunRec>,
    task_ids: Vec<String>,
    errors: Vec<String>,
}

async fn wait_file(p: std::path::PathBuf, secs: u64) -> bool {
    wait_for(Duration::from_secs(secs), || if p.exists() { Some(()) } else { None }).await.is_some()
}

async fn post_thread(app: &App, thread: &str, content: &str) -> Result<String, String> {
    let (st, v) = app.json("POST", &format!("/threads/{thread}/messages"), Some(&json!({"content": content}))).await;
    if st != 202 {
        return Err(format!("POST /threads/../messages -> {st}"));
    }
    Ok(v["session_id"].as_str().unwrap_or("").to_string())
}

async fn run_actor(app: App, store_data: std::path::PathBuf, ws: std::path::PathBuf, env: Arc<Env>, threads: Vec<String>, actor: Actor, delay_us: u64) -> ActorOut {
    let mut out = ActorOut::default();
    tokio::time::sleep(Duration::from_micros(delay_us)).await;
    match actor {
        Actor::Envelope { thread, op } => match post_thread(&app, &threads[thread], &op.envelope(&env)).await {
            Ok(sid) => out.runs.push(RunRec { session_id: sid, thread: Some(threads[thread].clone()), ops: vec![op], checkpoint: false }),
            Err(e) => out.errors.push(e),
        },
        Actor::Prompt { thread, token, turns } => {
            match post_thread(&app, &threads[thread], &format!("please do the planned work {token}")).await {
                Ok(sid) => out.runs.push(RunRec {
                    session_id: sid,
                    thread: Some(threads[thread].clone()),
                    ops: turns.into_iter().flatten().collect(),
                    checkpoint: false,
                }),
                Err(e) => out.errors.push(e),
            }
        }
        Actor::Plain { op } => {
            let (st, v) = app.json("POST", "/sessions", None).await;
            let sid = v["session_id"].as_str().unwrap_or("").to_string();
            if st != 201 {
                out.errors.push(format!("POST /sessions -> {st}"));
                return out;
            }
            let (st, _) = app.json("POST", &format!("/sessions/{sid}/input"), Some(&json!({"input": op.envelope(&env)}))).await;
            if st != 202 {
                out.errors.push(format!("POST input -> {st}"));
                return out;
            }
            out.runs.push(RunRec { session_id: sid, thread: None, ops: vec![op], checkpoint: false });
        }
        Actor::Task { mark, sleep_ms } => {
            let cmd = format!("'{}' mark '{}' {} {}", env.exe, env.marks, mark, sleep_ms);
            let (st, v) = app.json("POST", "/tasks", Some(&json!({"tool":"bash","args":{"command":cmd}}))).await;
            if st == 201 {
                out.task_ids.push(v["task_id"].as_str().unwrap_or("").to_string());
            } else {
                out.errors.push(format!("POST /tasks -> {st}"));
            }
        }
        Actor::Checkpoint { thread } => {
            let file = ws.join("seed0.txt").to_string_lossy().to_string();
            let create = json!({"checkpoint":{"action":"create","label":"c11","files":[file]}}).to_string();
            let sid = match post_thread(&app, &threads[thread], &create).await {
                Ok(s) => s,
                Err(e) => {
                    out.errors.push(e);
                    return out;
                }
            };
            out.runs.push(RunRec { session_id: sid.clone(), thread: Some(threads[thread].clone()), ops: vec![], checkpoint: true });
            if !wait_file(store_data.join("snapshots").join(format!("{sid}.json")), 20).await {
                out.errors.push("checkpoint create run did not end".into());
                return out;
            }
            // the checkpoint id is in the run's checkpoint_created frame
            let bytes = std::fs::read(store_data.join("events.jsonl")).unwrap_or_default();
            let text = String::from_utf8_lossy(&bytes);
            let id = text
                .lines()
                .filter(|l| l.contains(&sid) && l.contains("\"type\":\"checkpoint_created\""))
                .find_map(|l| serde_json::from_str::<Value>(l).ok())
                .and_then(|v| v.get("checkpoint_id").and_then(|x| x.as_str()).map(|x| x.to_string()));
            let Some(id) = id else {
                out.errors.push("checkpoint create produced no checkpoint_created frame".into());
                return out;
            };
            let rewind = json!({"checkpoint":{"action":"rewind","id": id}}).to_string();
            match post_thread(&app, &threads[thread], &rewind).await {
                Ok(sid2) => out.runs.push(RunRec { session_id: sid2, thread: Some(threads[thread].clone()), ops: vec![], checkpoint: true }),
                Err(e) => out.errors.push(e),
            }
        }
    }
    out
}

// ---------------------------------------------------------------------------------------------
// entry point

struct World {
    store: Store,
    app: App,
    used: u32,
}

struct Ctx<'a> {
    cfg: &'a Cfg,
    s: Arc<Sched>,
    rt: tokio::runtime::Runtime,
    mon: Arc<Monitor>,
    plans: Plans,
    provider: Provider,
    world: Option<World>,
    exe: String,
    ro_overlap_total: u64,
    ro_mut_overlap_total: u64,
}

pub fn run(cfg: &Cfg) -> i32 {
    let mut r = Report::new(
        "C11",
        "exploration",
        "seeded scenarios on one engine: 2–8 parallel sessions (tool envelopes write/apply_patch/bash/read/ls/grep/\
         artifact_fetch and checkpoint create+rewind envelopes posted to 1–2 threads, scripted-provider tool loops with \
         1–4 calls per turn, plain sessions) and 0–4 shell tasks; noise at ws.exec.begin/end and \
         ws.side_effects.before_append plus a seeded hold right after a begin is accounted (until another begin or H ms); \
         first two cases are directed (all read-only with holds; all mutating with holds). A case is non-trivial when ≥2 \
         mutating executions of different actors were in the case; distinct = hash of the sequence of (actor class, tool) \
         begins in observed order",
    );
    r.assume("hook points do not change behaviour beyond timing");
    r.assume("tool classification is the harness's own: read, ls, grep, artifact_fetch are read-only; everything else (incl. checkpoint envelopes and tasks) mutates");
    r.assume("affected_paths is judged for successful write / apply_patch calls only; for bash the value is recorded, not judged (rip cannot know what a shell command touched)");
    r.max_samples = 5;
    let s = sched();
    let rt = runtime(16);
    let _hb = Heartbeat::start(rt.handle().clone());
    let plans: Plans = Arc::new(Mutex::new(HashMap::new()));
    let provider = start_provider(plans.clone());
    let exe = std::env::current_exe().map(|p| p.to_string_lossy().to_string()).unwrap_or_else(|_| "rv".into());
    let mut cx = Ctx {
        cfg,
        s,
        rt,
        mon: Monitor::new(),
        plans,
        provider,
        world: None,
        exe,
        ro_overlap_total: 0,
        ro_mut_overlap_total: 0,
    };

    if let Some(path) = &cfg.replay {
        let doc: Value = std::fs::read(path).ok().and_then(|b| serde_json::from_slice(&b).ok()).unwrap_or(Value::Null);
        let idx = doc["witness"]["case"].as_u64().unwrap_or(0);
        let seed = doc["seed"].as_u64().unwrap_or(cfg.seed);
        r.note("replay_note", json!("schedule is OS + seeded noise: the same generated case is re-run 5 times"));
        for _ in 0..5 {
            let mut rng = Rng::derive(seed, idx);
            scenario(&mut cx, &mut r, idx, &mut rng);
        }
    } else {
        let max_cases = cfg.tier.pick(400u64, 1_000_000u64);
        let mut idx = 0u64;
        while idx < max_cases && r.elapsed() < cfg.budget_s * 0.92 {
            let i = idx;
            idx += 1;
            if !cfg.mine(i) {
                continue;
            }
            let mut rng = cfg.case_rng(i);
            scenario(&mut cx, &mut r, i, &mut rng);
        }
    }
    cx.s.set_custom(None);
    cx.s.reset();
    r.count("read_only_overlaps_observed", cx.ro_overlap_total);
    r.count("read_only_with_mutating_overlaps_observed", cx.ro_mut_overlap_total);
    if cx.ro_overlap_total + cx.ro_mut_overlap_total == 0 && r.evaluations > 0 {
        r.note(
            "read_only_overlap",
            json!("NOT observed in this run/shard: nothing can be said here about 'read-only tools may overlap freely'"),
        );
        if cfg.shard.1 == 1 {
            r.inconclusive("read-only overlap was never observed");
        }
    }
    cx.world = None;
    let Ctx { rt, provider, .. } = cx;
    drop(provider);
    drop(rt);
    r.finish(cfg)
}

fn open_world(cx: &mut Ctx) -> Result<(), String> {
    let fresh = match &cx.world {
        Some(w) => w.used >= 25,
        None => true,
    };
    if fresh {
        cx.world = None;
        let store = Store::new("c11");
        for i in 0..3 {
            let mut body = String::new();
            for l in 0..400 {
                body.push_str(&format!("seed line {l} of file {i}\n"));
            }
            std::fs::write(store.ws.join(format!("seed{i}.txt")), body).map_err(|e| e.to_string())?;
        }
        let cfg = OpenResponsesConfig {
            endpoint: cx.provider.endpoint(),
            api_key: None,
            model: Some("m".into()),
            headers: vec![],
            tool_choice: ToolChoiceParam::auto(),
            followup_user_message: None,
            stateless_history: false,
            parallel_tool_calls: false,
        };
        let _g = cx.rt.enter();
        let app = App::open(&store, Some(cfg))?;
        cx.world = Some(World { store, app, used: 0 });
    }
    if let Some(w) = cx.world.as_mut() {
        w.used += 1;
    }
    Ok(())
}

fn gen_actors(rng: &mut Rng, idx: u64, n_threads: usize, directed: Option<&str>) -> Vec<Actor> {
    let mut n = 0u32;
    let mut out = Vec::new();
    match directed {
        Some("read_only") => {
            for a in 0..4 {
                let op = gen_op(rng, &format!("c{idx}a{a}"), &mut n, 10);
                out.push(Actor::Envelope { thread: 0, op });
            }
            out.push(Actor::Plain { op: Op::Grep });
            return out;
        }
        Some("mutating") => {
            for a in 0..3 {
                let op = gen_op(rng, &format!("c{idx}a{a}"), &mut n, 0);
                out.push(Actor::Envelope { thread: 0, op });
            }
            out.push(Actor::Task { mark: format!("tk-c{idx}-0"), sleep_ms: 10 });
            out.push(Actor::Checkpoint { thread: 0 });
            out.push(Actor::Plain { op: Op::Write { path: format!("plain_c{idx}.txt"), content: "x".into() } });
            return out;
        }
        _ => {}
    }
    let n_sessions = 2 + rng.usize(7);
    let n_tasks = rng.usize(5);
    let read_bias = [1u64, 3, 5, 8][rng.usize(4)];
    for a in 0..n_sessions {
        let tag = format!("c{idx}a{a}");
        let thread = rng.usize(n_threads);
        let actor = match rng.below(10) {
            0..=4 => Actor::Envelope { thread, op: gen_op(rng, &tag, &mut n, read_bias) },
            5..=7 => {
                let turns = 1 + rng.usize(2);
                let mut t = Vec::new();
                for _ in 0..turns {
                    let calls = 1 + rng.usize(4);
                    t.push((0..calls).map(|_| gen_op(rng, &tag, &mut n, read_bias)).collect());
                }
                Actor::Prompt { thread, token: format!("tok_{tag}"), turns: t }
            }
            8 => Actor::Checkpoint { thread },
            _ => Actor::Plain { op: gen_op(rng, &tag, &mut n, read_bias) },
        };
        out.push(actor);
    }
    for t in 0..n_tasks {
        out.push(Actor::Task { mark: format!("tk-c{idx}-{t}"), sleep_ms: 3 + rng.below(20) });
    }
    out
}

fn scenario(cx: &mut Ctx, r: &mut Report, idx: u64, rng: &mut Rng) {
    if let Err(e) = open_world(cx) {
        r.inconclusive(&format!("case {idx}: cannot open an engine: {e}"));
        return;
    }
    let directed = match idx {
        0 => Some("read_only"),
        1 => Some("mutating"),
        _ => None,
    };
    let n_threads = 1 + rng.usize(2);
    let actors = gen_actors(rng, idx, n_threads, directed);
    let (hold_num, hold_ms) = match directed {
        Some("read_only") => (8, 200),
        Some(_) => (8, 60),
        None => ([0u64, 2, 4, 8][rng.usize(4)], [5u64, 15, 40][rng.usize(3)]),
    };
    let noise_us = [0u64, 300, 1500, 4000][rng.usize(4)];
    let s = cx.s.clone();
    s.reset();
    cx.mon.arm(rng.next_u64(), hold_num, hold_ms);
    let mon = cx.mon.clone();
    s.set_custom(Some(Arc::new(move |name, ctx| mon.on_point(name, ctx))));
    s.set_noise(
        rng.next_u64(),
        &[("ws.exec.begin", noise_us / 2), ("ws.exec.end", noise_us), ("ws.side_effects.before_append", noise_us)],
    );
    // plans of the prompt runs
    {
        let mut p = cx.plans.lock().unwrap();
        p.clear();
    }
    let w = cx.world.as_ref().unwrap();
    let marks = w.store.ws.join(format!("marks-{idx}.txt"));
    let _ = std::fs::remove_file(&marks);
    let env = Arc::new(Env { exe: cx.exe.clone(), marks: marks.to_string_lossy().to_string() });
    {
        let mut p = cx.plans.lock().unwrap();
        for a in &actors {
            if let Actor::Prompt { token, turns, .. } = a {
                let t: Vec<Vec<Call>> = turns
                    .iter()
                    .map(|calls| calls.iter().map(|o| Call { name: o.name().to_string(), args: o.args(&env) }).collect())
                    .collect();
                p.insert(token.clone(), t);
            }
        }
    }
    let delays: Vec<u64> = actors.iter().map(|_| if rng.chance(1, 3) { 0 } else { rng.below(20_000) }).collect();
    let log_start = w.store.log_bytes_settled().len();
    let app = w.app.clone();
    let data = w.store.data.clone();
    let wsdir = w.store.ws.clone();
    let actors2 = actors.clone();
    let (outs, quiet, threads) = cx.rt.block_on(async {
        let st = app.store();
        let mut threads = Vec::new();
        let c0 = st.ensure_default().unwrap_or_default();
        threads.push(c0.clone());
        if n_threads > 1 {
            match st.branch(&c0, Some(format!("c11-{idx}")), None, None, "rv".into(), "c11".into()) {
                Ok((child, _, _)) => threads.push(child),
                Err(_) => threads.push(c0.clone()),
            }
        }
        let mut joins = Vec::new();
        for (a, d) in actors2.into_iter().zip(delays.into_iter()) {
            joins.push(tokio::spawn(run_actor(app.clone(), data.clone(), wsdir.clone(), env.clone(), threads.clone(), a, d)));
        }
        let mut outs = Vec::new();
        let mut stuck = false;
        for j in joins {
            match tokio::time::timeout(Duration::from_secs(25), j).await {
                Ok(Ok(o)) => outs.push(o),
                _ => {
                    stuck = true;
                    outs.push(ActorOut { errors: vec!["actor did not return".into()], ..Default::default() })
                }
            }
        }
        if stuck {
            return (outs, false, threads);
        }
        // quiescence: every run's snapshot written and its run_ended on the thread, every task snapshot written
        let mut files = Vec::new();
        let mut attached = Vec::new();
        for o in &outs {
            for run in &o.runs {
                files.push(data.join("snapshots").join(format!("{}.json", run.session_id)));
                if run.thread.is_some() {
                    attached.push(run.session_id.clone());
                }
            }
            for t in &o.task_ids {
                files.push(data.join("task_snapshots").join(format!("{t}.json")));
            }
        }
        let mut quiet = wait_for(Duration::from_secs(20), || if files.iter().all(|p| p.exists()) { Some(()) } else { None })
            .await
            .is_some();
        let lp = data.join("events.jsonl");
        quiet &= wait_for(Duration::from_secs(10), || {
            let b = std::fs::read(&lp).unwrap_or_default();
            let t = String::from_utf8_lossy(&b[log_start.min(b.len())..]).to_string();
            let ok = attached
                .iter()
                .all(|sid| t.lines().any(|l| l.contains("\"type\":\"continuity_run_ended\"") && l.contains(sid.as_str())));
            if ok {
                Some(())
            } else {
                None
            }
        })
        .await
        .is_some();
        (outs, quiet, threads)
    });
    s.set_custom(None);
    s.reset();
    if !quiet {
        let errors: Vec<String> = outs.iter().flat_map(|o| o.errors.clone()).collect();
        r.inconclusive(&format!("case {idx}: runs/tasks did not quiesce within the watchdog {:?}", &errors[..errors.len().min(3)]));
        cx.mon.release();
        cx.world = None;
        return;
    }
    let errors: Vec<String> = outs.iter().flat_map(|o| o.errors.clone()).collect();
    if !errors.is_empty() {
        r.inconclusive(&format!("case {idx}: actor errors: {:?}", &errors[..errors.len().min(3)]));
    }
    r.eval();
    let shape: Vec<String> = actors.iter().map(|a| a.shape()).collect();
    let witness = |detail: Value| {
        json!({"case": idx, "actors": shape, "hold": [hold_num, hold_ms], "noise_us": noise_us, "threads": n_threads, "detail": detail})
    };
    judge(cx, r, idx, &outs, &threads, log_start, &marks, &witness);
    let _ = std::fs::remove_file(&marks);
    if r.samples.len() < 4 {
        r.sample(witness(json!(null)));
    }
}

// ---------------------------------------------------------------------------------------------
// oracles

#[allow(clippy::too_many_arguments)]
fn judge(
    cx: &mut Ctx,
    r: &mut Report,
    idx: u64,
    outs: &[ActorOut],
    threads: &[String],
    log_start: usize,
    marks: &std::path::Path,
    witness: &dyn Fn(Value) -> Value,
) {
    // ---- (1) in-flight monitor
    let (begins, overlaps, max_mut, ro_ro, ro_mut, ends, ewb, left, holds, cut, sfx_points, sfx_holds, sfx_over) = {
        let g = cx.mon.st.lock().unwrap();
        (
            g.begins.clone(),
            g.mut_overlaps.clone(),
            g.max_mutating,
            g.ro_with_ro,
            g.ro_with_mut,
            g.ends,
            g.end_without_begin,
            g.inflight.len(),
            g.holds,
            g.holds_cut_short,
            g.side_effect_points,
            g.sfx_holds,
            g.sfx_holds_overtaken,
        )
    };
    r.count("holds_before_side_effects_append", sfx_holds);
    r.count("holds_before_side_effects_append_overtaken_by_another_run", sfx_over);
    cx.ro_overlap_total += ro_ro;
    cx.ro_mut_overlap_total += ro_mut;
    r.count("ws_exec_begin_events", begins.len() as u64);
    r.count("ws_exec_end_events", ends);
    r.count("mutating_begins", begins.iter().filter(|b| !is_read_only(&b.tool)).count() as u64);
    r.count("read_only_begins", begins.iter().filter(|b| is_read_only(&b.tool)).count() as u64);
    r.count("holds_after_begin", holds);
    r.count("holds_cut_short_by_another_begin", cut);
    r.count("side_effects_before_append_points", sfx_points);
    r.count("cases_with_read_only_overlap", (ro_ro + ro_mut > 0) as u64);
    let prev = r.extra.get("max_mutating_in_flight_in_this_shard").and_then(|x| x.as_u64()).unwrap_or(0);
    r.note("max_mutating_in_flight_in_this_shard", json!(prev.max(max_mut as u64)));
    for (a, b, ca, cb) in &overlaps {
        r.violation(
            &format!("C11/mutations_overlap/hook/{a}+{b}"),
            &format!("two workspace-mutating executions were in flight at the same time: '{a}' and '{b}' (ws.exec.begin of the second before ws.exec.end of the first)"),
            witness(json!({"first": ca, "second": cb, "begins": begins.iter().map(|b| format!("{}:{} {}", b.clock, &b.actor[..b.actor.len().min(8)], b.tool)).collect::<Vec<_>>()})),
        );
    }
    if ewb > 0 || left > 0 {
        r.inconclusive(&format!("case {idx}: hook accounting unbalanced ({ewb} ends without begin, {left} begins without end)"));
    }
    let mut_actors: std::collections::BTreeSet<&str> =
        begins.iter().filter(|b| !is_read_only(&b.tool)).map(|b| b.actor.as_str()).collect();
    if mut_actors.len() >= 2 {
        let seq: Vec<String> = begins.iter().map(|b| b.tool.clone()).collect();
        r.distinct_str(&seq.join(","));
    }

    // ---- (2) marks file
    let text = std::fs::read_to_string(marks).unwrap_or_default();
    let mut open: Vec<String> = Vec::new();
    let mut brackets = 0u64;
    for line in text.lines() {
        let mut it = line.split(' ');
        let (what, id) = (it.next().unwrap_or(""), it.next().unwrap_or("").to_string());
        match what {
            "BEGIN" => {
                if let Some(other) = open.last() {
                    let cls = |s: &str| if s.starts_with("tk-") { "task" } else { "session_bash" };
                    let (a, b) = (cls(other), cls(&id));
                    let (a, b) = if a <= b { (a, b) } else { (b, a) };
                    r.violation(
                        &format!("C11/mutations_overlap/marks/{a}+{b}"),
                        &format!("shell commands of two actors ran at the same time in the workspace: {id} began before {other} ended (O_APPEND marks file)"),
                        witness(json!({"marks": text.lines().take(40).collect::<Vec<_>>() })),
                    );
                }
                open.push(id);
                brackets += 1;
            }
            "END" => open.retain(|x| *x != id),
            _ => {}
        }
    }
    r.count("mark_brackets", brackets);

    // ---- (3) thread oracle over the log written by this case
    let bytes = cx.world.as_ref().map(|w| w.store.log_bytes_settled()).unwrap_or_default();
    let frames = match truth::parse_log(&bytes[log_start.min(bytes.len())..]) {
        Ok(f) => f,
        Err(e) => {
            r.inconclusive(&format!("case {idx}: log not parseable: {}", e.detail));
            return;
        }
    };
    struct Started {
        line: usize,
        tool_id: String,
        name: String,
    }
    let mut started: HashMap<String, Vec<Started>> = HashMap::new(); // session -> tool_started in seq order
    let mut tool_end: HashMap<String, (usize, String, Option<i64>)> = HashMap::new(); // tool_id -> (line, type, exit)
    struct Sfx {
        line: usize,
        run: String,
        tool_id: String,
        tool_name: String,
        paths: Option<Vec<String>>,
        thread: String,
    }
    let mut sfx: Vec<Sfx> = Vec::new();
    let mut run_ended: HashMap<String, usize> = HashMap::new();
    for f in &frames {
        match f.ty() {
            "tool_started" => started.entry(f.stream_id().to_string()).or_default().push(Started {
                line: f.line_no,
                tool_id: f.s("tool_id").to_string(),
                name: f.s("name").to_string(),
            }),
            "tool_ended" | "tool_failed" => {
                tool_end.insert(f.s("tool_id").to_string(), (f.line_no, f.ty().to_string(), f.v.get("exit_code").and_then(|x| x.as_i64())));
            }
            "continuity_tool_side_effects" => sfx.push(Sfx {
                line: f.line_no,
                run: f.s("run_session_id").to_string(),
                tool_id: f.s("tool_id").to_string(),
                tool_name: f.s("tool_name").to_string(),
                paths: f.v.get("affected_paths").and_then(|x| x.as_array()).map(|a| {
                    a.iter().filter_map(|p| p.as_str()).map(|p| p.trim_start_matches("./").to_string()).collect()
                }),
                thread: f.stream_id().to_string(),
            }),
            "continuity_run_ended" => {
                run_ended.insert(f.s("run_session_id").to_string(), f.line_no);
            }
            _ => {}
        }
    }
    r.count("side_effects_frames", sfx.len() as u64);
    let mut known_tool_ids: HashMap<String, (String, bool)> = HashMap::new(); // tool_id -> (session, attached)
    // tool_id -> clock of its ws.exec.begin (mutating tool calls only)
    let mut begin_clock: HashMap<String, u64> = HashMap::new();
    let mut unmapped = false;
    for o in outs {
        for run in &o.runs {
            let empty = Vec::new();
            let st = started.get(&run.session_id).unwrap_or(&empty);
            for t in st {
                known_tool_ids.insert(t.tool_id.clone(), (run.session_id.clone(), run.thread.is_some()));
            }
            // map begins of this actor to its tool_started frames (same order: one session runs its tools sequentially)
            let b: Vec<&Begin> = begins.iter().filter(|b| b.actor == run.session_id && b.tool != "checkpoint").collect();
            if b.len() == st.len() && b.iter().zip(st.iter()).all(|(b, t)| b.tool == t.name) {
                for (b, t) in b.iter().zip(st.iter()) {
                    begin_clock.insert(t.tool_id.clone(), b.clock);
                }
            } else {
                unmapped = true;
            }
            if run.checkpoint {
                r.count("checkpoint_envelope_runs", 1);
                continue;
            }
            let names: Vec<&str> = st.iter().map(|t| t.name.as_str()).collect();
            let expected: Vec<&str> = run.ops.iter().map(|o| o.name()).collect();
            let as_planned = names == expected;
            if !as_planned {
                r.count("runs_not_as_planned", 1);
                r.inconclusive(&format!("case {idx}: run executed tools {names:?}, planned {expected:?} (provider loop did not follow the script?)"));
            }
            let Some(thread) = &run.thread else {
                r.count("plain_session_tool_calls", st.len() as u64);
                continue;
            };
            for (i, t) in st.iter().enumerate() {
                let mine: Vec<&Sfx> = sfx.iter().filter(|x| x.tool_id == t.tool_id).collect();
                if is_read_only(&t.name) {
                    r.count("read_only_tool_calls_in_attached_runs", 1);
                    r.count("side_effects_frames_for_read_only_calls", mine.len() as u64);
                    continue;
                }
                r.count("mutating_tool_calls_in_attached_runs", 1);
                let w = |d: Value| witness(json!({"run": run.session_id, "tool": t.name, "tool_id": t.tool_id, "detail": d}));
                if mine.len() != 1 {
                    r.violation(
                        &format!("C11/side_effects_frame_count/{}/{}", t.name, if mine.is_empty() { "missing" } else { "duplicated" }),
                        &format!("mutating tool call '{}' of a thread-attached run has {} continuity_tool_side_effects frames (expected exactly 1)", t.name, mine.len()),
                        w(json!(mine.len())),
                    );
                    continue;
                }
                let x = mine[0];
                if x.run != run.session_id || x.thread != *thread || x.tool_name != t.name {
                    r.violation(
                        &format!("C11/side_effects_frame_provenance/{}", t.name),
                        "side-effects frame names another run / thread / tool than the call it belongs to",
                        w(json!({"frame_run": x.run, "frame_thread": x.thread, "frame_tool": x.tool_name})),
                    );
                }
                match tool_end.get(&t.tool_id) {
                    Some((end_line, _, _)) if x.line > *end_line => {}
                    Some(_) => r.violation(
                        &format!("C11/side_effects_before_tool_end/{}", t.name),
                        "side-effects frame was logged before the tool's tool_ended/tool_failed frame",
                        w(json!(null)),
                    ),
                    None => r.inconclusive(&format!("case {idx}: tool {} has no tool_ended/tool_failed frame", t.name)),
                }
                match run_ended.get(&run.session_id) {
                    Some(end) if x.line < *end => {}
                    Some(_) => r.violation(
                        &format!("C11/side_effects_after_run_ended/{}", t.name),
                        "side-effects frame was logged after the run's continuity_run_ended",
                        w(json!(null)),
                    ),
                    None => {}
                }
                let _ = t.line;
                // files changed
                let ok = matches!(tool_end.get(&t.tool_id), Some((_, ty, Some(0))) if ty == "tool_ended");
                if as_planned && ok {
                    let want: Option<Vec<String>> = match &run.ops[i] {
                        Op::Write { path, .. } => Some(vec![path.clone()]),
                        Op::Patch { files } => {
                            let mut f = files.clone();
                            f.sort();
                            Some(f)
                        }
                        _ => None,
                    };
                    if let Some(want) = want {
                        let mut got = x.paths.clone().unwrap_or_default();
                        got.sort();
                        r.count("affected_paths_checked", 1);
                        if got != want {
                            r.violation(
                                &format!("C11/affected_paths/{}", t.name),
                                &format!("side-effects frame lists {:?}, the call changed {:?}", x.paths, want),
                                w(json!({"got": x.paths, "want": want})),
                            );
                        }
                    } else if t.name == "bash" || t.name == "shell" {
                        r.count(if x.paths.is_none() { "bash_affected_paths_null" } else { "bash_affected_paths_listed" }, 1);
                    }
                }
            }
        }
    }
    // frames that belong to no tool call of this case's runs
    for x in &sfx {
        match known_tool_ids.get(&x.tool_id) {
            Some((_, true)) => {}
            Some((_, false)) => r.violation(
                "C11/side_effects_frame_for_unattached_run",
                "a run that is not attached to a thread produced a side-effects frame on a thread",
                witness(json!({"tool": x.tool_name})),
            ),
            None => r.violation(
                &format!("C11/side_effects_frame_orphan/{}", x.tool_name),
                "side-effects frame whose tool_id matches no tool_started frame of any run",
                witness(json!({"tool": x.tool_name, "run": x.run})),
            ),
        }
    }
    // order of the frames on each thread = order of the mutations (begin clocks)
    for th in threads.iter().collect::<std::collections::BTreeSet<_>>() {
        let mut prev: Option<(u64, &Sfx)> = None;
        for x in sfx.iter().filter(|x| &x.thread == th) {
            let Some(c) = begin_clock.get(&x.tool_id) else {
                continue;
            };
            if let Some((pc, px)) = prev {
                if *c < pc {
                    r.violation(
                        "C11/side_effects_order_differs_from_mutation_order",
                        &format!(
                            "thread lists the side effects of '{}' before those of '{}' although '{}' ran first (ws.exec.begin clocks {} vs {})",
                            px.tool_name, x.tool_name, x.tool_name, pc, c
                        ),
                        witness(json!({"first_frame": {"tool": px.tool_name, "run": px.run, "begin_clock": pc},
                                       "second_frame": {"tool": x.tool_name, "run": x.run, "begin_clock": c}})),
                    );
                }
            }
            r.count("side_effects_frames_order_checked", 1);
            prev = Some((*c, x));
        }
    }
    if unmapped {
        r.count("cases_with_unmapped_begins", 1);
    }
    let _: BTreeMap<u8, u8> = BTreeMap::new();
}
