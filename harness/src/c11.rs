//! C11 — workspace mutations never overlap and are logged in the order they happened.
//!
//! Workload: 2–8 parallel sessions (tool / checkpoint envelopes posted to threads, scripted-provider
//! tool loops with several calls per turn, plain sessions) and 0–4 shell tasks on one engine.
//! Monitors:
//!  (1) in-flight accounting at `ws.exec.begin` / `ws.exec.end` (the HARNESS classifies tools), plus a
//!      seeded hold right after a begin was accounted (up to H ms or until another begin shows up) so
//!      that a missing exclusion is seen with near certainty;
//!  (2) black box: shell tools / tasks run `rv mark` which brackets a short sleep with O_APPEND
//!      BEGIN/END lines in one marks file; brackets of different actors must not interleave;
//!  (3) offline thread oracle over the truth log: one side-effects frame per mutating tool call, placed
//!      after the tool's end and before the run's end, listing the changed files, in begin order.
//! Early exits (layered on top of the base scenario from an independent random stream, so the base cases
//! stay what they were): tasks are cancelled (`POST /tasks/{id}/cancel`) while still queued behind another
//! mutation, a seeded delay after the spawn, once running, after they finished, and twice; bash tools
//! get a `timeout_ms` shorter than their command; session handles are dropped (`POST /sessions/{id}/cancel`)
//! while their run is queued or running. None of these may let a command run beside another mutation:
//! (1) and (2) judge them like every other execution, and (2b) crosses the two observations: a shell
//! command's BEGIN..END bracket (CLOCK_MONOTONIC) must not intersect the ws.exec.begin..end interval of a
//! mutating execution of ANOTHER actor (catches a command that outlives its tool's lock).

use crate::c06::Heartbeat;
use crate::fixture::{runtime, wait_for, App, Store};
use crate::prng::Rng;
use crate::provider::{
    ev_completed, ev_created, ev_item_added, ev_item_done, ev_text_delta, function_call_item, sse_done, sse_event,
    Provider, Recorded, Reply,
};
use crate::report::{Cfg, Report};
use crate::sched::{sched, Sched};
use crate::truth;
use ripd::verif_export::{OpenResponsesConfig, ToolChoiceParam};
use serde_json::{json, Value};
use std::collections::{BTreeMap, HashMap};
use std::io::Write;
use std::sync::{Arc, Condvar, Mutex};
use std::time::{Duration, Instant};

// ---------------------------------------------------------------------------------------------
// helper sub-command:  rv mark <file> <id> <sleep_ms>

pub fn mark_helper(args: &[String]) -> i32 {
    if args.len() < 3 {
        eprintln!("usage: rv mark <file> <id> <sleep_ms>");
        return 2;
    }
    let file = &args[0];
    let id = &args[1];
    let ms: u64 = args[2].parse().unwrap_or(0);
    let line = |what: &str| -> std::io::Result<()> {
        let mut f = std::fs::OpenOptions::new().create(true).append(true).open(file)?;
        // one write(2) of a whole line on an O_APPEND descriptor: atomic, ordered
        f.write_all(format!("{what} {id} {}\n", now_ns()).as_bytes())
    };
    if line("BEGIN").is_err() {
        return 1;
    }
    std::thread::sleep(Duration::from_millis(ms));
    if line("END").is_err() {
        return 1;
    }
    println!("marked {id}");
    0
}

fn now_ns() -> u128 {
    let mut ts = libc::timespec { tv_sec: 0, tv_nsec: 0 };
    // system-wide monotonic clock: comparable across processes
    unsafe { libc::clock_gettime(libc::CLOCK_MONOTONIC, &mut ts) };
    ts.tv_sec as u128 * 1_000_000_000 + ts.tv_nsec as u128
}

// ---------------------------------------------------------------------------------------------
// (1) in-flight monitor

pub fn is_read_only(tool: &str) -> bool {
    matches!(tool, "read" | "ls" | "grep" | "artifact_fetch")
}

#[derive(Clone, Debug)]
pub struct Begin {
    pub clock: u64,
    pub actor: String,
    pub tool: String,
    /// CLOCK_MONOTONIC at the hook (the lock, if any, is held at that moment) / at the matching end
    pub begin_ns: u128,
    pub end_ns: Option<u128>,
}

#[derive(Default)]
struct MonState {
    clock: u64,
    /// ctx -> (mutating, begin clock)
    inflight: HashMap<String, (bool, u64)>,
    begins: Vec<Begin>,
    ends: u64,
    end_without_begin: u64,
    /// pairs of tools (sorted) seen mutating at the same time, with the two ctx strings
    mut_overlaps: Vec<(String, String, String, String)>,
    max_mutating: usize,
    ro_with_ro: u64,
    ro_with_mut: u64,
    holds: u64,
    holds_cut_short: u64,
    begin_seen: u64, // bumped at every begin, wakes holders
    rng: Option<Rng>,
    hold_num: u64, // hold probability numerator / 8
    hold_ms: u64,
    side_effect_points: u64,
    sfx_holder: bool,
    /// directed cases: park before the side-effects append this long (default: hold_ms clamped to 10..25)
    sfx_ms: Option<u64>,
    sfx_holds: u64,
    sfx_holds_overtaken: u64,
}

pub struct Monitor {
    st: Mutex<MonState>,
    cv: Condvar,
}

impl Monitor {
    fn new() -> Arc<Monitor> {
        Arc::new(Monitor {
            st: Mutex::new(MonState::default()),
            cv: Condvar::new(),
        })
    }

    fn arm(&self, seed: u64, hold_num: u64, hold_ms: u64, sfx_ms: Option<u64>) {
        let mut g = self.st.lock().unwrap();
        *g = MonState::default();
        g.rng = Some(Rng::new(seed));
        g.hold_num = hold_num;
        g.hold_ms = hold_ms;
        g.sfx_ms = sfx_ms;
    }

    /// wake every holder (watchdog path)
    fn release(&self) {
        let mut g = self.st.lock().unwrap();
        g.begin_seen += 1;
        g.side_effect_points += 1;
        g.hold_ms = 0;
        drop(g);
        self.cv.notify_all();
    }

    /// (some mutating execution of another actor is in flight, `actor` has begun, `actor` is in flight)
    fn phase_of(&self, actor: &str) -> (bool, bool, bool) {
        let g = self.st.lock().unwrap();
        let other = g.inflight.iter().any(|(k, v)| v.0 && k.split_once(' ').map(|x| x.0).unwrap_or(k) != actor);
        let begun = g.begins.iter().any(|b| b.actor == actor);
        let running = g.inflight.keys().any(|k| k.split_once(' ').map(|x| x.0).unwrap_or(k) == actor);
        (other, begun, running)
    }

    fn on_point(&self, name: &'static str, ctx: &str) {
        match name {
            "ws.exec.begin" => {
                let t_ns = now_ns();
                let (actor, tool) = ctx.split_once(' ').unwrap_or((ctx, ""));
                let mutating = !is_read_only(tool);
                let mut g = self.st.lock().unwrap();
                g.clock += 1;
                let clock = g.clock;
                g.begin_seen += 1;
                // who else is in flight?
                let others: Vec<(String, bool)> = g.inflight.iter().map(|(k, v)| (k.clone(), v.0)).collect();
                for (octx, omut) in &others {
                    if mutating && *omut {
                        let ot = octx.split_once(' ').map(|x| x.1).unwrap_or("").to_string();
                        let (a, b) = if ot.as_str() <= tool { (ot, tool.to_string()) } else { (tool.to_string(), ot) };
                        g.mut_overlaps.push((a, b, octx.clone(), ctx.to_string()));
                    } else if !mutating && !*omut {
                        g.ro_with_ro += 1;
                    } else {
                        g.ro_with_mut += 1;
                    }
                }
                g.inflight.insert(ctx.to_string(), (mutating, clock));
                let nmut = g.inflight.values().filter(|v| v.0).count();
                g.max_mutating = g.max_mutating.max(nmut);
                g.begins.push(Begin { clock, actor: actor.to_string(), tool: tool.to_string(), begin_ns: t_ns, end_ns: None });
                self.cv.notify_all();
                // seeded hold: stay "in the tool" until somebody else begins, or H ms
                // (not while a run is parked before its side-effects append: a mutation that can begin then
                // must get the chance to finish and log first - with the lock held this never happens)
                let (num, ms) = (g.hold_num, g.hold_ms);
                let hold = ms > 0 && !(mutating && g.sfx_holder) && g.rng.as_mut().map(|r| r.below(8) < num).unwrap_or(false);
                if hold {
                    g.holds += 1;
                    let seen = g.begin_seen;
                    let deadline = Instant::now() + Duration::from_millis(ms);
                    // block_in_place: the worker's run queue (incl. the task this one has just woken, which
                    // sits in the worker's LIFO slot and cannot be stolen) moves on while this thread is parked
                    tokio::task::block_in_place(move || loop {
                        if g.begin_seen != seen {
                            g.holds_cut_short += 1;
                            break;
                        }
                        let now = Instant::now();
                        if now >= deadline {
                            break;
                        }
                        let (ng, _) = self.cv.wait_timeout(g, deadline - now).unwrap();
                        g = ng;
                    });
                }
            }
            "ws.exec.end" => {
                let t_ns = now_ns();
                let mut g = self.st.lock().unwrap();
                g.clock += 1;
                g.ends += 1;
                match g.inflight.remove(ctx) {
                    None => g.end_without_begin += 1,
                    Some((_, bclock)) => {
                        if let Some(b) = g.begins.iter_mut().rev().find(|b| b.clock == bclock) {
                            b.end_ns = Some(t_ns);
                        }
                    }
                }
            }
            "ws.side_effects.before_append" => {
                // A run is about to write its side-effects frame. Sometimes keep it here until ANOTHER
                // run reaches this same point (only possible if the workspace lock is no longer held)
                // and give that one the time to write its frame first; at most one holder at a time.
                let mut g = self.st.lock().unwrap();
                g.side_effect_points += 1;
                self.cv.notify_all();
                let (num, ms) = (g.hold_num.max(3), g.sfx_ms.unwrap_or(g.hold_ms.clamp(10, 25)));
                let hold = !g.sfx_holder && g.rng.as_mut().map(|r| r.below(8) < num).unwrap_or(false);
                if hold {
                    g.sfx_holder = true;
                    g.sfx_holds += 1;
                    let seen = g.side_effect_points;
                    let deadline = Instant::now() + Duration::from_millis(ms);
                    // block_in_place: a run woken by this one (it got the workspace lock this run released?)
                    // sits in this worker's LIFO slot; it must be able to run while this thread is parked
                    tokio::task::block_in_place(move || {
                    let mut overtaken = false;
                    loop {
                        if g.side_effect_points != seen {
                            overtaken = true;
                            break;
                        }
                        let now = Instant::now();
                        if now >= deadline {
                            break;
                        }
                        let (ng, _) = self.cv.wait_timeout(g, deadline - now).unwrap();
                        g = ng;
                    }
                    g.sfx_holder = false;
                    if overtaken {
                        g.sfx_holds_overtaken += 1;
                        drop(g);
                        // give the overtaker the time to write its frame first (loaded machine: generous;
                        // costs nothing where the lock is held across the append, as nobody can overtake)
                        std::thread::sleep(Duration::from_millis(30));
                    }
                    });
                }
            }
            _ => {}
        }
    }
}

// ---------------------------------------------------------------------------------------------
// scripted provider: the plan of a prompt run is looked up by a token in the prompt

#[derive(Clone, Debug)]
pub struct Call {
    pub name: String,
    pub args: Value,
}

type Plans = Arc<Mutex<HashMap<String, Vec<Vec<Call>>>>>;

/// The LAST token in the request: the compiled context may carry earlier messages of the thread.
fn find_token(v: &Value) -> Option<String> {
    let text = v.to_string();
    let i = text.rfind("tok_")?;
    let t: String = text[i..].chars().take_while(|c| c.is_ascii_alphanumeric() || *c == '_').collect();
    Some(t)
}

fn start_provider(plans: Plans) -> Provider {
    Provider::start(Arc::new(move |rec: &Recorded| {
        let body = rec.json().unwrap_or(Value::Null);
        // follow-ups carry previous_response_id = resp_<token>_<turn>
        let (token, turn) = match body.get("previous_response_id").and_then(|x| x.as_str()) {
            Some(prev) if prev.starts_with("resp_") => {
                let rest = &prev[5..];
                match rest.rsplit_once('_') {
                    Some((tok, n)) => (tok.to_string(), n.parse::<usize>().unwrap_or(0)),
                    None => (rest.to_string(), 0),
                }
            }
            _ => (find_token(&body).unwrap_or_else(|| "tok_none".into()), 0),
        };
        let calls: Vec<Call> = plans.lock().unwrap().get(&token).and_then(|p| p.get(turn).cloned()).unwrap_or_default();
        let rid = format!("resp_{token}_{}", turn + 1);
        let mut s = String::new();
        let mut seq = 0u64;
        s.push_str(&sse_event(&ev_created(seq, &rid)));
        seq += 1;
        let mut output = Vec::new();
        if calls.is_empty() {
            s.push_str(&sse_event(&ev_text_delta(seq, "msg_1", "done")));
            seq += 1;
        }
        for (i, c) in calls.iter().enumerate() {
            let item_id = format!("fc_{token}_{turn}_{i}");
            let call_id = format!("call_{token}_{turn}_{i}");
            let args = c.args.to_string();
            s.push_str(&sse_event(&ev_item_added(seq, i as u64, function_call_item(Some(&item_id), &call_id, &c.name, "", "in_progress"))));
            seq += 1;
            let done = function_call_item(Some(&item_id), &call_id, &c.name, &args, "completed");
            s.push_str(&sse_event(&ev_item_done(seq, i as u64, done.clone())));
            seq += 1;
            output.push(done);
        }
        s.push_str(&sse_event(&ev_completed(seq, &rid, Value::Array(output))));
        s.push_str(&sse_done());
        Reply::sse(s)
    }))
}

// ---------------------------------------------------------------------------------------------
// workload vocabulary

#[derive(Clone, Debug)]
pub enum Op {
    Write { path: String, content: String },
    Patch { files: Vec<String> },
    /// `shell` = the registered alias of `bash` (same arguments); `timeout_ms` (tool envelopes only) is
    /// shorter than the command: the tool call ends early, its command must not run on beside others
    Bash { mark: String, sleep_ms: u64, shell: bool, timeout_ms: Option<u64> },
    Read { path: String },
    Ls,
    Grep,
    Fetch,
}

struct Env {
    exe: String,
    marks: String,
}

impl Op {
    fn name(&self) -> &'static str {
        match self {
            Op::Write { .. } => "write",
            Op::Patch { .. } => "apply_patch",
            Op::Bash { shell: true, .. } => "shell",
            Op::Bash { .. } => "bash",
            Op::Read { .. } => "read",
            Op::Ls => "ls",
            Op::Grep => "grep",
            Op::Fetch => "artifact_fetch",
        }
    }
    fn args(&self, env: &Env) -> Value {
        match self {
            Op::Write { path, content } => json!({"path": path, "content": content}),
            Op::Patch { files } => {
                let mut p = String::from("*** Begin Patch\n");
                for f in files {
                    p.push_str(&format!("*** Add File: {f}\n+patched {f}\n"));
                }
                p.push_str("*** End Patch");
                json!({ "patch": p })
            }
            Op::Bash { mark, sleep_ms, .. } => {
                json!({"command": format!("'{}' mark '{}' {} {}", env.exe, env.marks, mark, sleep_ms)})
            }
            Op::Read { path } => json!({ "path": path }),
            Op::Ls => json!({"path": ".", "recursive": true}),
            Op::Grep => json!({"pattern": "seed", "path": "."}),
            Op::Fetch => json!({"id": "0".repeat(64)}),
        }
    }
    fn envelope(&self, env: &Env) -> String {
        match self {
            Op::Bash { timeout_ms: Some(t), .. } => json!({"tool": self.name(), "args": self.args(env), "timeout_ms": t}).to_string(),
            _ => json!({"tool": self.name(), "args": self.args(env)}).to_string(),
        }
    }
}

fn gen_op(rng: &mut Rng, tag: &str, n: &mut u32, read_bias: u64) -> Op {
    *n += 1;
    let i = *n;
    if rng.below(10) < read_bias {
        match rng.below(4) {
            0 => Op::Read { path: format!("seed{}.txt", rng.below(3)) },
            1 => Op::Ls,
            2 => Op::Grep,
            _ => Op::Fetch,
        }
    } else {
        match rng.below(3) {
            0 => Op::Write { path: format!("w_{tag}_{i}.txt"), content: format!("content {tag} {i}") },
            1 => {
                let mut files = vec![format!("p_{tag}_{i}_a.txt")];
                if rng.bool() {
                    files.push(format!("p_{tag}_{i}_b.txt"));
                }
                Op::Patch { files }
            }
            _ => Op::Bash { mark: format!("sb-{tag}-{i}"), sleep_ms: 3 + rng.below(15), shell: rng.chance(1, 3), timeout_ms: None },
        }
    }
}

#[derive(Clone, Debug)]
enum Actor {
    Envelope { thread: usize, op: Op },
    Checkpoint { thread: usize },
    Prompt { thread: usize, token: String, turns: Vec<Vec<Op>> },
    Plain { op: Op },
    Task { mark: String, sleep_ms: u64, cancel: Option<Cancel> },
}

/// When the (first) cancel of a task is sent.
#[derive(Clone, Copy, Debug, PartialEq)]
enum CancelWhen {
    /// spawn the task only once another mutation is seen in flight (bounded wait): it has to queue
    QueuedBehind,
    /// a delay after the spawn, whatever the task is doing by then
    After,
    /// once its execution began
    Running,
    /// after it reached its terminal state
    Finished,
}

#[derive(Clone, Debug)]
struct Cancel {
    when: CancelWhen,
    /// delay between the trigger of `when` and the cancel
    us: u64,
    /// a second cancel this long after the first
    again_us: Option<u64>,
    reason: bool,
}

impl Cancel {
    fn shape(&self) -> String {
        let w = match self.when {
            CancelWhen::QueuedBehind => "queued",
            CancelWhen::After => "after",
            CancelWhen::Running => "running",
            CancelWhen::Finished => "finished",
        };
        format!("{w}{}", if self.again_us.is_some() { "x2" } else { "" })
    }
}

/// Early exits layered on one actor's session run.
#[derive(Clone, Debug, Default)]
struct Extra {
    /// drop the session handle (`POST /sessions/{id}/cancel`) this long after the input was accepted
    session_cancel_us: Option<u64>,
}

impl Actor {
    fn shape(&self) -> String {
        match self {
            Actor::Envelope { op: op @ Op::Bash { timeout_ms: Some(_), .. }, .. } => format!("env:{}+timeout", op.name()),
            Actor::Plain { op: op @ Op::Bash { timeout_ms: Some(_), .. } } => format!("plain:{}+timeout", op.name()),
            Actor::Envelope { op, .. } => format!("env:{}", op.name()),
            Actor::Checkpoint { .. } => "checkpoint:create+rewind".into(),
            Actor::Prompt { turns, .. } => format!(
                "prompt:[{}]",
                turns.iter().map(|t| t.iter().map(|o| o.name()).collect::<Vec<_>>().join(",")).collect::<Vec<_>>().join("|")
            ),
            Actor::Plain { op } => format!("plain:{}", op.name()),
            Actor::Task { cancel: Some(c), .. } => format!("task+cancel:{}", c.shape()),
            Actor::Task { .. } => "task".into(),
        }
    }
}

/// What an actor did: the runs it started (session id, thread id if attached, the ops in order).
#[derive(Clone, Debug, Default)]
struct RunRec {
    session_id: String,
    thread: Option<String>,
    ops: Vec<Op>,
    checkpoint: bool,
}

#[derive(Default)]
struct ActorOut {
    runs: Vec<RunRec>,
    task_ids: Vec<String>,
    errors: Vec<String>,
    /// (task id, mark id, a cancel was sent)
    task_marks: Vec<(String, String, bool)>,
    /// phase of the task at the moment each cancel was sent (as seen by the in-flight monitor) + HTTP status
    cancels: Vec<(&'static str, u16)>,
    session_cancels: Vec<u16>,
}

async fn wait_file(p: std::path::PathBuf, secs: u64) -> bool {
    wait_for(Duration::from_secs(secs), || if p.exists() { Some(()) } else { None }).await.is_some()
}

async fn post_thread(app: &App, thread: &str, content: &str) -> Result<String, String> {
    let (st, v) = app.json("POST", &format!("/threads/{thread}/messages"), Some(&json!({"content": content}))).await;
    if st != 202 {
        return Err(format!("POST /threads/../messages -> {st}"));
    }
    Ok(v["session_id"].as_str().unwrap_or("").to_string())
}

/// Drop the session handle while its run is queued / running. The run itself goes on (or, should an
/// implementation stop it, ends early): either way its executions stay subject to every oracle.
async fn session_cancel(app: &App, sid: &str, extra: &Extra, out: &mut ActorOut) {
    if let Some(us) = extra.session_cancel_us {
        tokio::time::sleep(Duration::from_micros(us)).await;
        let (st, _) = app.call("POST", &format!("/sessions/{sid}/cancel"), None).await;
        out.session_cancels.push(st);
    }
}

async fn send_cancel(app: &App, mon: &Monitor, task_id: &str, reason: bool, out: &mut ActorOut) {
    let (other, begun, running) = mon.phase_of(task_id);
    let phase = match (begun, running, other) {
        (true, true, _) => "running",
        (true, false, _) => "finished",
        (false, _, true) => "queued_behind_a_mutation_in_flight",
        (false, _, false) => "not_begun_nothing_in_flight",
    };
    let body = if reason { json!({"reason": "c11 early exit"}) } else { json!({}) };
    let (st, _) = app.call("POST", &format!("/tasks/{task_id}/cancel"), Some(&body)).await;
    out.cancels.push((phase, st));
    if st != 202 {
        out.errors.push(format!("POST /tasks/../cancel -> {st}"));
    }
}

#[allow(clippy::too_many_arguments)]
async fn run_actor(
    app: App,
    store_data: std::path::PathBuf,
    ws: std::path::PathBuf,
    env: Arc<Env>,
    threads: Vec<String>,
    actor: Actor,
    delay_us: u64,
    mon: Arc<Monitor>,
    extra: Extra,
) -> ActorOut {
    let mut out = ActorOut::default();
    tokio::time::sleep(Duration::from_micros(delay_us)).await;
    match actor {
        Actor::Envelope { thread, op } => match post_thread(&app, &threads[thread], &op.envelope(&env)).await {
            Ok(sid) => {
                out.runs.push(RunRec { session_id: sid.clone(), thread: Some(threads[thread].clone()), ops: vec![op], checkpoint: false });
                session_cancel(&app, &sid, &extra, &mut out).await;
            }
            Err(e) => out.errors.push(e),
        },
        Actor::Prompt { thread, token, turns } => {
            match post_thread(&app, &threads[thread], &format!("please do the planned work {token}")).await {
                Ok(sid) => {
                    out.runs.push(RunRec {
                        session_id: sid.clone(),
                        thread: Some(threads[thread].clone()),
                        ops: turns.into_iter().flatten().collect(),
                        checkpoint: false,
                    });
                    session_cancel(&app, &sid, &extra, &mut out).await;
                }
                Err(e) => out.errors.push(e),
            }
        }
        Actor::Plain { op } => {
            let (st, v) = app.json("POST", "/sessions", None).await;
            let sid = v["session_id"].as_str().unwrap_or("").to_string();
            if st != 201 {
                out.errors.push(format!("POST /sessions -> {st}"));
                return out;
            }
            let (st, _) = app.json("POST", &format!("/sessions/{sid}/input"), Some(&json!({"input": op.envelope(&env)}))).await;
            if st != 202 {
                out.errors.push(format!("POST input -> {st}"));
                return out;
            }
            out.runs.push(RunRec { session_id: sid.clone(), thread: None, ops: vec![op], checkpoint: false });
            session_cancel(&app, &sid, &extra, &mut out).await;
        }
        Actor::Task { mark, sleep_ms, cancel } => {
            if matches!(&cancel, Some(c) if c.when == CancelWhen::QueuedBehind) {
                // spawn only once somebody else is mutating (bounded wait): the task has to queue
                let m = mon.clone();
                let _ = wait_for(Duration::from_millis(400), || if m.phase_of("").0 { Some(()) } else { None }).await;
            }
            let cmd = format!("'{}' mark '{}' {} {}", env.exe, env.marks, mark, sleep_ms);
            let (st, v) = app.json("POST", "/tasks", Some(&json!({"tool":"bash","args":{"command":cmd}}))).await;
            if st != 201 {
                out.errors.push(format!("POST /tasks -> {st}"));
                return out;
            }
            let task_id = v["task_id"].as_str().unwrap_or("").to_string();
            out.task_ids.push(task_id.clone());
            out.task_marks.push((task_id.clone(), mark.clone(), cancel.is_some()));
            if let Some(c) = cancel {
                let reached = match c.when {
                    CancelWhen::QueuedBehind | CancelWhen::After => true,
                    CancelWhen::Running => {
                        let m = mon.clone();
                        let t = task_id.clone();
                        wait_for(Duration::from_secs(10), || if m.phase_of(&t).1 { Some(()) } else { None }).await.is_some()
                    }
                    CancelWhen::Finished => wait_file(store_data.join("task_snapshots").join(format!("{task_id}.json")), 15).await,
                };
                if !reached {
                    // the trigger never came (overloaded machine): cancel anyway, whatever phase that is
                    out.cancels.push(("trigger_not_reached", 0));
                }
                tokio::time::sleep(Duration::from_micros(c.us)).await;
                send_cancel(&app, &mon, &task_id, c.reason, &mut out).await;
                if let Some(us) = c.again_us {
                    tokio::time::sleep(Duration::from_micros(us)).await;
                    send_cancel(&app, &mon, &task_id, !c.reason, &mut out).await;
                }
            }
        }
        Actor::Checkpoint { thread } => {
            let file = ws.join("seed0.txt").to_string_lossy().to_string();
            let create = json!({"checkpoint":{"action":"create","label":"c11","files":[file]}}).to_string();
            let sid = match post_thread(&app, &threads[thread], &create).await {
                Ok(s) => s,
                Err(e) => {
                    out.errors.push(e);
                    return out;
                }
            };
            out.runs.push(RunRec { session_id: sid.clone(), thread: Some(threads[thread].clone()), ops: vec![], checkpoint: true });
            if !wait_file(store_data.join("snapshots").join(format!("{sid}.json")), 20).await {
                out.errors.push("checkpoint create run did not end".into());
                return out;
            }
            // the checkpoint id is in the run's checkpoint_created frame
            let bytes = std::fs::read(store_data.join("events.jsonl")).unwrap_or_default();
            let text = String::from_utf8_lossy(&bytes);
            let id = text
                .lines()
                .filter(|l| l.contains(&sid) && l.contains("\"type\":\"checkpoint_created\""))
                .find_map(|l| serde_json::from_str::<Value>(l).ok())
                .and_then(|v| v.get("checkpoint_id").and_then(|x| x.as_str()).map(|x| x.to_string()));
            let Some(id) = id else {
                out.errors.push("checkpoint create produced no checkpoint_created frame".into());
                return out;
            };
            let rewind = json!({"checkpoint":{"action":"rewind","id": id}}).to_string();
            match post_thread(&app, &threads[thread], &rewind).await {
                Ok(sid2) => out.runs.push(RunRec { session_id: sid2, thread: Some(threads[thread].clone()), ops: vec![], checkpoint: true }),
                Err(e) => out.errors.push(e),
            }
        }
    }
    out
}

// ---------------------------------------------------------------------------------------------
// entry point

struct World {
    store: Store,
    app: App,
    used: u32,
}

struct Ctx<'a> {
    cfg: &'a Cfg,
    s: Arc<Sched>,
    rt: tokio::runtime::Runtime,
    mon: Arc<Monitor>,
    plans: Plans,
    provider: Provider,
    world: Option<World>,
    exe: String,
    ro_overlap_total: u64,
    ro_mut_overlap_total: u64,
}

pub fn run(cfg: &Cfg) -> i32 {
    let mut r = Report::new(
        "C11",
        "exploration",
        "seeded scenarios on one engine: 2–8 parallel sessions (tool envelopes write/apply_patch/bash/read/ls/grep/\
         artifact_fetch and checkpoint create+rewind envelopes posted to 1–2 threads, scripted-provider tool loops with \
         1–4 calls per turn, plain sessions) and 0–4 shell tasks; noise at ws.exec.begin/end and \
         ws.side_effects.before_append plus a seeded hold right after a begin is accounted (until another begin or H ms); \
         first four cases are directed (all read-only with holds; all mutating with holds; tasks cancelled while queued behind \
         long session commands; mixed mutations with tasks cancelled queued / after a delay / running / finished / twice and a \
         bash tool that times out). 2/5 of the other cases get early exits layered on (own random stream): 2/3 of their tasks \
         + 1–2 extra tasks are cancelled (when: queued behind a mutation seen in flight, seeded delay 0–80 ms after the spawn, \
         once running, after the end; 1/4 twice) and sleep 50–300 ms, 1/4 of the bash envelopes get timeout_ms below their \
         command's duration, 1/6 of the session handles are dropped (POST /sessions/{id}/cancel) mid-run. A case is non-trivial when ≥2 \
         mutating executions of different actors were in the case; distinct = hash of the sequence of (actor class, tool) \
         begins in observed order",
    );
    r.assume("hook points do not change behaviour beyond timing");
    r.assume("tool classification is the harness's own: read, ls, grep, artifact_fetch are read-only; everything else (incl. checkpoint envelopes and tasks) mutates");
    r.assume("a shell command killed between its BEGIN and END mark (task cancelled, tool timed out) counts as ended for commands that begin later; its own BEGIN is judged like any other");
    r.assume("affected_paths is judged for successful write / apply_patch calls only; for bash the value is recorded, not judged (rip cannot know what a shell command touched)");
    r.max_samples = 5;
    let s = sched();
    let rt = runtime(16);
    let _hb = Heartbeat::start(rt.handle().clone());
    let plans: Plans = Arc::new(Mutex::new(HashMap::new()));
    let provider = start_provider(plans.clone());
    let exe = std::env::current_exe().map(|p| p.to_string_lossy().to_string()).unwrap_or_else(|_| "rv".into());
    let mut cx = Ctx {
        cfg,
        s,
        rt,
        mon: Monitor::new(),
        plans,
        provider,
        world: None,
        exe,
        ro_overlap_total: 0,
        ro_mut_overlap_total: 0,
    };

    if let Some(path) = &cfg.replay {
        let doc: Value = std::fs::read(path).ok().and_then(|b| serde_json::from_slice(&b).ok()).unwrap_or(Value::Null);
        let idx = doc["witness"]["case"].as_u64().unwrap_or(0);
        let seed = doc["seed"].as_u64().unwrap_or(cfg.seed);
        r.note("replay_note", json!("schedule is OS + seeded noise: the same generated case is re-run 5 times"));
        for _ in 0..5 {
            let mut rng = Rng::derive(seed, idx);
            scenario(&mut cx, &mut r, idx, &mut rng);
        }
    } else {
        let max_cases = cfg.tier.pick(400u64, 1_000_000u64);
        let mut idx = 0u64;
        while idx < max_cases && r.elapsed() < cfg.budget_s * 0.92 {
            let i = idx;
            idx += 1;
            if !cfg.mine(i) {
                continue;
            }
            let mut rng = cfg.case_rng(i);
            scenario(&mut cx, &mut r, i, &mut rng);
        }
    }
    cx.s.set_custom(None);
    cx.s.reset();
    r.count("read_only_overlaps_observed", cx.ro_overlap_total);
    r.count("read_only_with_mutating_overlaps_observed", cx.ro_mut_overlap_total);
    if cx.ro_overlap_total + cx.ro_mut_overlap_total == 0 && r.evaluations > 0 {
        r.note(
            "read_only_overlap",
            json!("NOT observed in this run/shard: nothing can be said here about 'read-only tools may overlap freely'"),
        );
        if cfg.shard.1 == 1 {
            r.inconclusive("read-only overlap was never observed");
        }
    }
    cx.world = None;
    let Ctx { rt, provider, .. } = cx;
    drop(provider);
    drop(rt);
    r.finish(cfg)
}

fn open_world(cx: &mut Ctx) -> Result<(), String> {
    let fresh = match &cx.world {
        Some(w) => w.used >= 25,
        None => true,
    };
    if fresh {
        cx.world = None;
        let store = Store::new("c11");
        for i in 0..3 {
            let mut body = String::new();
            for l in 0..400 {
                body.push_str(&format!("seed line {l} of file {i}\n"));
            }
            std::fs::write(store.ws.join(format!("seed{i}.txt")), body).map_err(|e| e.to_string())?;
        }
        let cfg = OpenResponsesConfig {
            endpoint: cx.provider.endpoint(),
            api_key: None,
            model: Some("m".into()),
            headers: vec![],
            tool_choice: ToolChoiceParam::auto(),
            followup_user_message: None,
            stateless_history: false,
            parallel_tool_calls: false,
        };
        let _g = cx.rt.enter();
        let app = App::open(&store, Some(cfg))?;
        cx.world = Some(World { store, app, used: 0 });
    }
    if let Some(w) = cx.world.as_mut() {
        w.used += 1;
    }
    Ok(())
}

fn gen_actors(rng: &mut Rng, idx: u64, n_threads: usize, directed: Option<&str>) -> Vec<Actor> {
    let mut n = 0u32;
    let mut out = Vec::new();
    match directed {
        Some("read_only") => {
            for a in 0..4 {
                let op = gen_op(rng, &format!("c{idx}a{a}"), &mut n, 10);
                out.push(Actor::Envelope { thread: 0, op });
            }
            out.push(Actor::Plain { op: Op::Grep });
            return out;
        }
        Some("mutating") => {
            for a in 0..3 {
                let op = gen_op(rng, &format!("c{idx}a{a}"), &mut n, 0);
                out.push(Actor::Envelope { thread: 0, op });
            }
            out.push(Actor::Task { mark: format!("tk-c{idx}-0"), sleep_ms: 10, cancel: None });
            out.push(Actor::Checkpoint { thread: 0 });
            out.push(Actor::Plain { op: Op::Write { path: format!("plain_c{idx}.txt"), content: "x".into() } });
            return out;
        }
        _ => {}
    }
    let n_sessions = 2 + rng.usize(7);
    let n_tasks = rng.usize(5);
    let read_bias = [1u64, 3, 5, 8][rng.usize(4)];
    for a in 0..n_sessions {
        let tag = format!("c{idx}a{a}");
        let thread = rng.usize(n_threads);
        let actor = match rng.below(10) {
            0..=4 => Actor::Envelope { thread, op: gen_op(rng, &tag, &mut n, read_bias) },
            5..=7 => {
                let turns = 1 + rng.usize(2);
                let mut t = Vec::new();
                for _ in 0..turns {
                    let calls = 1 + rng.usize(4);
                    t.push((0..calls).map(|_| gen_op(rng, &tag, &mut n, read_bias)).collect());
                }
                Actor::Prompt { thread, token: format!("tok_{tag}"), turns: t }
            }
            8 => Actor::Checkpoint { thread },
            _ => Actor::Plain { op: gen_op(rng, &tag, &mut n, read_bias) },
        };
        out.push(actor);
    }
    for t in 0..n_tasks {
        out.push(Actor::Task { mark: format!("tk-c{idx}-{t}"), sleep_ms: 3 + rng.below(20), cancel: None });
    }
    out
}

fn gen_cancel(x: &mut Rng, when: CancelWhen) -> Cancel {
    let us = match when {
        // biased to "soon": the task is still queued behind whoever holds the workspace
        CancelWhen::QueuedBehind => [0u64, 300, 1_000, 3_000, 8_000, 20_000][x.usize(6)] + x.below(300),
        CancelWhen::After => [0u64, 500, 2_000, 10_000, 30_000, 80_000][x.usize(6)] + x.below(500),
        CancelWhen::Running => [0u64, 1_000, 5_000, 20_000][x.usize(4)] + x.below(500),
        CancelWhen::Finished => x.below(3_000),
    };
    Cancel { when, us, again_us: if x.chance(1, 4) { Some(x.below(15_000)) } else { None }, reason: x.bool() }
}

/// Directed early-exit cases: the workspace is kept busy by sessions (long shell commands + holds) while
/// tasks are spawned behind them and cancelled in every phase; one bash tool times out.
fn gen_directed_early_exit(x: &mut Rng, idx: u64, which: &str) -> Vec<Actor> {
    let mut out = Vec::new();
    let bash = |a: u32, ms: u64, shell: bool| Op::Bash { mark: format!("sb-c{idx}a{a}-1"), sleep_ms: ms, shell, timeout_ms: None };
    if which == "cancel_queued" {
        out.push(Actor::Envelope { thread: 0, op: bash(0, 120 + x.below(60), false) });
        out.push(Actor::Envelope { thread: 0, op: bash(1, 100 + x.below(60), true) });
        out.push(Actor::Plain { op: bash(2, 80 + x.below(60), false) });
        for t in 0..3u64 {
            let mut c = gen_cancel(x, CancelWhen::QueuedBehind);
            c.us = [1_000u64, 8_000, 25_000][t as usize] + x.below(2_000);
            c.again_us = if t == 1 { Some(5_000) } else { None };
            out.push(Actor::Task { mark: format!("tk-c{idx}-{t}"), sleep_ms: 150 + x.below(100), cancel: Some(c) });
        }
    } else {
        out.push(Actor::Envelope { thread: 0, op: Op::Write { path: format!("w_c{idx}.txt"), content: "directed".into() } });
        out.push(Actor::Envelope { thread: 0, op: Op::Patch { files: vec![format!("p_c{idx}_a.txt")] } });
        out.push(Actor::Checkpoint { thread: 0 });
        out.push(Actor::Envelope { thread: 0, op: bash(3, 60 + x.below(40), false) });
        out.push(Actor::Plain {
            op: Op::Bash { mark: format!("sbt-c{idx}a4-1"), sleep_ms: 100 + x.below(40), shell: false, timeout_ms: Some(5 + x.below(15)) },
        });
        out.push(Actor::Envelope { thread: 0, op: bash(5, 40 + x.below(40), true) });
        for (t, when) in [CancelWhen::QueuedBehind, CancelWhen::After, CancelWhen::Running, CancelWhen::Finished, CancelWhen::QueuedBehind]
            .into_iter()
            .enumerate()
        {
            let mut c = gen_cancel(x, when);
            if t == 4 {
                c.again_us = Some(2_000);
            }
            let ms = if when == CancelWhen::Finished { 5 + x.below(10) } else { 120 + x.below(120) };
            out.push(Actor::Task { mark: format!("tk-c{idx}-{t}"), sleep_ms: ms, cancel: Some(c) });
        }
    }
    out
}

/// Early exits layered on a generated scenario (independent stream `x`): cancels for its tasks, extra
/// cancelled tasks, a timeout on some bash envelopes, dropped session handles.
fn add_early_exits(x: &mut Rng, idx: u64, actors: &mut Vec<Actor>) -> Vec<Extra> {
    let pick_when = |x: &mut Rng| match x.below(10) {
        0..=4 => CancelWhen::QueuedBehind,
        5..=6 => CancelWhen::After,
        7..=8 => CancelWhen::Running,
        _ => CancelWhen::Finished,
    };
    let mut n_tasks = 0u64;
    for a in actors.iter_mut() {
        match a {
            Actor::Task { sleep_ms, cancel, .. } => {
                n_tasks += 1;
                if x.chance(2, 3) {
                    let when = pick_when(x);
                    let c = gen_cancel(x, when);
                    // long enough that a run without the lock would visibly overlap somebody
                    *sleep_ms = if c.when == CancelWhen::Finished { 3 + x.below(15) } else { 50 + x.below(250) };
                    *cancel = Some(c);
                }
            }
            Actor::Envelope { op: Op::Bash { mark, sleep_ms, timeout_ms, .. }, .. } | Actor::Plain { op: Op::Bash { mark, sleep_ms, timeout_ms, .. } } => {
                if x.chance(1, 4) {
                    *mark = mark.replacen("sb-", "sbt-", 1);
                    *sleep_ms = 60 + x.below(90);
                    *timeout_ms = Some(2 + x.below(30));
                }
            }
            _ => {}
        }
    }
    for t in 0..1 + x.below(2) {
        let when = pick_when(x);
        let c = gen_cancel(x, when);
        let ms = if c.when == CancelWhen::Finished { 3 + x.below(15) } else { 50 + x.below(250) };
        actors.push(Actor::Task { mark: format!("tk-c{idx}-{}", n_tasks + t), sleep_ms: ms, cancel: Some(c) });
    }
    actors
        .iter()
        .map(|a| match a {
            Actor::Envelope { .. } | Actor::Prompt { .. } | Actor::Plain { .. } if x.chance(1, 6) => {
                Extra { session_cancel_us: Some([0u64, 500, 5_000, 30_000][x.usize(4)] + x.below(500)) }
            }
            _ => Extra::default(),
        })
        .collect()
}

fn scenario(cx: &mut Ctx, r: &mut Report, idx: u64, rng: &mut Rng) {
    if let Err(e) = open_world(cx) {
        r.inconclusive(&format!("case {idx}: cannot open an engine: {e}"));
        return;
    }
    let directed = match idx {
        0 => Some("read_only"),
        1 => Some("mutating"),
        2 => Some("cancel_queued"),
        3 => Some("early_exit_mix"),
        _ => None,
    };
    // the early-exit dimension draws from its own stream: the base scenario of a case index stays the same
    let mut xrng = Rng::new(rng.clone().next_u64() ^ 0x0C11_EA51_E417_0001);
    let n_threads = 1 + rng.usize(2);
    let mut actors = match directed {
        Some(d @ ("cancel_queued" | "early_exit_mix")) => gen_directed_early_exit(&mut xrng, idx, d),
        _ => gen_actors(rng, idx, n_threads, directed),
    };
    let (mut hold_num, mut hold_ms) = match directed {
        Some("read_only") => (8, 200),
        Some(_) => (8, 60),
        None => ([0u64, 2, 4, 8][rng.usize(4)], [5u64, 15, 40][rng.usize(3)]),
    };
    let early = directed.is_none() && xrng.chance(2, 5);
    let extras: Vec<Extra> = if early {
        // whoever holds the workspace keeps it for a while: a task spawned meanwhile is really queued
        hold_num = hold_num.max(4);
        hold_ms = hold_ms.max(15);
        add_early_exits(&mut xrng, idx, &mut actors)
    } else {
        actors.iter().map(|_| Extra::default()).collect()
    };
    let actors = actors;
    // commands that may be left running by a tool that timed out: give them the time to show up
    let orphan_wait_ms = actors
        .iter()
        .filter_map(|a| match a {
            Actor::Envelope { op: Op::Bash { sleep_ms, timeout_ms: Some(_), .. }, .. } | Actor::Plain { op: Op::Bash { sleep_ms, timeout_ms: Some(_), .. } } => {
                Some(*sleep_ms)
            }
            _ => None,
        })
        .fold(None, |acc: Option<(u64, usize)>, ms| Some((acc.map(|a| a.0).unwrap_or(0).max(ms), acc.map(|a| a.1).unwrap_or(0) + 1)));
    let noise_us = [0u64, 300, 1500, 4000][rng.usize(4)];
    let s = cx.s.clone();
    s.reset();
    // all-mutating directed case: long enough for every queued mutation to run and log meanwhile
    cx.mon.arm(rng.next_u64(), hold_num, hold_ms, if directed == Some("mutating") { Some(150) } else { None });
    let mon = cx.mon.clone();
    s.set_custom(Some(Arc::new(move |name, ctx| mon.on_point(name, ctx))));
    s.set_noise(
        rng.next_u64(),
        &[("ws.exec.begin", noise_us / 2), ("ws.exec.end", noise_us), ("ws.side_effects.before_append", noise_us)],
    );
    // plans of the prompt runs
    {
        let mut p = cx.plans.lock().unwrap();
        p.clear();
    }
    let w = cx.world.as_ref().unwrap();
    let marks = w.store.ws.join(format!("marks-{idx}.txt"));
    let _ = std::fs::remove_file(&marks);
    let env = Arc::new(Env { exe: cx.exe.clone(), marks: marks.to_string_lossy().to_string() });
    {
        let mut p = cx.plans.lock().unwrap();
        for a in &actors {
            if let Actor::Prompt { token, turns, .. } = a {
                let t: Vec<Vec<Call>> = turns
                    .iter()
                    .map(|calls| calls.iter().map(|o| Call { name: o.name().to_string(), args: o.args(&env) }).collect())
                    .collect();
                p.insert(token.clone(), t);
            }
        }
    }
    let delays: Vec<u64> = actors.iter().map(|_| if rng.chance(1, 3) { 0 } else { rng.below(20_000) }).collect();
    let log_start = w.store.log_bytes_settled().len();
    let app = w.app.clone();
    let data = w.store.data.clone();
    let wsdir = w.store.ws.clone();
    let actors2 = actors.clone();
    let mon2 = cx.mon.clone();
    let marks2 = marks.clone();
    let (outs, quiet, threads) = cx.rt.block_on(async {
        let st = app.store();
        let mut threads = Vec::new();
        let c0 = st.ensure_default().unwrap_or_default();
        threads.push(c0.clone());
        if n_threads > 1 {
            match st.branch(&c0, Some(format!("c11-{idx}")), None, None, "rv".into(), "c11".into()) {
                Ok((child, _, _)) => threads.push(child),
                Err(_) => threads.push(c0.clone()),
            }
        }
        let mut joins = Vec::new();
        for ((a, d), x) in actors2.into_iter().zip(delays.into_iter()).zip(extras.into_iter()) {
            joins.push(tokio::spawn(run_actor(app.clone(), data.clone(), wsdir.clone(), env.clone(), threads.clone(), a, d, mon2.clone(), x)));
        }
        let mut outs = Vec::new();
        let mut stuck = false;
        for j in joins {
            match tokio::time::timeout(Duration::from_secs(25), j).await {
                Ok(Ok(o)) => outs.push(o),
                _ => {
                    stuck = true;
                    outs.push(ActorOut { errors: vec!["actor did not return".into()], ..Default::default() })
                }
            }
        }
        if stuck {
            return (outs, false, threads);
        }
        // quiescence: every run's snapshot written and its run_ended on the thread, every task snapshot written
        let mut files = Vec::new();
        let mut attached = Vec::new();
        for o in &outs {
            for run in &o.runs {
                files.push(data.join("snapshots").join(format!("{}.json", run.session_id)));
                if run.thread.is_some() {
                    attached.push(run.session_id.clone());
                }
            }
            for t in &o.task_ids {
                files.push(data.join("task_snapshots").join(format!("{t}.json")));
            }
        }
        let mut quiet = wait_for(Duration::from_secs(20), || if files.iter().all(|p| p.exists()) { Some(()) } else { None })
            .await
            .is_some();
        let lp = data.join("events.jsonl");
        quiet &= wait_for(Duration::from_secs(10), || {
            let b = std::fs::read(&lp).unwrap_or_default();
            let t = String::from_utf8_lossy(&b[log_start.min(b.len())..]).to_string();
            let ok = attached
                .iter()
                .all(|sid| t.lines().any(|l| l.contains("\"type\":\"continuity_run_ended\"") && l.contains(sid.as_str())));
            if ok {
                Some(())
            } else {
                None
            }
        })
        .await
        .is_some();
        if let (true, Some((ms, n))) = (quiet, orphan_wait_ms) {
            // every timed-out command has either written its END or had the time to (it may have been killed)
            let _ = wait_for(Duration::from_millis(ms + 150), || {
                let t = std::fs::read_to_string(&marks2).unwrap_or_default();
                if t.lines().filter(|l| l.starts_with("END sbt-")).count() >= n {
                    Some(())
                } else {
                    None
                }
            })
            .await;
        }
        (outs, quiet, threads)
    });
    s.set_custom(None);
    s.reset();
    if !quiet {
        let errors: Vec<String> = outs.iter().flat_map(|o| o.errors.clone()).collect();
        r.inconclusive(&format!("case {idx}: runs/tasks did not quiesce within the watchdog {:?}", &errors[..errors.len().min(3)]));
        cx.mon.release();
        cx.world = None;
        return;
    }
    let errors: Vec<String> = outs.iter().flat_map(|o| o.errors.clone()).collect();
    if !errors.is_empty() {
        r.inconclusive(&format!("case {idx}: actor errors: {:?}", &errors[..errors.len().min(3)]));
    }
    r.eval();
    let shape: Vec<String> = actors.iter().map(|a| a.shape()).collect();
    let cancels: Vec<String> = outs.iter().flat_map(|o| o.cancels.iter().map(|(p, st)| format!("{p}:{st}"))).collect();
    let witness = |detail: Value| {
        json!({"case": idx, "actors": shape, "hold": [hold_num, hold_ms], "noise_us": noise_us, "threads": n_threads,
               "task_cancels_sent_in_phase": cancels, "detail": detail})
    };
    if early || matches!(directed, Some("cancel_queued" | "early_exit_mix")) {
        r.count("cases_with_early_exits", 1);
    }
    judge(cx, r, idx, &outs, &threads, log_start, &marks, &witness);
    let _ = std::fs::remove_file(&marks);
    if r.samples.len() < 4 {
        r.sample(witness(json!(null)));
    }
}

// ---------------------------------------------------------------------------------------------
// oracles

#[allow(clippy::too_many_arguments)]
fn judge(
    cx: &mut Ctx,
    r: &mut Report,
    idx: u64,
    outs: &[ActorOut],
    threads: &[String],
    log_start: usize,
    marks: &std::path::Path,
    witness: &dyn Fn(Value) -> Value,
) {
    // ---- (1) in-flight monitor
    let (begins, overlaps, max_mut, ro_ro, ro_mut, ends, ewb, left, holds, cut, sfx_points, sfx_holds, sfx_over) = {
        let g = cx.mon.st.lock().unwrap();
        (
            g.begins.clone(),
            g.mut_overlaps.clone(),
            g.max_mutating,
            g.ro_with_ro,
            g.ro_with_mut,
            g.ends,
            g.end_without_begin,
            g.inflight.len(),
            g.holds,
            g.holds_cut_short,
            g.side_effect_points,
            g.sfx_holds,
            g.sfx_holds_overtaken,
        )
    };
    r.count("holds_before_side_effects_append", sfx_holds);
    r.count("holds_before_side_effects_append_overtaken_by_another_run", sfx_over);
    cx.ro_overlap_total += ro_ro;
    cx.ro_mut_overlap_total += ro_mut;
    r.count("ws_exec_begin_events", begins.len() as u64);
    r.count("ws_exec_end_events", ends);
    r.count("mutating_begins", begins.iter().filter(|b| !is_read_only(&b.tool)).count() as u64);
    r.count("read_only_begins", begins.iter().filter(|b| is_read_only(&b.tool)).count() as u64);
    r.count("holds_after_begin", holds);
    r.count("holds_cut_short_by_another_begin", cut);
    r.count("side_effects_before_append_points", sfx_points);
    r.count("cases_with_read_only_overlap", (ro_ro + ro_mut > 0) as u64);
    let prev = r.extra.get("max_mutating_in_flight_in_this_shard").and_then(|x| x.as_u64()).unwrap_or(0);
    r.note("max_mutating_in_flight_in_this_shard", json!(prev.max(max_mut as u64)));
    for (a, b, ca, cb) in &overlaps {
        r.violation(
            &format!("C11/mutations_overlap/hook/{a}+{b}"),
            &format!("two workspace-mutating executions were in flight at the same time: '{a}' and '{b}' (ws.exec.begin of the second before ws.exec.end of the first)"),
            witness(json!({"first": ca, "second": cb, "begins": begins.iter().map(|b| format!("{}:{} {}", b.clock, &b.actor[..b.actor.len().min(8)], b.tool)).collect::<Vec<_>>()})),
        );
    }
    if ewb > 0 || left > 0 {
        r.inconclusive(&format!("case {idx}: hook accounting unbalanced ({ewb} ends without begin, {left} begins without end)"));
    }
    let mut_actors: std::collections::BTreeSet<&str> =
        begins.iter().filter(|b| !is_read_only(&b.tool)).map(|b| b.actor.as_str()).collect();
    if mut_actors.len() >= 2 {
        let seq: Vec<String> = begins.iter().map(|b| b.tool.clone()).collect();
        r.distinct_str(&seq.join(","));
    }

    // ---- (2) marks file
    let text = std::fs::read_to_string(marks).unwrap_or_default();
    // who ran which command, and which commands may legitimately have been killed before their END
    // (task cancelled, tool timed out): those never stay "open", but their own BEGIN is judged like any other
    let mut mark_actor: HashMap<String, String> = HashMap::new();
    let mut may_be_killed: std::collections::HashSet<String> = Default::default();
    for o in outs {
        for (tid, mark, cancelled) in &o.task_marks {
            mark_actor.insert(mark.clone(), tid.clone());
            if *cancelled {
                may_be_killed.insert(mark.clone());
            }
        }
        for run in &o.runs {
            for op in &run.ops {
                if let Op::Bash { mark, timeout_ms, .. } = op {
                    mark_actor.insert(mark.clone(), run.session_id.clone());
                    if timeout_ms.is_some() {
                        may_be_killed.insert(mark.clone());
                    }
                }
            }
        }
        for (phase, st) in &o.cancels {
            r.count(&format!("task_cancels_sent/{phase}"), 1);
            let _ = st;
        }
        for st in &o.session_cancels {
            r.count(&format!("session_handles_dropped/http_{st}"), 1);
        }
    }
    // One signature for every overlap in which the command of a bash tool that hit its `timeout_ms` takes part:
    // whoever it meets (bash, task, write, ...) it is the same fault class (command not reaped by the tool).
    const TIMED_OUT: &str = "session_bash_timed_out";
    const OUTLIVES: &str = "C11/mutations_overlap/command_of_timed_out_bash_tool_still_running";
    let cls = |s: &str| {
        if s.starts_with("tk-") {
            "task"
        } else if s.starts_with("sbt-") {
            TIMED_OUT
        } else {
            "session_bash"
        }
    };
    struct Bracket {
        id: String,
        begin_ns: u128,
        end_ns: Option<u128>,
    }
    let lines: Vec<(&str, String, u128)> = text
        .lines()
        .map(|l| {
            let mut it = l.split(' ');
            (it.next().unwrap_or(""), it.next().unwrap_or("").to_string(), it.next().and_then(|x| x.parse().ok()).unwrap_or(0))
        })
        .collect();
    let ended: std::collections::HashSet<&str> = lines.iter().filter(|l| l.0 == "END").map(|l| l.1.as_str()).collect();
    let mut open: Vec<String> = Vec::new();
    let mut brackets: Vec<Bracket> = Vec::new();
    let mut cut = 0u64;
    for (what, id, ns) in &lines {
        match *what {
            "BEGIN" => {
                if let Some(other) = open.last() {
                    let (a, b) = (cls(other), cls(id));
                    let (a, b) = if a <= b { (a, b) } else { (b, a) };
                    let sig = if a == TIMED_OUT || b == TIMED_OUT { OUTLIVES.to_string() } else { format!("C11/mutations_overlap/marks/{a}+{b}") };
                    r.violation(
                        &sig,
                        &format!("shell commands of two actors ran at the same time in the workspace: {id} began before {other} ended (O_APPEND marks file)"),
                        witness(json!({"marks": text.lines().take(40).collect::<Vec<_>>() })),
                    );
                }
                if !ended.contains(id.as_str()) && may_be_killed.contains(id) {
                    cut += 1; // killed between BEGIN and END: closed for whoever begins later
                } else {
                    open.push(id.clone());
                }
                brackets.push(Bracket { id: id.clone(), begin_ns: *ns, end_ns: None });
            }
            "END" => {
                open.retain(|x| x != id);
                if let Some(b) = brackets.iter_mut().rev().find(|b| b.id == *id) {
                    b.end_ns = Some(*ns);
                }
            }
            _ => {}
        }
    }
    r.count("mark_brackets", brackets.len() as u64);
    r.count("mark_brackets_cut_by_a_kill_before_end", cut);
    let begun_marks: std::collections::HashSet<&str> = brackets.iter().map(|b| b.id.as_str()).collect();
    r.count("cancelled_or_timed_out_commands_with_no_begin_mark", may_be_killed.iter().filter(|m| !begun_marks.contains(m.as_str())).count() as u64);
    r.count("cancelled_or_timed_out_commands_that_ran_to_their_end_mark", may_be_killed.iter().filter(|m| ended.contains(m.as_str())).count() as u64);

    // ---- (2b) marks x hook: a command's bracket must not intersect the ws.exec interval of another
    // actor's mutating execution (same system-wide monotonic clock; in a correct execution a command
    // lies inside its own actor's interval, and the intervals of mutating executions are disjoint)
    for m in &brackets {
        let Some(actor) = mark_actor.get(&m.id) else {
            continue;
        };
        let m_end = m.end_ns.unwrap_or(m.begin_ns);
        if m.begin_ns == 0 {
            continue;
        }
        r.count("mark_brackets_crossed_with_hook_intervals", 1);
        for b in begins.iter().filter(|b| !is_read_only(&b.tool) && b.actor != *actor) {
            if b.begin_ns < m_end && m.begin_ns < b.end_ns.unwrap_or(u128::MAX) {
                let sig = if cls(&m.id) == TIMED_OUT { OUTLIVES.to_string() } else { format!("C11/mutations_overlap/marks_vs_hook/{}+{}", cls(&m.id), b.tool) };
                r.violation(
                    &sig,
                    &format!(
                        "the shell command {} was running (BEGIN..END marks) during the mutating execution '{}' of another actor (ws.exec.begin..end)",
                        m.id, b.tool
                    ),
                    witness(json!({"command": m.id, "command_begin_ns": m.begin_ns.to_string(), "command_end_ns": m.end_ns.map(|x| x.to_string()),
                                   "other": format!("{} {}", b.actor, b.tool), "other_begin_ns": b.begin_ns.to_string(), "other_end_ns": b.end_ns.map(|x| x.to_string()),
                                   "marks": text.lines().take(40).collect::<Vec<_>>() })),
                );
            }
        }
    }

    // ---- (3) thread oracle over the log written by this case
    let bytes = cx.world.as_ref().map(|w| w.store.log_bytes_settled()).unwrap_or_default();
    let frames = match truth::parse_log(&bytes[log_start.min(bytes.len())..]) {
        Ok(f) => f,
        Err(e) => {
            r.inconclusive(&format!("case {idx}: log not parseable: {}", e.detail));
            return;
        }
    };
    struct Started {
        line: usize,
        tool_id: String,
        name: String,
    }
    let mut started: HashMap<String, Vec<Started>> = HashMap::new(); // session -> tool_started in seq order
    let mut tool_end: HashMap<String, (usize, String, Option<i64>)> = HashMap::new(); // tool_id -> (line, type, exit)
    struct Sfx {
        line: usize,
        run: String,
        tool_id: String,
        tool_name: String,
        paths: Option<Vec<String>>,
        thread: String,
    }
    let mut sfx: Vec<Sfx> = Vec::new();
    let mut run_ended: HashMap<String, usize> = HashMap::new();
    let mut task_status: HashMap<String, String> = HashMap::new();
    for f in &frames {
        match f.ty() {
            "tool_started" => started.entry(f.stream_id().to_string()).or_default().push(Started {
                line: f.line_no,
                tool_id: f.s("tool_id").to_string(),
                name: f.s("name").to_string(),
            }),
            "tool_ended" | "tool_failed" => {
                tool_end.insert(f.s("tool_id").to_string(), (f.line_no, f.ty().to_string(), f.v.get("exit_code").and_then(|x| x.as_i64())));
            }
            "continuity_tool_side_effects" => sfx.push(Sfx {
                line: f.line_no,
                run: f.s("run_session_id").to_string(),
                tool_id: f.s("tool_id").to_string(),
                tool_name: f.s("tool_name").to_string(),
                paths: f.v.get("affected_paths").and_then(|x| x.as_array()).map(|a| {
                    a.iter().filter_map(|p| p.as_str()).map(|p| p.trim_start_matches("./").to_string()).collect()
                }),
                thread: f.stream_id().to_string(),
            }),
            "continuity_run_ended" => {
                run_ended.insert(f.s("run_session_id").to_string(), f.line_no);
            }
            "tool_task_status" => {
                // the last one of a task is its terminal status
                task_status.insert(f.s("task_id").to_string(), f.s("status").to_string());
            }
            _ => {}
        }
    }
    r.count("side_effects_frames", sfx.len() as u64);
    r.count(
        "tool_calls_failed_with_timeout",
        frames.iter().filter(|f| f.ty() == "tool_failed" && f.s("error") == "timeout").count() as u64,
    );
    for o in outs {
        for (tid, _, cancelled) in &o.task_marks {
            let st = task_status.get(tid).map(|x| x.as_str()).unwrap_or("none");
            r.count(&format!("task_terminal_status/{}/{st}", if *cancelled { "cancel_sent" } else { "no_cancel" }), 1);
            if !matches!(st, "exited" | "cancelled" | "failed") {
                r.inconclusive(&format!("case {idx}: task snapshot written but last tool_task_status is '{st}'"));
            }
        }
    }
    let mut known_tool_ids: HashMap<String, (String, bool)> = HashMap::new(); // tool_id -> (session, attached)
    // tool_id -> clock of its ws.exec.begin (mutating tool calls only)
    let mut begin_clock: HashMap<String, u64> = HashMap::new();
    let mut unmapped = false;
    for o in outs {
        for run in &o.runs {
            let empty = Vec::new();
            let st = started.get(&run.session_id).unwrap_or(&empty);
            for t in st {
                known_tool_ids.insert(t.tool_id.clone(), (run.session_id.clone(), run.thread.is_some()));
            }
            // map begins of this actor to its tool_started frames (same order: one session runs its tools sequentially)
            let b: Vec<&Begin> = begins.iter().filter(|b| b.actor == run.session_id && b.tool != "checkpoint").collect();
            if b.len() == st.len() && b.iter().zip(st.iter()).all(|(b, t)| b.tool == t.name) {
                for (b, t) in b.iter().zip(st.iter()) {
                    begin_clock.insert(t.tool_id.clone(), b.clock);
                }
            } else {
                unmapped = true;
            }
            if run.checkpoint {
                r.count("checkpoint_envelope_runs", 1);
                continue;
            }
            let names: Vec<&str> = st.iter().map(|t| t.name.as_str()).collect();
            let expected: Vec<&str> = run.ops.iter().map(|o| o.name()).collect();
            let as_planned = names == expected;
            if !as_planned {
                r.count("runs_not_as_planned", 1);
                r.inconclusive(&format!("case {idx}: run executed tools {names:?}, planned {expected:?} (provider loop did not follow the script?)"));
            }
            let Some(thread) = &run.thread else {
                r.count("plain_session_tool_calls", st.len() as u64);
                continue;
            };
            for (i, t) in st.iter().enumerate() {
                let mine: Vec<&Sfx> = sfx.iter().filter(|x| x.tool_id == t.tool_id).collect();
                if is_read_only(&t.name) {
                    r.count("read_only_tool_calls_in_attached_runs", 1);
                    r.count("side_effects_frames_for_read_only_calls", mine.len() as u64);
                    continue;
                }
                r.count("mutating_tool_calls_in_attached_runs", 1);
                let w = |d: Value| witness(json!({"run": run.session_id, "tool": t.name, "tool_id": t.tool_id, "detail": d}));
                if mine.len() != 1 {
                    r.violation(
                        &format!("C11/side_effects_frame_count/{}/{}", t.name, if mine.is_empty() { "missing" } else { "duplicated" }),
                        &format!("mutating tool call '{}' of a thread-attached run has {} continuity_tool_side_effects frames (expected exactly 1)", t.name, mine.len()),
                        w(json!(mine.len())),
                    );
                    continue;
                }
                let x = mine[0];
                if x.run != run.session_id || x.thread != *thread || x.tool_name != t.name {
                    r.violation(
                        &format!("C11/side_effects_frame_provenance/{}", t.name),
                        "side-effects frame names another run / thread / tool than the call it belongs to",
                        w(json!({"frame_run": x.run, "frame_thread": x.thread, "frame_tool": x.tool_name})),
                    );
                }
                match tool_end.get(&t.tool_id) {
                    Some((end_line, _, _)) if x.line > *end_line => {}
                    Some(_) => r.violation(
                        &format!("C11/side_effects_before_tool_end/{}", t.name),
                        "side-effects frame was logged before the tool's tool_ended/tool_failed frame",
                        w(json!(null)),
                    ),
                    None => r.inconclusive(&format!("case {idx}: tool {} has no tool_ended/tool_failed frame", t.name)),
                }
                match run_ended.get(&run.session_id) {
                    Some(end) if x.line < *end => {}
                    Some(_) => r.violation(
                        &format!("C11/side_effects_after_run_ended/{}", t.name),
                        "side-effects frame was logged after the run's continuity_run_ended",
                        w(json!(null)),
                    ),
                    None => {}
                }
                let _ = t.line;
                // files changed
                let ok = matches!(tool_end.get(&t.tool_id), Some((_, ty, Some(0))) if ty == "tool_ended");
                if as_planned && ok {
                    let want: Option<Vec<String>> = match &run.ops[i] {
                        Op::Write { path, .. } => Some(vec![path.clone()]),
                        Op::Patch { files } => {
                            let mut f = files.clone();
                            f.sort();
                            Some(f)
                        }
                        _ => None,
                    };
                    if let Some(want) = want {
                        let mut got = x.paths.clone().unwrap_or_default();
                        got.sort();
                        r.count("affected_paths_checked", 1);
                        if got != want {
                            r.violation(
                                &format!("C11/affected_paths/{}", t.name),
                                &format!("side-effects frame lists {:?}, the call changed {:?}", x.paths, want),
                                w(json!({"got": x.paths, "want": want})),
                            );
                        }
                    } else if t.name == "bash" || t.name == "shell" {
                        r.count(if x.paths.is_none() { "bash_affected_paths_null" } else { "bash_affected_paths_listed" }, 1);
                    }
                }
            }
        }
    }
    // frames that belong to no tool call of this case's runs
    for x in &sfx {
        match known_tool_ids.get(&x.tool_id) {
            Some((_, true)) => {}
            Some((_, false)) => r.violation(
                "C11/side_effects_frame_for_unattached_run",
                "a run that is not attached to a thread produced a side-effects frame on a thread",
                witness(json!({"tool": x.tool_name})),
            ),
            None => r.violation(
                &format!("C11/side_effects_frame_orphan/{}", x.tool_name),
                "side-effects frame whose tool_id matches no tool_started frame of any run",
                witness(json!({"tool": x.tool_name, "run": x.run})),
            ),
        }
    }
    // order of the frames on each thread = order of the mutations (begin clocks)
    for th in threads.iter().collect::<std::collections::BTreeSet<_>>() {
        let mut prev: Option<(u64, &Sfx)> = None;
        for x in sfx.iter().filter(|x| &x.thread == th) {
            let Some(c) = begin_clock.get(&x.tool_id) else {
                continue;
            };
            if let Some((pc, px)) = prev {
                if *c < pc {
                    r.violation(
                        "C11/side_effects_order_differs_from_mutation_order",
                        &format!(
                            "thread lists the side effects of '{}' before those of '{}' although '{}' ran first (ws.exec.begin clocks {} vs {})",
                            px.tool_name, x.tool_name, x.tool_name, pc, c
                        ),
                        witness(json!({"first_frame": {"tool": px.tool_name, "run": px.run, "begin_clock": pc},
                                       "second_frame": {"tool": x.tool_name, "run": x.run, "begin_clock": c}})),
                    );
                }
            }
            r.count("side_effects_frames_order_checked", 1);
            prev = Some((*c, x));
        }
    }
    if unmapped {
        r.count("cases_with_unmapped_begins", 1);
    }
    let _: BTreeMap<u8, u8> = BTreeMap::new();
}
