//! Handler library for the `verif` hook points: recorder, noise, rendezvous, step budget.
//!
//! One `Sched` is installed per process (the hook handler is process-global); its behaviour is
//! reconfigured between cases. Monitor state is updated under the handler's own mutex, i.e.
//! atomically with the event it shadows.

use crate::prng::Rng;
use std::cell::Cell;
use std::collections::{BTreeMap, HashMap};
use std::sync::{Arc, Condvar, Mutex, OnceLock};
use std::time::{Duration, Instant};

#[derive(Clone, Debug)]
pub struct Ev {
    pub clock: u64,
    pub thread: u64,
    pub point: &'static str,
    pub ctx: String,
}

/// "park at `at` (ctx containing `at_ctx`, n-th matching hit) until `until` (ctx containing
/// `until_ctx`) has been passed `until_count` times since the rule was armed, or timeout".
#[derive(Clone, Debug)]
pub struct ParkRule {
    pub at: &'static str,
    pub at_ctx: String,
    pub nth: u64,
    pub until: &'static str,
    pub until_ctx: String,
    pub until_count: u64,
    pub timeout_ms: u64,
    // state
    pub hits: u64,
    pub fired: bool,
    pub timed_out: bool,
    pub released: bool,
}

impl ParkRule {
    pub fn new(
        at: &'static str,
        at_ctx: &str,
        nth: u64,
        until: &'static str,
        until_ctx: &str,
        until_count: u64,
    ) -> Self {
        ParkRule {
            at,
            at_ctx: at_ctx.to_string(),
            nth,
            until,
            until_ctx: until_ctx.to_string(),
            until_count,
            timeout_ms: 3000,
            hits: 0,
            fired: false,
            timed_out: false,
            released: false,
        }
    }
}

pub type Custom = Arc<dyn Fn(&'static str, &str) + Send + Sync>;

#[derive(Default)]
struct Inner {
    clock: u64,
    recording: bool,
    record_filter: Vec<&'static str>, // prefixes; empty = all
    events: Vec<Ev>,
    counts: BTreeMap<&'static str, u64>,
    noise: Vec<(&'static str, u64)>, // prefix, max_us
    noise_rng: Option<Rng>,
    rules: Vec<ParkRule>,
    // passes of (point, ctx) since last reset, for rendezvous conditions
    passes: Vec<(&'static str, String)>,
    custom: Option<Custom>,
}

pub struct Sched {
    inner: Mutex<Inner>,
    cv: Condvar,
}

static SCHED: OnceLock<Arc<Sched>> = OnceLock::new();

thread_local! {
    static BUDGET: Cell<i64> = const { Cell::new(-1) };
    static BUDGET_USED: Cell<u64> = const { Cell::new(0) };
    static TID: Cell<u64> = const { Cell::new(0) };
}

static NEXT_TID: std::sync::atomic::AtomicU64 = std::sync::atomic::AtomicU64::new(1);

pub fn thread_no() -> u64 {
    TID.with(|t| {
        if t.get() == 0 {
            t.set(NEXT_TID.fetch_add(1, std::sync::atomic::Ordering::Relaxed));
        }
        t.get()
    })
}

/// Sentinel panic payload used by the step budget.
pub struct BudgetExceeded(pub u64);

/// Install the process-wide scheduler (idempotent) and return it.
pub fn sched() -> Arc<Sched> {
    SCHED
        .get_or_init(|| {
            let s = Arc::new(Sched {
                inner: Mutex::new(Inner::default()),
                cv: Condvar::new(),
            });
            let s2 = s.clone();
            rip_kernel::verif::set_handler(Arc::new(move |name, ctx| s2.on_point(name, ctx)));
            s
        })
        .clone()
}

fn matches(prefix: &str, name: &str) -> bool {
    match prefix.strip_suffix('*') {
        Some(p) => name.starts_with(p),
        None => prefix == name,
    }
}

impl Sched {
    fn lock(&self) -> std::sync::MutexGuard<'_, Inner> {
        self.inner.lock().unwrap_or_else(|e| e.into_inner())
    }

    /// Reset everything between cases.
    pub fn reset(&self) {
        let mut g = self.lock();
        *g = Inner::default();
        drop(g);
        self.cv.notify_all();
    }

    pub fn record(&self, on: bool, filter: &[&'static str]) {
        let mut g = self.lock();
        g.recording = on;
        g.record_filter = filter.to_vec();
    }

    pub fn take_events(&self) -> Vec<Ev> {
        std::mem::take(&mut self.lock().events)
    }

    pub fn events_len(&self) -> usize {
        self.lock().events.len()
    }

    pub fn counts(&self) -> BTreeMap<&'static str, u64> {
        self.lock().counts.clone()
    }

    pub fn count_of(&self, name: &str) -> u64 {
        self.lock().counts.iter().filter(|(k, _)| matches(name, k)).map(|(_, v)| *v).sum()
    }

    pub fn set_noise(&self, seed: u64, noise: &[(&'static str, u64)]) {
        let mut g = self.lock();
        g.noise = noise.to_vec();
        g.noise_rng = Some(Rng::new(seed));
    }

    pub fn set_custom(&self, custom: Option<Custom>) {
        self.lock().custom = custom;
    }

    pub fn add_rule(&self, rule: ParkRule) {
        self.lock().rules.push(rule);
    }

    pub fn rules(&self) -> Vec<ParkRule> {
        self.lock().rules.clone()
    }

    /// Release every parked thread (used at the end of a case / on watchdog).
    pub fn release_all(&self) {
        let mut g = self.lock();
        for r in g.rules.iter_mut() {
            r.released = true;
        }
        drop(g);
        self.cv.notify_all();
    }

    /// Signature of the observed interleaving: hash of the (thread-class, point) sequence.
    pub fn interleaving_signature(events: &[Ev]) -> u64 {
        let mut map: HashMap<u64, u64> = HashMap::new();
        let mut s = String::new();
        for e in events {
            let n = map.len() as u64;
            let t = *map.entry(e.thread).or_insert(n);
            s.push_str(&format!("{t}:{};", e.point));
        }
        crate::prng::fnv_str(&s)
    }

    fn on_point(&self, name: &'static str, ctx: &str) {
        // step budget (thread-local, no lock)
        if name == "cache.scan" {
            BUDGET.with(|b| {
                let v = b.get();
                if v >= 0 {
                    BUDGET_USED.with(|u| u.set(u.get() + 1));
                    if v == 0 {
                        b.set(-1);
                        let used = BUDGET_USED.with(|u| u.get());
                        std::panic::panic_any(BudgetExceeded(used));
                    }
                    b.set(v - 1);
                }
            });
        }

        let mut sleep_us = 0u64;
        let custom;
        {
            let mut g = self.lock();
            g.clock += 1;
            *g.counts.entry(name).or_insert(0) += 1;
            if g.recording
                && (g.record_filter.is_empty() || g.record_filter.iter().any(|p| matches(p, name)))
            {
                let clock = g.clock;
                g.events.push(Ev {
                    clock,
                    thread: thread_no(),
                    point: name,
                    ctx: ctx.to_string(),
                });
            }
            // a pass is visible to rendezvous waiters
            if !g.rules.is_empty() {
                g.passes.push((name, ctx.to_string()));
                self.cv.notify_all();
            }
            // noise
            let mut max_us = 0;
            for (p, us) in &g.noise {
                if matches(p, name) {
                    max_us = max_us.max(*us);
                }
            }
            if max_us > 0 {
                if let Some(rng) = g.noise_rng.as_mut() {
                    // 1/3 no delay, 1/3 short, 1/3 up to max
                    match rng.below(3) {
                        0 => {}
                        1 => sleep_us = rng.below(max_us / 8 + 1),
                        _ => sleep_us = rng.below(max_us + 1),
                    }
                }
            }
            // rendezvous: find a rule that parks here
            let mut park_idx: Option<usize> = None;
            for (i, r) in g.rules.iter_mut().enumerate() {
                if !r.fired && r.at == name && ctx.contains(r.at_ctx.as_str()) {
                    r.hits += 1;
                    if r.hits == r.nth {
                        r.fired = true;
                        park_idx = Some(i);
                        break;
                    }
                }
            }
            if let Some(i) = park_idx {
                let start_pass = g.passes.len();
                let deadline = Instant::now() + Duration::from_millis(g.rules[i].timeout_ms);
                loop {
                    let r = &g.rules[i];
                    if r.released {
                        break;
                    }
                    let n = g.passes[start_pass.min(g.passes.len())..]
                        .iter()
                        .filter(|(p, c)| *p == r.until && c.contains(r.until_ctx.as_str()))
                        .count() as u64;
                    if n >= r.until_count {
                        break;
                    }
                    let now = Instant::now();
                    if now >= deadline {
                        g.rules[i].timed_out = true;
                        break;
                    }
                    let (ng, _) = self
                        .cv
                        .wait_timeout(g, deadline - now)
                        .unwrap_or_else(|e| e.into_inner());
                    g = ng;
                }
            }
            custom = g.custom.clone();
        }
        if sleep_us > 0 {
            std::thread::sleep(Duration::from_micros(sleep_us));
        }
        if let Some(c) = custom {
            c(name, ctx);
        }
    }
}

/// Run `f` with a scan-step budget on this thread; `Err(used)` when the budget was exceeded.
/// `f` must only touch state that is discarded afterwards (the unwind may poison its locks).
pub fn with_step_budget<T>(budget: u64, f: impl FnOnce() -> T) -> Result<(T, u64), u64> {
    BUDGET.with(|b| b.set(budget as i64));
    BUDGET_USED.with(|u| u.set(0));
    let prev = std::panic::take_hook();
    std::panic::set_hook(Box::new(|info| {
        if info.payload().downcast_ref::<BudgetExceeded>().is_none() {
            eprintln!("panic: {info}");
        }
    }));
    let res = std::panic::catch_unwind(std::panic::AssertUnwindSafe(f));
    std::panic::set_hook(prev);
    BUDGET.with(|b| b.set(-1));
    let used = BUDGET_USED.with(|u| u.get());
    match res {
        Ok(v) => Ok((v, used)),
        Err(p) => {
            if let Some(b) = p.downcast_ref::<BudgetExceeded>() {
                Err(b.0)
            } else {
                std::panic::resume_unwind(p)
            }
        }
    }
}
