//! Scripted provider: a raw-TCP HTTP/1.1 server that controls the exact bytes and chunking of
//! each response and records every request. Used in-process by C07/C15/C16 (and others) and as a
//! stand-alone process (`rv provider --script F --record R --port-file P`) next to the real
//! `rip serve` for C19.

use serde_json::{json, Value};
use std::io::{Read, Write};
use std::net::{SocketAddr, TcpListener, TcpStream};
use std::sync::atomic::{AtomicBool, AtomicUsize, Ordering};
use std::sync::{Arc, Mutex};
use std::time::Duration;

#[derive(Clone, Debug)]
pub struct Recorded {
    pub index: usize,
    pub method: String,
    pub path: String,
    pub headers: Vec<(String, String)>,
    pub body: Vec<u8>,
}

impl Recorded {
    pub fn json(&self) -> Option<Value> {
        serde_json::from_slice(&self.body).ok()
    }
    pub fn header(&self, name: &str) -> Option<&str> {
        self.headers
            .iter()
            .find(|(k, _)| k.eq_ignore_ascii_case(name))
            .map(|(_, v)| v.as_str())
    }
}

#[derive(Clone, Debug)]
pub struct Reply {
    pub status: u16,
    pub content_type: String,
    pub body: Vec<u8>,
    /// sizes of the HTTP chunks the body is sent in; the remainder goes out as one last chunk.
    /// Empty = whole body as one chunk.
    pub chunks: Vec<usize>,
    /// pause between chunks (microseconds)
    pub pause_us: u64,
    /// drop the connection after this many body bytes (mid-stream failure)
    pub reset_after: Option<usize>,
    /// send headers only and then close (no body at all, not even the terminator)
    pub headers_only: bool,
    /// use Content-Length instead of chunked encoding
    pub content_length: bool,
    /// append the request body to the response body (error bodies that echo the request)
    pub echo_request: bool,
    /// delay before answering (milliseconds)
    pub delay_ms: u64,
}

impl Reply {
    pub fn sse(body: impl Into<Vec<u8>>) -> Reply {
        Reply {
            status: 200,
            content_type: "text/event-stream".to_string(),
            body: body.into(),
            chunks: Vec::new(),
            pause_us: 0,
            reset_after: None,
            headers_only: false,
            content_length: false,
            echo_request: false,
            delay_ms: 0,
        }
    }
    pub fn status(status: u16, body: impl Into<Vec<u8>>) -> Reply {
        Reply {
            status,
            content_type: "application/json".to_string(),
            content_length: true,
            ..Reply::sse(body)
        }
    }
    pub fn chunked(mut self, chunks: Vec<usize>, pause_us: u64) -> Reply {
        self.chunks = chunks;
        self.pause_us = pause_us;
        self
    }
}

pub type Script = Arc<dyn Fn(&Recorded) -> Reply + Send + Sync>;

pub struct Provider {
    pub addr: SocketAddr,
    recorded: Arc<Mutex<Vec<Recorded>>>,
    stop: Arc<AtomicBool>,
    thread: Option<std::thread::JoinHandle<()>>,
}

impl Provider {
    pub fn start(script: Script) -> Provider {
        Provider::start_on("127.0.0.1:0", script)
    }

    pub fn start_on(bind: &str, script: Script) -> Provider {
        let listener = TcpListener::bind(bind).expect("bind provider");
        let addr = listener.local_addr().expect("addr");
        listener.set_nonblocking(true).expect("nonblocking");
        let recorded: Arc<Mutex<Vec<Recorded>>> = Arc::new(Mutex::new(Vec::new()));
        let stop = Arc::new(AtomicBool::new(false));
        let counter = Arc::new(AtomicUsize::new(0));
        let rec2 = recorded.clone();
        let stop2 = stop.clone();
        let thread = std::thread::spawn(move || {
            while !stop2.load(Ordering::Relaxed) {
                match listener.accept() {
                    Ok((stream, _)) => {
                        let script = script.clone();
                        let rec = rec2.clone();
                        let counter = counter.clone();
                        std::thread::spawn(move || {
                            let _ = handle(stream, script, rec, counter);
                        });
                    }
                    Err(ref e) if e.kind() == std::io::ErrorKind::WouldBlock => {
                        std::thread::sleep(Duration::from_millis(1));
                    }
                    Err(_) => break,
                }
            }
        });
        Provider {
            addr,
            recorded,
            stop,
            thread: Some(thread),
        }
    }

    pub fn endpoint(&self) -> String {
        format!("http://{}/v1/responses", self.addr)
    }

    pub fn requests(&self) -> Vec<Recorded> {
        self.recorded.lock().unwrap().clone()
    }

    pub fn request_count(&self) -> usize {
        self.recorded.lock().unwrap().len()
    }
}

impl Drop for Provider {
    fn drop(&mut self) {
        self.stop.store(true, Ordering::Relaxed);
        if let Some(t) = self.thread.take() {
            let _ = t.join();
        }
    }
}

fn read_request(stream: &mut TcpStream) -> std::io::Result<Option<(String, String, Vec<(String, String)>, Vec<u8>)>> {
    stream.set_read_timeout(Some(Duration::from_secs(10)))?;
    let mut buf: Vec<u8> = Vec::new();
    let mut tmp = [0u8; 8192];
    let header_end;
    loop {
        if let Some(pos) = buf.windows(4).position(|w| w == b"\r\n\r\n") {
            header_end = pos + 4;
            break;
        }
        let n = stream.read(&mut tmp)?;
        if n == 0 {
            return Ok(None);
        }
        buf.extend_from_slice(&tmp[..n]);
        if buf.len() > 4 * 1024 * 1024 {
            return Ok(None);
        }
    }
    let head = String::from_utf8_lossy(&buf[..header_end]).to_string();
    let mut lines = head.split("\r\n");
    let request_line = lines.next().unwrap_or("");
    let mut parts = request_line.split(' ');
    let method = parts.next().unwrap_or("").to_string();
    let path = parts.next().unwrap_or("").to_string();
    let mut headers = Vec::new();
    let mut content_length = 0usize;
    let mut chunked = false;
    for l in lines {
        if let Some((k, v)) = l.split_once(':') {
            let k = k.trim().to_string();
            let v = v.trim().to_string();
            if k.eq_ignore_ascii_case("content-length") {
                content_length = v.parse().unwrap_or(0);
            }
            if k.eq_ignore_ascii_case("transfer-encoding") && v.to_ascii_lowercase().contains("chunked") {
                chunked = true;
            }
            headers.push((k, v));
        }
    }
    let mut body = buf[header_end..].to_vec();
    if chunked {
        // read until terminating chunk, then decode
        loop {
            if body.windows(5).any(|w| w == b"0\r\n\r\n") {
                break;
            }
            let n = stream.read(&mut tmp)?;
            if n == 0 {
                break;
            }
            body.extend_from_slice(&tmp[..n]);
        }
        body = decode_chunked(&body);
    } else {
        while body.len() < content_length {
            let n = stream.read(&mut tmp)?;
            if n == 0 {
                break;
            }
            body.extend_from_slice(&tmp[..n]);
        }
        body.truncate(content_length);
    }
    Ok(Some((method, path, headers, body)))
}

fn decode_chunked(raw: &[u8]) -> Vec<u8> {
    let mut out = Vec::new();
    let mut i = 0;
    while i < raw.len() {
        let Some(eol) = raw[i..].windows(2).position(|w| w == b"\r\n") else {
            break;
        };
        let size_str = String::from_utf8_lossy(&raw[i..i + eol]).to_string();
        let size = usize::from_str_radix(size_str.split(';').next().unwrap_or("0").trim(), 16).unwrap_or(0);
        i += eol + 2;
        if size == 0 {
            break;
        }
        let end = (i + size).min(raw.len());
        out.extend_from_slice(&raw[i..end]);
        i = end + 2;
    }
    out
}

fn handle(
    mut stream: TcpStream,
    script: Script,
    recorded: Arc<Mutex<Vec<Recorded>>>,
    counter: Arc<AtomicUsize>,
) -> std::io::Result<()> {
    stream.set_nodelay(true)?;
    stream.set_nonblocking(false)?;
    let Some((method, path, headers, body)) = read_request(&mut stream)? else {
        return Ok(());
    };
    let rec = {
        let mut g = recorded.lock().unwrap();
        let index = counter.fetch_add(1, Ordering::SeqCst);
        let r = Recorded {
            index,
            method,
            path,
            headers,
            body,
        };
        g.push(r.clone());
        r
    };
    let reply = script(&rec);
    if reply.delay_ms > 0 {
        std::thread::sleep(Duration::from_millis(reply.delay_ms));
    }
    let mut body = reply.body.clone();
    if reply.echo_request {
        body.extend_from_slice(&rec.body);
    }
    let reason = match reply.status {
        200 => "OK",
        400 => "Bad Request",
        401 => "Unauthorized",
        404 => "Not Found",
        429 => "Too Many Requests",
        500 => "Internal Server Error",
        503 => "Service Unavailable",
        _ => "Status",
    };
    let mut head = format!(
        "HTTP/1.1 {} {}\r\ncontent-type: {}\r\nconnection: close\r\n",
        reply.status, reason, reply.content_type
    );
    if reply.content_length {
        head.push_str(&format!("content-length: {}\r\n", body.len()));
    } else {
        head.push_str("transfer-encoding: chunked\r\n");
    }
    head.push_str("\r\n");
    stream.write_all(head.as_bytes())?;
    stream.flush()?;
    if reply.headers_only {
        std::thread::sleep(Duration::from_millis(5));
        return Ok(());
    }
    if reply.content_length {
        let upto = reply.reset_after.unwrap_or(body.len()).min(body.len());
        stream.write_all(&body[..upto])?;
        stream.flush()?;
        return Ok(());
    }
    let mut sent = 0usize;
    let mut sizes = reply.chunks.clone();
    let mut idx = 0;
    while sent < body.len() {
        let want = if idx < sizes.len() { sizes[idx].max(1) } else { body.len() - sent };
        let mut n = want.min(body.len() - sent);
        let mut stop_after = false;
        if let Some(limit) = reply.reset_after {
            if sent + n >= limit {
                n = limit.saturating_sub(sent);
                stop_after = true;
            }
        }
        if n > 0 {
            let chunk = &body[sent..sent + n];
            let mut frame = format!("{:x}\r\n", chunk.len()).into_bytes();
            frame.extend_from_slice(chunk);
            frame.extend_from_slice(b"\r\n");
            stream.write_all(&frame)?;
            stream.flush()?;
            sent += n;
        }
        if stop_after {
            // abrupt close mid-body
            return Ok(());
        }
        idx += 1;
        if reply.pause_us > 0 && sent < body.len() {
            std::thread::sleep(Duration::from_micros(reply.pause_us));
        }
    }
    if let Some(0) = reply.reset_after {
        return Ok(());
    }
    sizes.clear();
    stream.write_all(b"0\r\n\r\n")?;
    stream.flush()?;
    // let the client read before the socket goes away
    let _ = stream.shutdown(std::net::Shutdown::Write);
    let mut sink = [0u8; 256];
    let _ = stream.set_read_timeout(Some(Duration::from_millis(200)));
    let _ = stream.read(&mut sink);
    Ok(())
}

// ---------------------------------------------------------------------------------------------
// SSE body builders for OpenResponses-style streams

pub fn sse_event(v: &Value) -> String {
    let ty = v.get("type").and_then(|x| x.as_str()).unwrap_or("message");
    format!("event: {ty}\ndata: {}\n\n", serde_json::to_string(v).unwrap_or_default())
}

pub fn sse_done() -> String {
    "data: [DONE]\n\n".to_string()
}

pub fn ev_text_delta(seq: u64, item_id: &str, delta: &str) -> Value {
    json!({"type":"response.output_text.delta","sequence_number":seq,"item_id":item_id,"output_index":0,
           "content_index":0,"delta":delta,"logprobs":[]})
}

pub fn response_resource(id: &str, status: &str, output: Value) -> Value {
    // same field set as fixtures/openresponses/*.sse in the repository
    json!({
        "background": false, "completed_at": null, "created_at": 0, "error": null, "frequency_penalty": 0,
        "id": id, "incomplete_details": null, "instructions": null, "max_output_tokens": null,
        "max_tool_calls": null, "metadata": {}, "model": "fixture-model", "object": "response",
        "output": output, "parallel_tool_calls": false, "presence_penalty": 0,
        "previous_response_id": null, "prompt_cache_key": null, "reasoning": null,
        "safety_identifier": null, "service_tier": "", "status": status, "store": false, "temperature": 0,
        "text": {"format": {"type": "text"}}, "tool_choice": "auto", "tools": [], "top_logprobs": 0,
        "top_p": 0, "truncation": "auto", "usage": null, "user": null
    })
}

pub fn ev_created(seq: u64, resp_id: &str) -> Value {
    json!({"type":"response.created","sequence_number":seq,"response":response_resource(resp_id,"in_progress",json!([]))})
}

pub fn ev_completed(seq: u64, resp_id: &str, output: Value) -> Value {
    json!({"type":"response.completed","sequence_number":seq,"response":response_resource(resp_id,"completed",output)})
}

pub fn function_call_item(item_id: Option<&str>, call_id: &str, name: &str, arguments: &str, status: &str) -> Value {
    let mut v = json!({"type":"function_call","call_id":call_id,"name":name,"arguments":arguments,"status":status});
    if let Some(id) = item_id {
        v["id"] = json!(id);
    }
    v
}

pub fn ev_item_added(seq: u64, output_index: u64, item: Value) -> Value {
    json!({"type":"response.output_item.added","sequence_number":seq,"output_index":output_index,"item":item})
}

pub fn ev_item_done(seq: u64, output_index: u64, item: Value) -> Value {
    json!({"type":"response.output_item.done","sequence_number":seq,"output_index":output_index,"item":item})
}

pub fn ev_args_delta(seq: u64, item_id: &str, output_index: u64, delta: &str) -> Value {
    json!({"type":"response.function_call_arguments.delta","sequence_number":seq,"item_id":item_id,
           "output_index":output_index,"delta":delta})
}

pub fn ev_args_done(seq: u64, item_id: &str, output_index: u64, arguments: &str) -> Value {
    json!({"type":"response.function_call_arguments.done","sequence_number":seq,"item_id":item_id,
           "output_index":output_index,"arguments":arguments})
}

// ---------------------------------------------------------------------------------------------
// stand-alone mode

/// `rv provider --script F --record R --port-file P`
/// script JSON: {"replies":[{...}], "default": {...}} with keys status, body, content_type,
/// chunk (uniform chunk size), pause_us, echo_request, reset_after, content_length.
pub fn standalone(args: &[String]) -> i32 {
    let mut script_path = None;
    let mut record_path = None;
    let mut port_file = None;
    let mut i = 0;
    while i < args.len() {
        match args[i].as_str() {
            "--script" => {
                i += 1;
                script_path = args.get(i).cloned();
            }
            "--record" => {
                i += 1;
                record_path = args.get(i).cloned();
            }
            "--port-file" => {
                i += 1;
                port_file = args.get(i).cloned();
            }
            _ => {}
        }
        i += 1;
    }
    let script_json: Value = script_path
        .and_then(|p| std::fs::read(p).ok())
        .and_then(|b| serde_json::from_slice(&b).ok())
        .unwrap_or(json!({}));
    let record_path = record_path.unwrap_or_else(|| "/dev/null".to_string());
    let rp = record_path.clone();
    let script: Script = Arc::new(move |rec: &Recorded| {
        // append the request to the record file (JSON lines)
        let line = json!({
            "index": rec.index, "method": rec.method, "path": rec.path,
            "headers": rec.headers.iter().map(|(k, v)| json!([k, v])).collect::<Vec<_>>(),
            "body": String::from_utf8_lossy(&rec.body),
        });
        if let Ok(mut f) = std::fs::OpenOptions::new().create(true).append(true).open(&rp) {
            let _ = writeln!(f, "{}", line);
        }
        let spec = script_json
            .get("replies")
            .and_then(|r| r.as_array())
            .and_then(|a| a.get(rec.index))
            .cloned()
            .or_else(|| script_json.get("default").cloned())
            .unwrap_or(json!({}));
        reply_from_spec(&spec)
    });
    let p = Provider::start(script);
    if let Some(pf) = port_file {
        let _ = std::fs::write(pf, p.addr.port().to_string());
    }
    println!("provider listening on {}", p.addr);
    // run until killed
    loop {
        std::thread::sleep(Duration::from_secs(3600));
    }
}

pub fn reply_from_spec(spec: &Value) -> Reply {
    let status = spec.get("status").and_then(|x| x.as_u64()).unwrap_or(200) as u16;
    let body = spec
        .get("body")
        .and_then(|x| x.as_str())
        .map(|s| s.as_bytes().to_vec())
        .unwrap_or_else(|| {
            let mut s = String::new();
            s.push_str(&sse_event(&ev_created(0, "resp_1")));
            s.push_str(&sse_event(&ev_text_delta(1, "msg_1", "hello")));
            s.push_str(&sse_event(&ev_completed(2, "resp_1", json!([]))));
            s.push_str(&sse_done());
            s.into_bytes()
        });
    let mut r = if status == 200 { Reply::sse(body) } else { Reply::status(status, body) };
    if let Some(ct) = spec.get("content_type").and_then(|x| x.as_str()) {
        r.content_type = ct.to_string();
    }
    if let Some(c) = spec.get("chunk").and_then(|x| x.as_u64()) {
        let n = (r.body.len() / (c.max(1) as usize)) + 1;
        r.chunks = vec![c.max(1) as usize; n];
        r.content_length = false;
    }
    r.pause_us = spec.get("pause_us").and_then(|x| x.as_u64()).unwrap_or(0);
    r.echo_request = spec.get("echo_request").and_then(|x| x.as_bool()).unwrap_or(false);
    r.reset_after = spec.get("reset_after").and_then(|x| x.as_u64()).map(|x| x as usize);
    if let Some(cl) = spec.get("content_length").and_then(|x| x.as_bool()) {
        r.content_length = cl;
    }
    r
}

// ---------------------------------------------------------------------------------------------
// hostile cut positions for mid-body connection failures

/// Byte offsets at which a mid-body connection failure (`Reply::reset_after`) is most likely to hit
/// state a stream reader carries between reads, each with a label naming what the client holds
/// when the connection breaks: every offset within ±3 bytes of the end of each blank line (event
/// terminator — so after "\r", "\r\n", "\r\n\r", "\n", … of the lines around it), the middle of
/// every non-blank line, and every offset inside a multi-byte UTF-8 character.
/// Ascending, de-duplicated, 0 < offset < body.len().
pub fn hostile_cuts(body: &[u8]) -> Vec<(usize, &'static str)> {
    fn label(b: &[u8], p: usize) -> &'static str {
        if (b[p] & 0xC0) == 0x80 {
            return "inside_utf8_char";
        }
        let prev = b[p - 1];
        let ls = b[..p - 1].iter().rposition(|c| *c == b'\n').map(|i| i + 1).unwrap_or(0);
        let mut content = &b[ls..p - 1];
        match prev {
            b'\n' => {
                if content.last() == Some(&b'\r') {
                    content = &content[..content.len() - 1];
                }
                if content.is_empty() {
                    "after_blank_line"
                } else {
                    "after_field_line"
                }
            }
            b'\r' => {
                if content.is_empty() {
                    "after_cr_of_blank_line"
                } else {
                    "after_cr_of_field_line"
                }
            }
            _ => {
                if b[p] == b'\r' || b[p] == b'\n' {
                    "before_line_end"
                } else {
                    "mid_line"
                }
            }
        }
    }
    let n = body.len();
    let mut set: std::collections::BTreeSet<usize> = std::collections::BTreeSet::new();
    let mut ls = 0usize;
    for i in 0..n {
        if (body[i] & 0xC0) == 0x80 {
            set.insert(i);
        }
        if body[i] != b'\n' {
            continue;
        }
        let mut content = &body[ls..i];
        if content.last() == Some(&b'\r') {
            content = &content[..content.len() - 1];
        }
        if content.is_empty() {
            let t = i + 1;
            for p in t.saturating_sub(3)..=t + 3 {
                set.insert(p);
            }
        } else {
            set.insert(ls + content.len() / 2);
        }
        ls = i + 1;
    }
    if ls < n {
        set.insert(ls + (n - ls) / 2);
    }
    set.into_iter().filter(|p| *p > 0 && *p < n).map(|p| (p, label(body, p))).collect()
}
