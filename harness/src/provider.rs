//! Scripted provider (raw TCP HTTP/1.1) — built later.
