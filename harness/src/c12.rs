//! C12 — patch application is all-or-nothing, and exact when it succeeds.
//!
//! Generated workspaces (LF / CRLF, with/without final newline, empty, non-UTF-8, mixed EOL, nested
//! and empty directories) and generated patch documents are applied through
//! `rip_workspace::Workspace::apply_patch` and through the `apply_patch` builtin
//! (`register_builtin_tools` + `ToolRunner::run`) on two identical copies of the workspace. The
//! whole tree (path -> bytes, `.rip/` excluded) is captured before and after.
//!
//! Oracle: on error after == before (file set and bytes; new empty directories are counted, not
//! judged). On success of a *constructively* generated patch (hunks cut from the real file, single
//! EOL style, non-empty files, clean relative paths) after == the reference applier's tree and
//! `changed_files` == sorted set of named paths (incl. move targets). Everything else (planted
//! failing ops at every index of 1–6-op sequences, mutated documents) is judged on atomicity only.

#[path = "gen_patch.rs"]
pub mod gen_patch;

use crate::fixture::{runtime, scratch_root, tree_bytes};
use crate::prng::{fnv_str, Rng};
use crate::report::{Cfg, Report};
use gen_patch::*;
use rip_kernel::EventKind;
use rip_tools::{register_builtin_tools, BuiltinToolConfig, ToolInvocation, ToolRegistry, ToolRunner};
use serde_json::{json, Value};
use std::collections::{BTreeMap, BTreeSet};
use std::path::{Path, PathBuf};
use std::sync::Arc;

const DIRECTED: u64 = 10;

pub fn run(cfg: &Cfg) -> i32 {
    let mut r = Report::new(
        "C12",
        "exploration",
        "seeded workspaces x patch documents of 1-6 ops: (a) constructive (every op generated against the evolving \
         reference state, hunks cut from the real file) judged for exactness + changed_files, (b) a failing op of \
         each of 21 kinds planted at every index i of n ops (earlier ops touch the same and other paths; ENOTDIR / \
         EISDIR / ENAMETOOLONG I/O failures), (c) document-level mutations (truncation, missing header/footer, early \
         footer, garbage) judged on atomicity; each applied through Workspace::apply_patch and the apply_patch tool; \
         distinct = hash of (op kinds, planted kind@index, file styles touched, outcome); non-trivial = the patch \
         reached the applier (parsed) or was rejected after earlier ops had mutated the tree",
    );
    r.assume("exactness is asserted only for constructively generated patches; all other inputs are judged on atomicity");
    r.assume("tree comparison is over regular files (path -> bytes), .rip/ excluded; empty directories left behind are counted only");
    r.assume("no permission faults (harness runs as root); I/O failures induced via ENOTDIR / EISDIR / ENAMETOOLONG");
    let rt = runtime(2);
    let base = scratch_root().join(format!("c12-{}", cfg.shard.0));
    let _ = std::fs::create_dir_all(&base);

    if let Some(path) = &cfg.replay {
        let (seed, case) = read_replay(path, cfg.seed);
        let mut c2 = cfg.clone();
        c2.seed = seed;
        one_case(&c2, &mut r, &rt, &base, case);
        let _ = std::fs::remove_dir_all(&base);
        return r.finish(&c2);
    }

    let max_cases = cfg.tier.pick(30_000u64, 100_000_000u64);
    let mut case = 0u64;
    while case < max_cases && !r.over(cfg) {
        let idx = case;
        case += 1;
        // directed cases run in every shard-0 (and un-sharded) run so known findings always manifest
        if idx < DIRECTED {
            if cfg.shard.0 != 0 {
                continue;
            }
        } else if !cfg.mine(idx) {
            continue;
        }
        one_case(cfg, &mut r, &rt, &base, idx);
    }
    let _ = std::fs::remove_dir_all(&base);
    r.finish(cfg)
}

pub fn read_replay(path: &Path, default_seed: u64) -> (u64, u64) {
    let v: Value = std::fs::read(path).ok().and_then(|b| serde_json::from_slice(&b).ok()).unwrap_or(Value::Null);
    let seed = v.get("seed").and_then(|x| x.as_u64()).unwrap_or(default_seed);
    let case = v.pointer("/witness/case").and_then(|x| x.as_u64()).unwrap_or(0);
    (seed, case)
}

struct Case {
    ws: WsModel,
    text: String,
    /// Some(reference outcome) when the patch is constructive (exactness judged)
    expect: Option<(WsModel, Vec<String>)>,
    class: String,
    shape: String,
    planted: Option<(String, usize, usize)>,
    reference: String,
    /// the document adds a file whose content is exactly one empty line
    single_empty_add: bool,
}

fn directed_case(idx: u64) -> Case {
    let mut ws = WsModel::default();
    ws.put("keep.txt", b"keep\n".to_vec());
    ws.put("p", b"precious\n".to_vec());
    ws.put("src/a.txt", b"one\r\ntwo\r\nthree".to_vec());
    ws.put("bin.dat", vec![0xff, 0xfe, 0x00, 0x0a]);
    let (body, class): (&str, &str) = match idx {
        // delete a file, create a directory in its place, then fail
        0 => ("*** Delete File: p\n*** Add File: p/child.txt\n+x\n*** Delete File: missing.txt", "directed/delete_then_add_under_then_fail"),
        // move a file away, create a directory in its place, then fail
        1 => (
            "*** Update File: p\n*** Move to: q\n@@\n-precious\n+moved\n*** Add File: p/child.txt\n+x\n*** Update File: nope.txt\n@@\n-a\n+b",
            "directed/move_then_add_under_then_fail",
        ),
        // the repo's own atomicity literal, plus a same-path prefix
        2 => ("*** Add File: a.txt\n+one\n*** Update File: a.txt\n@@\n-one\n+two\n*** Update File: missing.txt\n@@\n-nope\n+ok", "directed/add_update_then_fail"),
        // update succeeds, move target's parent is a file (ENOTDIR after the update was written)
        3 => ("*** Update File: src/a.txt\n*** Move to: keep.txt/x\n@@\n-two\n+TWO", "directed/move_enotdir_after_update"),
        // update + delete + add, then EISDIR
        4 => ("*** Update File: src/a.txt\n@@\n one\n-two\n+2\n*** Delete File: bin.dat\n*** Add File: n/e/w.txt\n+w\n*** Delete File: src", "directed/eisdir_last"),
        // name too long at the end
        5 => ("*** Delete File: keep.txt\n*** Add File: keep.txt\n+again\n*** Add File: LONG\n+x", "directed/enametoolong_last"),
        // truncated document after valid ops
        6 => ("*** Delete File: keep.txt\n*** Update File: src/a.txt\n@@\n-one\n+1", "directed/truncated"),
        // delete a file, create a directory *tree* in its place (two levels), then fail
        9 => ("*** Delete File: p\n*** Add File: p/d/child.txt\n+x\n*** Add File: p/d/e/other.txt\n+y\n*** Delete File: missing.txt", "directed/delete_then_add_tree_under_then_fail"),
        // a file consisting of one empty line
        8 => ("*** Add File: blank.txt\n+\n*** Delete File: bin.dat", "directed/add_single_empty_line"),
        // constructive CRLF / no-final-newline update + move
        _ => ("*** Update File: src/a.txt\n*** Move to: src/b.txt\n@@\n one\n-two\n+zwei\n+drei\n three\n*** Delete File: bin.dat", "directed/constructive_crlf_move"),
    };
    let body = body.replace("LONG", &"n".repeat(300));
    let text = if idx == 6 {
        format!("*** Begin Patch\n{body}\n")
    } else {
        format!("*** Begin Patch\n{body}\n*** End Patch")
    };
    let expect = if idx == 7 {
        let mut m = ws.clone(); // (idx 7)
        m.files.remove("src/a.txt");
        m.files.remove("bin.dat");
        m.put("src/b.txt", b"one\r\nzwei\r\ndrei\r\nthree".to_vec());
        Some((m, vec!["bin.dat".to_string(), "src/a.txt".to_string(), "src/b.txt".to_string()]))
    } else if idx == 8 {
        let mut m = ws.clone();
        m.files.remove("bin.dat");
        m.put("blank.txt", b"\n".to_vec());
        Some((m, vec!["bin.dat".to_string(), "blank.txt".to_string()]))
    } else {
        None
    };
    Case {
        ws,
        text,
        expect,
        class: class.to_string(),
        shape: class.to_string(),
        planted: None,
        reference: "directed".into(),
        single_empty_add: idx == 8,
    }
}

fn gen_case(cfg: &Cfg, idx: u64) -> Case {
    if idx < DIRECTED {
        return directed_case(idx);
    }
    let mut rng = cfg.case_rng(idx);
    let ws = gen_workspace(&mut rng);
    let mut fresh = Fresh::new();
    let mut serial = 1000u32;
    let mut shape = Shape::default();
    let n = 1 + rng.usize(6);
    let mode = rng.below(100);
    let crlf_doc = rng.chance(1, 8);
    let trailing = rng.bool();

    // constructive prefix/suffix builder
    let mut state = ws.clone();
    let mut touched: Vec<String> = Vec::new();
    let mut ops: Vec<Op> = Vec::new();
    let mut kinds: Vec<&'static str> = Vec::new();

    if mode < 40 {
        // (a) fully constructive
        for _ in 0..n {
            let op = gen_constructive_op(&mut rng, &state, &touched, &mut fresh, &mut serial, &mut shape);
            match step(&state, &op) {
                Some(next) => {
                    state = next;
                    touched.extend(op.named_paths());
                    kinds.push(op.kind());
                    ops.push(op);
                }
                None => break,
            }
        }
        let doc = PatchDoc { ops };
        let single_empty_add =
            doc.ops.iter().any(|op| matches!(op, Op::Add { lines, .. } if lines.len() == 1 && lines[0].is_empty()));
        let reference = ref_apply(&ws, &doc);
        let (expect, refs) = match reference {
            RefOutcome::Ok { model, changed } => (Some((model, changed)), "ok".to_string()),
            RefOutcome::Fail { at, why } => (None, format!("fail@{at}: {why}")),
            RefOutcome::Undocumented { at, why } => (None, format!("undocumented@{at}: {why}")),
        };
        let styles = styles_of(&ws, &touched);
        let shape_s = format!(
            "constructive|{}|rep={} crlf={} nofnl={} reuse={}|{}",
            kinds.join(","),
            shape.repeated_ctx,
            shape.crlf_update,
            shape.no_final_nl_update,
            shape.same_path_reuse,
            styles
        );
        return Case {
            ws,
            text: render(&doc, crlf_doc, trailing),
            expect,
            class: "constructive".into(),
            shape: shape_s,
            planted: None,
            reference: refs,
            single_empty_add,
        };
    }

    if mode < 88 {
        // (b) failing op planted at index i of n; i is enumerated by the case index so that every
        // (n, i, kind) cell is visited
        let i = (idx as usize / FAIL_KINDS.len()) % n;
        let want = FAIL_KINDS[idx as usize % FAIL_KINDS.len()];
        let mut planted_kind = "";
        let swap_prefix = rng.chance(1, 10);
        for k in 0..n {
            if k == i {
                if swap_prefix {
                    // file -> directory swap before the failure (delete or move away, then add below)
                    let files: Vec<String> = state.files.keys().cloned().collect();
                    if let Some(p) = files.first().map(|_| rng.pick(&files).clone()) {
                        let first = if rng.bool() || !updatable(&state).contains(&p) {
                            Op::Delete { path: p.clone() }
                        } else {
                            let t = decode_text(&state.files[&p]).expect("text");
                            let (hunks, _, _) = gen_hunks(&mut rng, &t.lines, &mut serial);
                            Op::Update { path: p.clone(), move_to: Some(fresh.path(&mut rng, &state)), hunks }
                        };
                        if let Some(s1) = step(&state, &first) {
                            // the new entries sit directly below the former file or one / two directories deeper
                            let below = *rng.pick(&["under.txt", "d1/under.txt", "d1/d2/under.txt", "d1/under.txt"]);
                            let second = Op::Add { path: format!("{p}/{below}"), lines: vec!["u".into()] };
                            if let Some(s2) = step(&s1, &second) {
                                state = s2;
                                touched.extend(first.named_paths());
                                touched.extend(second.named_paths());
                                kinds.push("swap");
                                ops.push(first);
                                ops.push(second);
                            }
                        }
                    }
                }
                let (op, kind) = gen_failing_op(&mut rng, want, &state, &touched, &mut fresh, &mut serial);
                planted_kind = kind;
                kinds.push("FAIL");
                ops.push(op);
                continue;
            }
            let op = gen_constructive_op(&mut rng, &state, &touched, &mut fresh, &mut serial, &mut shape);
            if let Some(next) = step(&state, &op) {
                state = next;
                touched.extend(op.named_paths());
                kinds.push(op.kind());
                ops.push(op);
            }
        }
        let doc = PatchDoc { ops };
        let refs = match ref_apply(&ws, &doc) {
            RefOutcome::Ok { .. } => "ok".to_string(),
            RefOutcome::Fail { at, why } => format!("fail@{at}: {why}"),
            RefOutcome::Undocumented { at, why } => format!("undocumented@{at}: {why}"),
        };
        let styles = styles_of(&ws, &touched);
        return Case {
            ws,
            text: render(&doc, crlf_doc, trailing),
            expect: None,
            class: format!("planted/{planted_kind}"),
            shape: format!("planted|{}|{planted_kind}@{i}/{n}|{styles}", kinds.join(",")),
            planted: Some((planted_kind.to_string(), i, n)),
            reference: refs,
            single_empty_add: false,
        };
    }

    // (c) document-level mutation of a constructive document
    for _ in 0..n {
        let op = gen_constructive_op(&mut rng, &state, &touched, &mut fresh, &mut serial, &mut shape);
        if let Some(next) = step(&state, &op) {
            state = next;
            touched.extend(op.named_paths());
            kinds.push(op.kind());
            ops.push(op);
        }
    }
    let doc = PatchDoc { ops };
    let good = render(&doc, crlf_doc, trailing);
    let lines: Vec<&str> = good.split('\n').collect();
    let (text, mutation) = match rng.below(8) {
        0 => {
            // truncated at a line boundary
            let keep = 1 + rng.usize(lines.len().max(2) - 1);
            (lines[..keep.min(lines.len() - 1)].join("\n"), "truncated_lines")
        }
        1 => {
            // truncated at a byte (char) boundary
            let mut cut = rng.usize(good.len().max(1));
            while !good.is_char_boundary(cut) {
                cut -= 1;
            }
            (good[..cut].to_string(), "truncated_bytes")
        }
        2 => (lines[1..].join("\n"), "missing_begin"),
        3 => (good.replacen("*** Begin Patch", "*** begin patch", 1), "lowercase_begin"),
        4 => {
            // early footer: the parser stops there, remaining text is ignored
            let at = 1 + rng.usize(lines.len().max(2) - 1);
            let mut l: Vec<String> = lines.iter().map(|s| s.to_string()).collect();
            l.insert(at.min(l.len()), "*** End Patch".to_string());
            (l.join("\n"), "early_footer")
        }
        5 => {
            let at = 1 + rng.usize(lines.len().max(2) - 1);
            let mut l: Vec<String> = lines.iter().map(|s| s.to_string()).collect();
            l.insert(at.min(l.len()), rng.unicode(8).replace(['\n', '\r'], " "));
            (l.join("\n"), "garbage_line")
        }
        6 => (format!("\n{good}"), "leading_blank_line"),
        _ => (format!("{good}\n*** Begin Patch\n*** Delete File: {}\n*** End Patch", ws.files.keys().next().cloned().unwrap_or_default()), "second_document"),
    };
    let styles = styles_of(&ws, &touched);
    Case {
        ws,
        text,
        expect: None,
        class: format!("mutated/{mutation}"),
        shape: format!("mutated|{}|{mutation}|{styles}", kinds.join(",")),
        planted: None,
        reference: "n/a".into(),
        single_empty_add: false,
    }
}

fn styles_of(ws: &WsModel, touched: &[String]) -> String {
    let mut s = BTreeSet::new();
    for p in touched {
        if let Some(b) = ws.files.get(p) {
            let tag = if b.is_empty() {
                "empty"
            } else {
                match decode_text(b) {
                    None => "bin",
                    Some(t) if !t.single_style => "mixed",
                    Some(t) => match (t.crlf, t.final_nl) {
                        (false, true) => "lf+nl",
                        (false, false) => "lf-nl",
                        (true, true) => "crlf+nl",
                        (true, false) => "crlf-nl",
                    },
                }
            };
            s.insert(tag);
        }
    }
    s.into_iter().collect::<Vec<_>>().join("+")
}

struct Applied {
    ok: bool,
    changed: Option<Vec<String>>,
    error: String,
    panicked: bool,
}

fn apply_direct(root: &Path, text: &str) -> Applied {
    let root = root.to_path_buf();
    let text = text.to_string();
    let res = std::panic::catch_unwind(move || {
        let ws = rip_workspace::Workspace::new(&root).map_err(|e| format!("workspace: {e}"))?;
        ws.apply_patch(&text).map(|r| r.changed_files).map_err(|e| format!("{:?}: {e}", e.kind()))
    });
    match res {
        Ok(Ok(changed)) => Applied { ok: true, changed: Some(changed), error: String::new(), panicked: false },
        Ok(Err(e)) => Applied { ok: false, changed: None, error: e, panicked: false },
        Err(_) => Applied { ok: false, changed: None, error: "panic".into(), panicked: true },
    }
}

fn apply_tool(rt: &tokio::runtime::Runtime, root: &Path, text: &str) -> Applied {
    let registry = Arc::new(ToolRegistry::default());
    register_builtin_tools(
        &registry,
        BuiltinToolConfig { workspace_root: root.to_path_buf(), ..BuiltinToolConfig::default() },
    );
    let runner = ToolRunner::new(registry, 2);
    let mut seq = 0u64;
    let events = rt.block_on(runner.run(
        "c12",
        &mut seq,
        ToolInvocation { name: "apply_patch".into(), args: json!({"patch": text}), timeout_ms: None },
    ));
    let mut out = Applied { ok: false, changed: None, error: "no terminal frame".into(), panicked: false };
    let mut stderr = Vec::new();
    for e in &events {
        match &e.kind {
            EventKind::ToolStderr { chunk, .. } => stderr.push(chunk.clone()),
            EventKind::ToolEnded { exit_code, artifacts, .. } => {
                out.ok = *exit_code == 0;
                out.error = format!("exit {exit_code}: {}", stderr.join(" | "));
                out.panicked = stderr.iter().any(|s| s.contains("panicked"));
                out.changed = artifacts
                    .as_ref()
                    .and_then(|a| a.get("changed_files"))
                    .and_then(|c| c.as_array())
                    .map(|a| a.iter().filter_map(|x| x.as_str().map(|s| s.to_string())).collect());
            }
            EventKind::ToolFailed { error, .. } => {
                out.ok = false;
                out.error = format!("tool_failed: {error}");
            }
            _ => {}
        }
    }
    out
}

fn list_dirs(root: &Path) -> BTreeSet<String> {
    crate::fixture::tree_manifest(root)
        .into_iter()
        .filter(|(p, (k, _, _))| *k == 'd' && p != ".rip" && !p.starts_with(".rip/"))
        .map(|(p, _)| p)
        .collect()
}

fn diff_class(before: &BTreeMap<String, Vec<u8>>, after: &BTreeMap<String, Vec<u8>>, root: &Path) -> Option<(String, String)> {
    for (p, b) in before {
        match after.get(p) {
            None => {
                let class = if root.join(p).is_dir() { "file_became_directory" } else { "file_missing" };
                return Some((class.to_string(), p.clone()));
            }
            Some(a) if a != b => return Some(("bytes_changed".to_string(), p.clone())),
            _ => {}
        }
    }
    for p in after.keys() {
        if !before.contains_key(p) {
            return Some(("new_file_left".to_string(), p.clone()));
        }
    }
    None
}

fn inexact_class(expect: &BTreeMap<String, Vec<u8>>, after: &BTreeMap<String, Vec<u8>>) -> Option<(String, String)> {
    for (p, e) in expect {
        match after.get(p) {
            None => return Some(("file_set".into(), p.clone())),
            Some(a) if a != e => {
                let norm = |b: &[u8]| String::from_utf8_lossy(b).replace("\r\n", "\n");
                let (na, ne) = (norm(a), norm(e));
                let class = if na == ne {
                    "line_ending"
                } else if na.trim_end_matches('\n') == ne.trim_end_matches('\n') {
                    "final_newline"
                } else {
                    "content"
                };
                return Some((class.into(), p.clone()));
            }
            _ => {}
        }
    }
    for p in after.keys() {
        if !expect.contains_key(p) {
            return Some(("file_set".into(), p.clone()));
        }
    }
    None
}

fn one_case(cfg: &Cfg, r: &mut Report, rt: &tokio::runtime::Runtime, base: &Path, idx: u64) {
    let mut case = gen_case(cfg, idx);
    let dir: PathBuf = base.join(format!("k{idx}"));
    // absolute "escaping" paths point into this case's own scratch directory (never at files the harness does not own)
    case.text = case.text.replace("/RV_C12_ABS", &dir.to_string_lossy());
    let _ = std::fs::remove_dir_all(&dir);
    let mut parsed_any = false;
    let mut outcome_tag = String::new();
    for driver in ["direct", "tool"] {
        let root = dir.join(driver);
        let _ = std::fs::create_dir_all(&root);
        case.ws.materialize(&root);
        let before = tree_bytes(&root, &[".rip"]);
        let dirs_before = list_dirs(&root);
        let applied = if driver == "direct" { apply_direct(&root, &case.text) } else { apply_tool(rt, &root, &case.text) };
        let after = tree_bytes(&root, &[".rip"]);
        let dirs_after = list_dirs(&root);
        r.eval();
        r.count(&format!("applied_{driver}"), 1);
        r.count("bytes_compared", before.values().chain(after.values()).map(|b| b.len() as u64).sum());
        r.count(if applied.ok { "outcome_ok" } else { "outcome_err" }, 1);
        if applied.panicked {
            r.count("panics_inside_apply", 1);
        }
        outcome_tag = if applied.ok { "ok".into() } else { "err".into() };
        let witness = |extra: Value| {
            json!({
                "case": idx, "driver": driver, "class": case.class, "patch": case.text,
                "workspace": case.ws.describe(), "reported": {"ok": applied.ok, "error": applied.error, "changed_files": applied.changed},
                "reference": case.reference, "detail": extra,
            })
        };
        if !applied.ok {
            // a parse error leaves nothing to undo; anything else reached the applier
            let parse_err = applied.error.contains("missing '***")
                || applied.error.contains("unexpected line")
                || applied.error.contains("must start with")
                || applied.error.contains("no hunks")
                || applied.error.contains("prefix")
                || applied.error.contains("empty patch line")
                || applied.error.contains("not allowed")
                || applied.error.contains("escapes")
                || applied.error.contains("cannot be empty");
            if !parse_err {
                parsed_any = true;
                r.count("rejected_by_applier_after_parse", 1);
            } else {
                r.count("rejected_by_parser", 1);
            }
            if let Some((class, path)) = diff_class(&before, &after, &root) {
                r.violation(
                    &format!("C12/not_atomic/{class}"),
                    &format!(
                        "apply_patch reported failure ({}) but the workspace changed: {class} at {path:?} [{}]",
                        applied.error, case.class
                    ),
                    witness(json!({"path": path, "before": before.get(&path).map(|b| show_bytes(b)), "after": after.get(&path).map(|b| show_bytes(b))})),
                );
            }
            let new_dirs = dirs_after.difference(&dirs_before).count() as u64;
            if new_dirs > 0 {
                r.count("empty_dirs_left_after_failed_patch", new_dirs);
            }
            if case.expect.is_some() {
                r.count("constructive_patch_rejected_not_judged", 1);
                if r.extra.get("constructive_rejected_example").is_none() {
                    r.note("constructive_rejected_example", json!({"case": idx, "error": applied.error}));
                }
            }
            if let Some((k, i, n)) = &case.planted {
                r.count(&format!("planted_fail_n{n}_i{i}"), 1);
                r.count(&format!("planted_kind_{k}"), 1);
            }
        } else {
            parsed_any = true;
            if let Some((model, changed)) = &case.expect {
                r.count("exactness_checked", 1);
                if let Some((class, path)) = inexact_class(&model.files, &after) {
                    let class = if case.single_empty_add { "add_file_single_empty_line".to_string() } else { class };
                    r.violation(
                        &format!("C12/inexact/{class}"),
                        &format!("patch succeeded but the workspace differs from performing its operations in order: {class} at {path:?}"),
                        witness(json!({"path": path, "expected": model.files.get(&path).map(|b| show_bytes(b)), "after": after.get(&path).map(|b| show_bytes(b))})),
                    );
                }
                if applied.changed.as_ref() != Some(changed) {
                    r.violation(
                        "C12/inexact/changed_files",
                        "patch succeeded but changed_files is not the sorted set of named paths",
                        witness(json!({"expected": changed})),
                    );
                }
            } else {
                r.count("success_outside_reference_domain_not_judged", 1);
                if case.planted.is_some() {
                    r.count("planted_failure_did_not_fail", 1);
                }
            }
        }
        let _ = std::fs::remove_dir_all(&root);
    }
    let _ = std::fs::remove_dir_all(&dir);
    if parsed_any {
        r.distinct(fnv_str(&format!("{}|{}", case.shape, outcome_tag)));
    }
    if idx >= DIRECTED && r.samples.len() < r.max_samples && parsed_any {
        r.sample(json!({"case": idx, "class": case.class, "patch": case.text, "files": case.ws.files.keys().collect::<Vec<_>>(), "outcome": outcome_tag, "reference": case.reference}));
    }
}

#[allow(dead_code)]
fn _unused(_: &mut Rng) {}
