//! C15 — provider stream decoding is lossless and chunking-invariant.
//!
//! (A) `SseDecoder` + `EventFrameMapper` through their public API: for generated SSE texts S and
//!     partitions P of S on char boundaries, frames(P) == frames({S}); a small WHATWG-style
//!     reference parser gives the expected number / order / payload of events; derived output
//!     text == concatenation of the provider's text deltas; mapper seq 0,1,2,…
//! (B) end to end: real session runs (`POST /sessions`, `POST /sessions/{id}/input`) against the
//!     scripted provider, which sends the SAME body bytes under many chunkings over real TCP
//!     (HTTP chunked encoding, TCP_NODELAY, pauses). The `sse.chunk` hook reports the chunk
//!     lengths `push_bytes` really received. Oracle: the session's provider_event /
//!     output_text_delta frames are identical across all chunkings of one body, agree with the
//!     reference parser, and the session seq continues without gap.
//!     Reset variants: the same bodies with the provider connection breaking after k body bytes
//!     (chunked body without terminating chunk), k from `provider::hostile_cuts` (±3 bytes around
//!     every event terminator, mid line, inside a UTF-8 character) and at random. Oracle: session
//!     numbering stays 0,1,2,… and the provider_event frames of the broken run are a PREFIX
//!     (payload-equal, in order) of the frames of the un-faulted run of the same body —
//!     differential against the same implementation, never against the reference parser.
//! (D) directed end-to-end cases for the two chunking-dependence defects predicted in DESIGN.md
//!     (F13 invalid-UTF-8 replacement count, F14 bytes after `[DONE]`) and a directed sweep of
//!     connection resets at every hostile cut of small LF / CRLF / mixed bodies — they run on every run.

use crate::fixture::{runtime, App, Store};
use crate::prng::{fnv, fnv_str, Rng};
use crate::provider::{ev_completed, ev_created, ev_text_delta, Provider, Recorded, Reply};
use crate::report::{Cfg, Report};
use crate::sched::{sched, Sched};
use crate::truth;
use rip_provider_openresponses::{EventFrameMapper, SseDecoder, ValidationOptions};
use ripd::verif_export::{OpenResponsesConfig, ToolChoiceParam};
use serde_json::{json, Value};
use std::collections::{BTreeSet, HashMap, HashSet};
use std::sync::{Arc, Mutex};
use std::time::{Duration, Instant};

const SIG_F13: &str = "C15/B/invalid_utf8_replacement_count_depends_on_chunking/truncated_multibyte_at_buffer_start";
const SIG_F14: &str = "C15/B/events_after_done_marker_depend_on_chunking";

const N_DIRECTED: u64 = 3;
const A_BASE: u64 = 1_000;
const B_BASE: u64 = 10_000_000;

pub fn run(cfg: &Cfg) -> i32 {
    let mut r = Report::new(
        "C15",
        "exploration",
        "(A) seeded SSE texts (LF/CRLF/mixed, multi-line data, comments, event names, empty data, invalid JSON, \
         [DONE], unicode, missing final blank line) x partitions on char boundaries through SseDecoder+EventFrameMapper: \
         every single split for |S|<=400, all 2-splits for |S|<=60, char-at-a-time, random partitions of long streams; \
         (B) seeded bodies (same grammar + injected invalid UTF-8) sent by the scripted provider over real TCP under many \
         chunkings to a real session run; a case is non-trivial when the stream holds >=1 event and the partition has >=2 \
         chunks ((B): >=2 chunks as observed at the sse.chunk hook); distinct = distinct (stream, set of cut-context \
         classes, chunk-count bucket) shapes",
    );
    r.max_samples = 6;
    r.assume("SseDecoder takes &str, so (A) partitions are on char boundaries; byte-level splits are exercised only end to end (B)");
    r.assume("reference parser is WHATWG event-stream parsing restricted to the documented subset (no lone CR inside the stream, no BOM, at most one space after 'data:', no 'data' line without colon); event names are never compared with the reference");
    r.assume("(B) chunkings are those TCP + hyper really delivered (recorded at the sse.chunk hook), not necessarily the ones the provider wrote");

    // replay: re-run exactly the stored case
    if let Some(path) = &cfg.replay {
        let doc: Value = std::fs::read(path)
            .ok()
            .and_then(|b| serde_json::from_slice(&b).ok())
            .unwrap_or(Value::Null);
        let seed = doc.get("seed").and_then(|x| x.as_u64()).unwrap_or(cfg.seed);
        let case = doc.pointer("/witness/case").and_then(|x| x.as_u64());
        let mut c2 = cfg.clone();
        c2.seed = seed;
        let Some(case) = case else {
            r.fatal_inconclusive("replay file has no witness.case");
            return r.finish(cfg);
        };
        if case >= B_BASE || case < N_DIRECTED {
            let mut e2e = E2e::start();
            if case < N_DIRECTED {
                directed_case(&c2, &mut r, &mut e2e, case);
            } else {
                b_case(&c2, &mut r, &mut e2e, case);
            }
            e2e.finish(&mut r);
        } else {
            a_case(&c2, &mut r, case);
        }
        return r.finish(cfg);
    }

    let only_a = cfg.has_flag("--only-a");
    let only_b = cfg.has_flag("--only-b");

    // (D) + (B) share one provider / runtime
    let mut e2e = if only_a { None } else { Some(E2e::start()) };

    // (D) directed known-defect reproductions: every run
    if let Some(e) = e2e.as_mut() {
        for d in 0..N_DIRECTED {
            if cfg.mine(d) {
                directed_case(cfg, &mut r, e, d);
            }
        }
    }

    // (A) pure decoder/mapper: 30 % (quick) / 15 % (thorough) of the budget, the rest goes to (B)
    if !only_b {
        let a_deadline = if only_a { cfg.budget_s } else { cfg.budget_s * cfg.tier.pick(0.30, 0.15) };
        let max_a = cfg.tier.pick(60_000u64, 6_000_000u64);
        let mut i = 0u64;
        while i < max_a && r.elapsed() < a_deadline {
            let idx = A_BASE + i;
            i += 1;
            if !cfg.mine(idx) {
                continue;
            }
            a_case(cfg, &mut r, idx);
        }
    }

    // (B) end to end
    if let Some(e) = e2e.as_mut() {
        let max_b = cfg.tier.pick(6_000u64, 600_000u64);
        let mut j = 0u64;
        while j < max_b && !r.over(cfg) {
            let idx = B_BASE + j;
            j += 1;
            if !cfg.mine(idx) {
                continue;
            }
            b_case(cfg, &mut r, e, idx);
        }
    }
    if let Some(e) = e2e.take() {
        e.finish(&mut r);
    } else if r.evaluations == 0 {
        r.fatal_inconclusive("no case evaluated");
    }
    r.finish(cfg)
}

// =============================================================================================
// Reference SSE parser (WHATWG "event stream interpretation", payload only)

/// Payloads (data buffer) of the events a WHATWG parser dispatches for `text`, in order.
/// Lines end with CRLF, LF or CR; an unterminated last line and an event without its final blank
/// line are discarded at end of stream.
fn reference_events(text: &str) -> Vec<String> {
    let b = text.as_bytes();
    let mut events = Vec::new();
    let mut data: Vec<&str> = Vec::new();
    let mut have_data = false;
    let mut i = 0usize;
    while i < b.len() {
        let Some(rel) = b[i..].iter().position(|c| *c == b'\n' || *c == b'\r') else {
            break; // unterminated last line: discarded
        };
        let j = i + rel;
        let line = &text[i..j];
        i = if b[j] == b'\r' && j + 1 < b.len() && b[j + 1] == b'\n' { j + 2 } else { j + 1 };
        if line.is_empty() {
            if have_data {
                events.push(data.join("\n"));
            }
            data.clear();
            have_data = false;
            continue;
        }
        if line.starts_with(':') {
            continue;
        }
        let (field, value) = match line.find(':') {
            Some(c) => {
                let v = &line[c + 1..];
                (&line[..c], v.strip_prefix(' ').unwrap_or(v))
            }
            None => (line, ""),
        };
        if field == "data" {
            data.push(value);
            have_data = true;
        }
    }
    events
}

/// Concatenation of the text deltas the provider sent (events whose JSON payload has
/// type == "response.output_text.delta" and a string "delta").
fn reference_text(events: &[String]) -> String {
    let mut out = String::new();
    for e in events {
        if e == "[DONE]" {
            continue;
        }
        if let Ok(v) = serde_json::from_str::<Value>(e) {
            if v.get("type").and_then(|t| t.as_str()) == Some("response.output_text.delta") {
                if let Some(d) = v.as_object().and_then(|o| o.get("delta")).and_then(|d| d.as_str()) {
                    out.push_str(d);
                }
            }
        }
    }
    out
}

fn expected_status(payload: &str) -> &'static str {
    if payload == "[DONE]" {
        "done"
    } else if serde_json::from_str::<Value>(payload).is_ok() {
        "event"
    } else {
        "invalid_json"
    }
}

// =============================================================================================
// Stream generator

#[derive(Clone, Copy)]
struct GenOpts {
    max_len: usize,
    /// `[DONE]` may appear before the end (only meaningful for the pure decoder, which does not stop)
    done_mid: bool,
    /// function-call events allowed (never end to end: they would start tool execution)
    tools: bool,
    /// cut the stream at an arbitrary char boundary instead of a clean end
    wild_cut: bool,
}

fn is_ws_start(s: &str) -> bool {
    s.chars().next().map(|c| c.is_whitespace()).unwrap_or(false)
}

/// Random one-line text that is safe as a raw data value: no CR/LF, no leading whitespace.
fn raw_text(rng: &mut Rng, n: usize) -> String {
    let mut t: String = rng.unicode(n).chars().filter(|c| *c != '\r' && *c != '\n').collect();
    while is_ws_start(&t) {
        let mut it = t.chars();
        it.next();
        t = it.collect();
    }
    if t.ends_with('\r') {
        t.pop();
    }
    t
}

fn small_json(rng: &mut Rng) -> String {
    match rng.below(9) {
        0 => "{\"a\":1}".to_string(),
        1 => "[]".to_string(),
        2 => "1".to_string(),
        3 => "null".to_string(),
        4 => format!("\"{}\"", rng.ident(3)),
        5 => format!("{{\"type\":\"{}\"}}", rng.ident(4)),
        6 => json!({"type":"response.output_text.delta","delta": rng.unicode(2)}).to_string(),
        7 => json!({"type":"response.output_text.delta","delta": 5}).to_string(),
        _ => json!({"k": rng.unicode(3), "n": rng.below(1000)}).to_string(),
    }
}

fn invalid_json(rng: &mut Rng) -> String {
    match rng.below(7) {
        0 => "{not json}".to_string(),
        1 => "{\"type\":".to_string(),
        2 => "[DONE] ".to_string() + "x",
        3 => "[done]".to_string(),
        4 => {
            let n = 1 + rng.usize(6);
            let t = raw_text(rng, n);
            if t.is_empty() || serde_json::from_str::<Value>(&t).is_ok() || t == "[DONE]" {
                "~".to_string()
            } else {
                t
            }
        }
        5 => "{\"delta\":\"x\"".to_string(),
        _ => "tru".to_string(),
    }
}

struct Block {
    lines: Vec<String>,
    /// true when the block is terminated by a blank line (dispatch)
    blank: bool,
}

fn event_line(rng: &mut Rng, name: &str) -> String {
    match rng.below(8) {
        0 => format!("event:{name}"),
        1 => format!("event:  {name}  "),
        2 => "event:".to_string(),
        3 => format!("event: {}", rng.ident(5)),
        _ => format!("event: {name}"),
    }
}

fn data_lines(rng: &mut Rng, payload_lines: &[String]) -> Vec<String> {
    let nospace = rng.chance(1, 6);
    payload_lines
        .iter()
        .map(|p| {
            if nospace && !is_ws_start(p) && !p.is_empty() {
                format!("data:{p}")
            } else {
                format!("data: {p}")
            }
        })
        .collect()
}

/// JSON value rendered over several lines (joined with "\n" it is the same JSON value); no line
/// starts with whitespace.
fn multiline_json(v: &Value) -> Vec<String> {
    serde_json::to_string_pretty(v)
        .unwrap_or_default()
        .lines()
        .map(|l| l.trim_start().to_string())
        .collect()
}

fn gen_block(rng: &mut Rng, room: usize, seqno: &mut u64, o: &GenOpts) -> Block {
    let big = room > 1200;
    let mid = room > 260;
    let pick = rng.below(100);
    let mut lines = Vec::new();
    let blank = true;
    let ty_delta = "response.output_text.delta";
    if pick < 22 {
        // text delta, full or minimal shape
        let n_chars = if mid { 1 + rng.usize(12) } else { 1 + rng.usize(2) };
        let delta = rng.unicode(n_chars);
        let v = if mid {
            *seqno += 1;
            ev_text_delta(*seqno, "msg_1", &delta)
        } else {
            json!({"type": ty_delta, "delta": delta})
        };
        if rng.chance(3, 4) {
            lines.push(event_line(rng, ty_delta));
        }
        if mid && rng.chance(1, 5) {
            lines.extend(data_lines(rng, &multiline_json(&v)));
        } else {
            lines.extend(data_lines(rng, &[v.to_string()]));
        }
    } else if pick < 34 {
        let p = small_json(rng);
        if rng.chance(1, 3) {
            lines.push(event_line(rng, "message"));
        }
        lines.extend(data_lines(rng, &[p]));
    } else if pick < 46 {
        let p = invalid_json(rng);
        if rng.chance(1, 3) {
            lines.push(event_line(rng, "response.created"));
        }
        lines.extend(data_lines(rng, &[p]));
    } else if pick < 52 {
        // empty payload
        lines.push(if rng.bool() { "data:".to_string() } else { "data: ".to_string() });
    } else if pick < 60 {
        // multi-line data: valid JSON spread over lines, or arbitrary lines
        if rng.bool() {
            let n_chars = 1 + rng.usize(4);
            let v = json!({"type": ty_delta, "delta": rng.unicode(n_chars), "n": [1, 2, {"x": null}]});
            lines.extend(data_lines(rng, &multiline_json(&v)));
        } else {
            let n = 2 + rng.usize(3);
            let parts: Vec<String> = (0..n)
                .map(|_| {
                    if rng.chance(1, 4) {
                        String::new()
                    } else {
                        let k = 1 + rng.usize(4);
                        raw_text(rng, k)
                    }
                })
                .collect();
            lines.extend(data_lines(rng, &parts));
        }
    } else if pick < 68 {
        // noise in front of an event
        match rng.below(6) {
            0 => lines.push(": keep-alive".to_string()),
            1 => lines.push(":".to_string()),
            2 => lines.push(format!("id: {}", rng.below(100))),
            3 => lines.push("retry: 1000".to_string()),
            4 => lines.push(format!("x-{}: {}", rng.ident(3), rng.ident(3))),
            _ => lines.push(format!(": {}", raw_text(rng, 3))),
        }
        let p = small_json(rng);
        lines.extend(data_lines(rng, &[p]));
        if rng.chance(1, 3) {
            lines.push(": trailing comment".to_string());
        }
    } else if pick < 73 {
        // event line without data, then blank (no dispatch)
        lines.push(event_line(rng, "response.in_progress"));
    } else if pick < 78 {
        // only noise (blank line dispatches nothing)
        lines.push(": ping".to_string());
    } else if pick < 82 {
        // extra blank line
    } else if pick < 86 && o.done_mid {
        lines.push("data: [DONE]".to_string());
    } else if pick < 92 && big {
        *seqno += 1;
        let v = if rng.bool() { ev_created(*seqno, "resp_1") } else { ev_completed(*seqno, "resp_1", json!([])) };
        let name = v.get("type").and_then(|t| t.as_str()).unwrap_or("x").to_string();
        lines.push(event_line(rng, &name));
        lines.extend(data_lines(rng, &[v.to_string()]));
    } else if pick < 96 && big && o.tools {
        *seqno += 1;
        // providers of the "missing item ids" kind omit `item.id` / `item_id`: the frame must still carry exactly
        // what was sent (the compat validation profile works on a normalised copy)
        let with_ids = rng.bool();
        let item = crate::provider::function_call_item(if with_ids { Some("fc_1") } else { None }, "call_1", "read", "{}", "in_progress");
        let mut v = match rng.below(6) {
            0 => crate::provider::ev_item_added(*seqno, 0, item),
            1 => crate::provider::ev_args_delta(*seqno, "fc_1", 0, "{\"pa"),
            2 => crate::provider::ev_args_done(*seqno, "fc_1", 0, "{\"path\":\"a\"}"),
            3 => crate::provider::ev_item_done(*seqno, 1, item),
            4 => {
                let mut out = json!({"type":"function_call_output","call_id":"call_1","output":"ok"});
                if with_ids {
                    out["id"] = json!("fco_1");
                }
                crate::provider::ev_item_done(*seqno, 2, out)
            }
            _ => ev_completed(*seqno, "resp_1", json!([item])),
        };
        if !with_ids {
            if let Some(o) = v.as_object_mut() {
                o.remove("item_id");
            }
        }
        let name = v.get("type").and_then(|t| t.as_str()).unwrap_or("x").to_string();
        lines.push(event_line(rng, &name));
        lines.extend(data_lines(rng, &[v.to_string()]));
    } else {
        let p = small_json(rng);
        lines.extend(data_lines(rng, &[p]));
    }
    Block { lines, blank }
}

/// Generate an SSE text of at most `o.max_len` bytes. Returns the text.
fn gen_stream(rng: &mut Rng, o: &GenOpts) -> String {
    let eol_mode = rng.below(4); // 0 LF, 1 CRLF, 2/3 mixed
    let mut s = String::new();
    let mut seqno = 0u64;
    let eol = |rng: &mut Rng| -> &'static str {
        match eol_mode {
            0 => "\n",
            1 => "\r\n",
            _ => {
                if rng.bool() {
                    "\n"
                } else {
                    "\r\n"
                }
            }
        }
    };
    let done_at_end = rng.chance(2, 3);
    let reserve = if done_at_end { 16 } else { 0 };
    let mut tries = 0;
    loop {
        tries += 1;
        if tries > 400 {
            break;
        }
        let room = o.max_len.saturating_sub(s.len() + reserve);
        if room < 8 {
            break;
        }
        let b = gen_block(rng, room, &mut seqno, o);
        let mut t = String::new();
        for l in &b.lines {
            t.push_str(l);
            t.push_str(eol(rng));
        }
        if b.blank {
            t.push_str(eol(rng));
        }
        if t.len() > room {
            if s.is_empty() || rng.chance(1, 2) {
                continue;
            }
            break;
        }
        s.push_str(&t);
        // streams shorter than the cap are wanted too
        if rng.chance(1, 12) {
            break;
        }
    }
    if done_at_end {
        s.push_str("data: [DONE]");
        s.push_str(eol(rng));
        s.push_str(eol(rng));
    }
    // ending: clean, missing final blank line, or arbitrary cut
    match rng.below(10) {
        0 | 1 => {
            // drop the last line terminator (missing final blank line)
            if s.ends_with("\r\n") {
                s.truncate(s.len() - 2);
            } else if s.ends_with('\n') {
                s.truncate(s.len() - 1);
            }
            if rng.bool() {
                // … and the terminator of the last field line as well
                if s.ends_with("\r\n") {
                    s.truncate(s.len() - 2);
                } else if s.ends_with('\n') {
                    s.truncate(s.len() - 1);
                }
            }
        }
        2 if o.wild_cut && s.len() > 2 => {
            let mut cut = 1 + rng.usize(s.len() - 1);
            while !s.is_char_boundary(cut) {
                cut -= 1;
            }
            s.truncate(cut);
        }
        3 if s.ends_with("\r\n") => {
            // cut between the CR and LF of the final blank line
            s.truncate(s.len() - 1);
        }
        _ => {}
    }
    // a lone CR anywhere but at the very end is outside the documented subset
    debug_assert!(!s[..s.len().saturating_sub(1)].replace("\r\n", "").contains('\r'));
    s
}

// =============================================================================================
// Cut-context classes (evidence: which kinds of split positions were exercised)

fn cut_class(b: &[u8], p: usize) -> &'static str {
    if p == 0 || p >= b.len() {
        return "edge";
    }
    let prev = b[p - 1];
    let next = b[p];
    if prev == b'\r' && next == b'\n' {
        return "between_cr_lf";
    }
    if (next & 0xC0) == 0x80 {
        return "inside_multibyte_or_invalid";
    }
    if prev == b'\n' && (next == b'\n' || next == b'\r') {
        return "before_blank_line";
    }
    let ls = b[..p].iter().rposition(|c| *c == b'\n').map(|i| i + 1).unwrap_or(0);
    if p == ls {
        return "line_start";
    }
    if next == b'\n' || next == b'\r' {
        return "line_end";
    }
    let mut colon = None;
    for (k, c) in b[ls..].iter().enumerate() {
        if *c == b'\n' {
            break;
        }
        if *c == b':' {
            colon = Some(ls + k);
            break;
        }
    }
    match colon {
        Some(c) if p <= c => "inside_field_name",
        Some(c) if p <= c + 2 => "after_colon",
        _ => {
            if prev >= 0x80 || next >= 0x80 {
                "next_to_multibyte"
            } else {
                "inside_value"
            }
        }
    }
}

fn bucket(n: usize) -> &'static str {
    match n {
        0 | 1 => "1",
        2 => "2",
        3 => "3",
        4..=7 => "4-7",
        8..=31 => "8-31",
        32..=127 => "32-127",
        _ => "128+",
    }
}

fn shape_of(b: &[u8], cuts: &[usize]) -> (String, BTreeSet<&'static str>) {
    let classes: BTreeSet<&'static str> = cuts.iter().map(|p| cut_class(b, *p)).collect();
    let s = format!("{}|{}", bucket(cuts.len() + 1), classes.iter().cloned().collect::<Vec<_>>().join(","));
    (s, classes)
}

// =============================================================================================
// (A) pure decoder + mapper

fn strip_volatile(mut v: Value) -> Value {
    if let Some(o) = v.as_object_mut() {
        o.remove("id");
        o.remove("timestamp_ms");
    }
    v
}

/// Frames the public decoder + mapper produce for `s` pushed in the chunks delimited by `cuts`.
fn decode_partition(s: &str, cuts: &[usize], validation: ValidationOptions) -> Vec<Value> {
    let mut d = SseDecoder::new_with_validation(validation);
    let mut m = EventFrameMapper::new("s");
    let mut frames = Vec::new();
    let mut from = 0usize;
    for &c in cuts.iter().chain(std::iter::once(&s.len())) {
        for p in d.push(&s[from..c]) {
            for f in m.map(&p) {
                frames.push(strip_volatile(serde_json::to_value(&f).unwrap_or(Value::Null)));
            }
        }
        from = c;
    }
    for p in d.finish() {
        for f in m.map(&p) {
            frames.push(strip_volatile(serde_json::to_value(&f).unwrap_or(Value::Null)));
        }
    }
    frames
}

struct Judged {
    provider_events: usize,
    text_deltas: usize,
}

/// Compare the frames of one decoding with the reference events. `lossy` = body had invalid
/// UTF-8 (payloads compared modulo runs of U+FFFD). `prefix_until_done` = frames may stop after
/// the terminal marker (end-to-end reader) or continue (pure decoder).
/// Returns Err((signature suffix, description)).
fn judge_against_reference(
    frames: &[Value],
    reference: &[String],
    lossy: bool,
    stop_at_done: bool,
) -> Result<Judged, (String, String)> {
    let pe: Vec<&Value> = frames.iter().filter(|f| f["type"] == "provider_event").collect();
    let expected: Vec<&String> = if stop_at_done {
        match reference.iter().position(|e| e == "[DONE]") {
            Some(k) => reference[..=k].iter().collect(),
            None => reference.iter().collect(),
        }
    } else {
        reference.iter().collect()
    };
    let tail_after_done = stop_at_done && expected.len() < reference.len();
    // with bytes after the terminal marker the number of frames is not defined by the statement
    // (the reader may stop): require the prefix only
    if (!tail_after_done && pe.len() != expected.len()) || pe.len() < expected.len() {
        return Err((
            "event_count_differs_from_reference".to_string(),
            format!("{} provider_event frames for {} server-sent events", pe.len(), expected.len()),
        ));
    }
    let norm = |s: &str| if lossy { collapse_fffd(s) } else { s.to_string() };
    for (i, (f, e)) in pe.iter().zip(expected.iter()).enumerate() {
        let want = expected_status(e);
        let got = f["status"].as_str().unwrap_or("");
        if got != want {
            return Err((
                format!("status_differs_from_reference/{want}"),
                format!("event {i}: payload {:?} should give status {want}, frame has {got}", clip(e)),
            ));
        }
        match want {
            "event" => {
                let v: Value = serde_json::from_str(e).unwrap_or(Value::Null);
                let same = if lossy {
                    norm(&f["data"].to_string()) == norm(&v.to_string())
                } else {
                    f["data"] == v
                };
                if !same || !f["raw"].is_null() {
                    return Err((
                        "payload_changed/event".to_string(),
                        format!("event {i}: frame data {} != payload {}", clip(&f["data"].to_string()), clip(e)),
                    ));
                }
            }
            _ => {
                let raw = f["raw"].as_str().unwrap_or("\u{0}<absent>");
                if norm(raw) != norm(e) || !f["data"].is_null() {
                    return Err((
                        format!("payload_changed/{want}"),
                        format!("event {i}: frame raw {:?} != payload {:?}", clip(raw), clip(e)),
                    ));
                }
            }
        }
    }
    // derived text == concatenation of the provider's text deltas (of the events that were framed)
    let framed: Vec<String> = reference.iter().take(pe.len()).cloned().collect();
    let want_text = reference_text(&framed);
    let mut got_text = String::new();
    let mut n_deltas = 0;
    for f in frames {
        if f["type"] == "output_text_delta" {
            got_text.push_str(f["delta"].as_str().unwrap_or(""));
            n_deltas += 1;
        }
    }
    if norm(&got_text) != norm(&want_text) {
        return Err((
            "output_text_not_concatenation_of_deltas".to_string(),
            format!("output text {:?} != concatenated provider deltas {:?}", clip(&got_text), clip(&want_text)),
        ));
    }
    // every output_text_delta directly follows the provider_event it was derived from
    for (i, f) in frames.iter().enumerate() {
        if f["type"] == "output_text_delta" {
            let ok = i > 0
                && frames[i - 1]["type"] == "provider_event"
                && frames[i - 1]["data"]["delta"].as_str() == f["delta"].as_str();
            if !ok {
                return Err((
                    "text_delta_not_after_its_provider_event".to_string(),
                    format!("output_text_delta at position {i} does not follow its provider_event"),
                ));
            }
        }
    }
    Ok(Judged { provider_events: pe.len(), text_deltas: n_deltas })
}

fn clip(s: &str) -> String {
    if s.len() <= 160 {
        return s.to_string();
    }
    let mut e = 160;
    while !s.is_char_boundary(e) {
        e -= 1;
    }
    format!("{}…(+{} bytes)", &s[..e], s.len() - e)
}

fn collapse_fffd(s: &str) -> String {
    let mut out = String::with_capacity(s.len());
    let mut prev = false;
    for c in s.chars() {
        if c == '\u{FFFD}' {
            if !prev {
                out.push(c);
            }
            prev = true;
        } else {
            out.push(c);
            prev = false;
        }
    }
    out
}

fn a_case(cfg: &Cfg, r: &mut Report, idx: u64) {
    let mut rng = cfg.case_rng(idx);
    // size class
    let class = rng.below(10);
    let (max_len, mode) = match class {
        0..=3 => (20 + rng.usize(41), "tiny"),    // <= 60: all 2-splits + all single splits
        4..=7 => (61 + rng.usize(340), "small"),  // <= 400: all single splits
        _ => (1_000 + rng.usize(cfg.tier.pick(12_000, 60_000)), "long"),
    };
    let o = GenOpts { max_len, done_mid: true, tools: true, wild_cut: true };
    let s = gen_stream(&mut rng, &o);
    if s.is_empty() {
        return;
    }
    let validation = if rng.chance(2, 5) {
        ValidationOptions::compat_missing_item_ids()
    } else {
        ValidationOptions::strict()
    };
    let whole = decode_partition(&s, &[], validation);
    let reference = reference_events(&s);
    r.count("A_streams", 1);
    r.count("A_stream_bytes", s.len() as u64);
    r.count("A_reference_events", reference.len() as u64);

    // mapper numbering 0,1,2,…
    for (i, f) in whole.iter().enumerate() {
        if f["seq"].as_u64() != Some(i as u64) {
            r.violation(
                "C15/A/mapper_seq_not_consecutive",
                &format!("frame {i} of a decoded stream has seq {}", f["seq"]),
                json!({"case": idx, "phase": "A", "stream": s}),
            );
            return;
        }
    }
    match judge_against_reference(&whole, &reference, false, false) {
        Ok(j) => {
            r.count("A_provider_event_frames_judged", j.provider_events as u64);
            r.count("A_text_delta_frames_judged", j.text_deltas as u64);
        }
        Err((kind, what)) => {
            r.violation(
                &format!("C15/A/{kind}"),
                &format!("decoder+mapper on the whole text: {what}"),
                json!({"case": idx, "phase": "A", "stream": s, "reference_events": reference, "frames": whole}),
            );
            return;
        }
    }

    let bounds: Vec<usize> = s.char_indices().map(|(i, _)| i).filter(|i| *i > 0).collect();
    let nontrivial = !reference.is_empty();
    let sh = fnv_str(&s);
    let mut checked = 0u64;
    let mut check = |r: &mut Report, cuts: &[usize], family: &str| -> bool {
        let got = decode_partition(&s, cuts, validation);
        checked += 1;
        if nontrivial && !cuts.is_empty() {
            let (shape, classes) = shape_of(s.as_bytes(), cuts);
            r.distinct(sh ^ fnv_str(&shape));
            if family == "single" {
                for c in classes {
                    r.count(&format!("A_single_split@{c}"), 1);
                }
            }
        }
        if got != whole {
            let first = got.iter().zip(whole.iter()).position(|(a, b)| a != b).unwrap_or(got.len().min(whole.len()));
            let class = if cuts.len() == 1 { cut_class(s.as_bytes(), cuts[0]) } else { "multi" };
            r.violation(
                &format!("C15/A/frames_depend_on_partition/{family}/cut@{class}"),
                &format!(
                    "SseDecoder+EventFrameMapper: {} frames when pushed whole, {} frames when pushed in {} chunks; first difference at frame {first}",
                    whole.len(),
                    got.len(),
                    cuts.len() + 1
                ),
                json!({"case": idx, "phase": "A", "stream": s, "cuts": cuts,
                       "frame_whole": whole.get(first), "frame_partitioned": got.get(first)}),
            );
            return false;
        }
        true
    };

    let mut ok = true;
    if mode != "long" {
        for &b in &bounds {
            if !check(r, &[b], "single") {
                ok = false;
                break;
            }
        }
        r.count("A_streams_all_single_splits", 1);
    }
    if ok && s.len() <= 60 {
        'outer: for i in 0..bounds.len() {
            for j in i + 1..bounds.len() {
                if !check(r, &[bounds[i], bounds[j]], "two") {
                    ok = false;
                    break 'outer;
                }
            }
        }
        r.count("A_streams_all_two_splits", 1);
    }
    if ok && (mode != "long" || s.len() <= 20_000) {
        // char at a time
        ok = check(r, &bounds, "char_at_a_time");
    }
    if ok {
        // random partitions
        let n_rand = if mode == "long" { cfg.tier.pick(40, 120) } else { 12 };
        for k in 0..n_rand {
            let cuts = random_cuts(&mut rng, s.as_bytes(), &bounds, k);
            if !check(r, &cuts, "random") {
                break;
            }
        }
        if mode == "long" {
            // single splits at a sample of positions, biased to line structure
            for _ in 0..cfg.tier.pick(60, 200) {
                if bounds.is_empty() {
                    break;
                }
                let b = *rng.pick(&bounds);
                let b = if rng.bool() { near_newline(s.as_bytes(), &bounds, b) } else { b };
                if !check(r, &[b], "single") {
                    break;
                }
            }
        }
    }
    r.evals(checked);
    r.count("A_partitions_checked", checked);
    if r.samples.len() < 2 && nontrivial && mode == "small" {
        r.sample(json!({"phase": "A", "case": idx, "stream": clip(&s), "bytes": s.len(), "reference_events": reference.len(),
                        "frames": whole.len(), "partitions_checked": checked}));
    }
}

fn near_newline(b: &[u8], bounds: &[usize], p: usize) -> usize {
    // move to the closest following boundary that touches a CR/LF
    let start = bounds.binary_search(&p).unwrap_or_else(|x| x.min(bounds.len() - 1));
    for &q in bounds[start..].iter().take(200) {
        if b[q - 1] == b'\n' || b[q - 1] == b'\r' || b[q] == b'\n' || b[q] == b'\r' {
            return q;
        }
    }
    p
}

/// Random ascending subset of `bounds`; style varies with `k`.
fn random_cuts(rng: &mut Rng, b: &[u8], bounds: &[usize], k: usize) -> Vec<usize> {
    if bounds.is_empty() {
        return Vec::new();
    }
    let mut set: BTreeSet<usize> = BTreeSet::new();
    match k % 5 {
        0 => {
            // few cuts
            for _ in 0..1 + rng.usize(4) {
                set.insert(*rng.pick(bounds));
            }
        }
        1 => {
            // dense
            for &q in bounds {
                if rng.chance(1, 3) {
                    set.insert(q);
                }
            }
        }
        2 => {
            // every cut touches a line terminator
            for &q in bounds {
                let touch = b[q - 1] == b'\n' || b[q - 1] == b'\r' || b[q] == b'\n' || b[q] == b'\r';
                if touch && rng.chance(2, 3) {
                    set.insert(q);
                }
            }
        }
        3 => {
            // roughly uniform chunk size
            let size = 1 + rng.usize(64);
            let mut next = size;
            for &q in bounds {
                if q >= next {
                    set.insert(q);
                    next = q + size;
                }
            }
        }
        _ => {
            // moderate
            let n = 1 + rng.usize(bounds.len().min(40));
            for _ in 0..n {
                set.insert(*rng.pick(bounds));
            }
        }
    }
    set.into_iter().collect()
}

// =============================================================================================
// (B) end to end over TCP

struct Chunking {
    label: &'static str,
    sizes: Vec<usize>,
    pause_us: u64,
    /// the provider drops the connection after this many body bytes (no terminating chunk)
    reset_after: Option<usize>,
}

impl Chunking {
    fn from_cuts(label: &'static str, len: usize, cuts: &[usize], pause_us: u64) -> Chunking {
        let mut sizes = Vec::new();
        let mut from = 0;
        for &c in cuts {
            if c > from && c < len {
                sizes.push(c - from);
                from = c;
            }
        }
        // the remainder goes out as the last chunk
        Chunking { label, sizes, pause_us, reset_after: None }
    }
    fn with_reset(mut self, k: usize) -> Chunking {
        self.reset_after = Some(k);
        self
    }
    fn cuts(&self, len: usize) -> Vec<usize> {
        let mut out = Vec::new();
        let mut at = 0;
        for s in &self.sizes {
            at += s;
            if at < len {
                out.push(at);
            }
        }
        out
    }
}

struct RunOut {
    label: &'static str,
    planned: Vec<usize>,
    observed: Vec<usize>,
    reset_after: Option<usize>,
    /// provider_event / output_text_delta frames, volatile fields removed, seq relative to the first
    frames: Vec<Value>,
}

struct LogTail {
    path: std::path::PathBuf,
    offset: u64,
    carry: Vec<u8>,
}

impl LogTail {
    fn new(path: std::path::PathBuf) -> Self {
        LogTail { path, offset: 0, carry: Vec::new() }
    }
    /// New complete lines since the last poll.
    fn poll(&mut self) -> Vec<Value> {
        use std::io::{Read, Seek, SeekFrom};
        let mut out = Vec::new();
        let Ok(mut f) = std::fs::File::open(&self.path) else {
            return out;
        };
        if f.seek(SeekFrom::Start(self.offset)).is_err() {
            return out;
        }
        let mut buf = Vec::new();
        if f.read_to_end(&mut buf).is_err() {
            return out;
        }
        self.offset += buf.len() as u64;
        self.carry.extend_from_slice(&buf);
        while let Some(nl) = self.carry.iter().position(|c| *c == b'\n') {
            let line: Vec<u8> = self.carry.drain(..=nl).collect();
            if let Ok(v) = serde_json::from_slice::<Value>(&line[..line.len() - 1]) {
                out.push(v);
            }
        }
        out
    }
}

struct E2e {
    rt: tokio::runtime::Runtime,
    provider: Provider,
    replies: Arc<Mutex<HashMap<u64, Reply>>>,
    next_key: u64,
    s: Arc<Sched>,
    // evidence
    bodies: u64,
    bodies_multi_partition: u64,
    bodies_single_partition_only: u64,
    runs: u64,
    observed_partitions: HashSet<u64>,
    observed_cut_classes: BTreeSet<&'static str>,
    wall_us_unfaulted: u64,
    wall_us_reset: u64,
    reset_runs: u64,
}

fn key_of(rec: &Recorded) -> Option<u64> {
    let b = &rec.body;
    let tag = b"C15KEY";
    let pos = b.windows(tag.len()).position(|w| w == tag)?;
    let digits: String = b[pos + tag.len()..]
        .iter()
        .take_while(|c| c.is_ascii_digit())
        .map(|c| *c as char)
        .collect();
    digits.parse().ok()
}

impl E2e {
    fn start() -> E2e {
        let replies: Arc<Mutex<HashMap<u64, Reply>>> = Arc::new(Mutex::new(HashMap::new()));
        let r2 = replies.clone();
        let provider = Provider::start(Arc::new(move |rec: &Recorded| {
            match key_of(rec).and_then(|k| r2.lock().unwrap().remove(&k)) {
                Some(reply) => reply,
                None => Reply::status(500, "{\"error\":\"c15: unknown key\"}"),
            }
        }));
        let s = sched();
        s.reset();
        s.record(true, &["sse.chunk"]);
        E2e {
            rt: runtime(4),
            provider,
            replies,
            next_key: 1,
            s,
            bodies: 0,
            bodies_multi_partition: 0,
            bodies_single_partition_only: 0,
            runs: 0,
            observed_partitions: HashSet::new(),
            observed_cut_classes: BTreeSet::new(),
            wall_us_unfaulted: 0,
            wall_us_reset: 0,
            reset_runs: 0,
        }
    }

    fn config(&self) -> OpenResponsesConfig {
        OpenResponsesConfig {
            endpoint: self.provider.endpoint(),
            api_key: None,
            model: Some("m".into()),
            headers: vec![],
            tool_choice: ToolChoiceParam::auto(),
            followup_user_message: None,
            stateless_history: false,
            parallel_tool_calls: false,
        }
    }

    /// Run one session per chunking of `body` (sequentially, so that the sse.chunk events between
    /// two runs belong to exactly one response). Err = harness-level problem (inconclusive).
    fn run_body(&mut self, body: &[u8], chunkings: &[Chunking], deadline: Instant) -> Result<(Vec<RunOut>, Vec<u8>), String> {
        let store = Store::new("c15");
        let app = App::open(&store, Some(self.config()))?;
        let mut tail = LogTail::new(store.log_path());
        let mut outs = Vec::new();
        for ch in chunkings {
            if Instant::now() > deadline && outs.len() >= 3 {
                break;
            }
            let key = self.next_key;
            self.next_key += 1;
            let mut reply = Reply::sse(body.to_vec()).chunked(ch.sizes.clone(), ch.pause_us);
            reply.reset_after = ch.reset_after;
            self.replies.lock().unwrap().insert(key, reply);
            let _ = self.s.take_events();
            let app2 = app.clone();
            let t_run = Instant::now();
            let res: Result<Vec<Value>, String> = self.rt.block_on(async {
                let (st, v) = app2.json("POST", "/sessions", None).await;
                let sid = v.get("session_id").and_then(|x| x.as_str()).unwrap_or("").to_string();
                if st != 201 || sid.is_empty() {
                    return Err(format!("POST /sessions -> {st}"));
                }
                let (st, _) = app2
                    .call("POST", &format!("/sessions/{sid}/input"), Some(&json!({"input": format!("C15KEY{key} hello")})))
                    .await;
                if st != 202 {
                    return Err(format!("POST /sessions/{{id}}/input -> {st}"));
                }
                let mut mine: Vec<Value> = Vec::new();
                let start = Instant::now();
                loop {
                    let mut ended = false;
                    for v in tail.poll() {
                        if v.get("stream_id").and_then(|x| x.as_str()) == Some(sid.as_str())
                            || v.get("session_id").and_then(|x| x.as_str()) == Some(sid.as_str())
                        {
                            if v["type"] == "session_ended" {
                                ended = true;
                            }
                            mine.push(v);
                        }
                    }
                    if ended {
                        return Ok(mine);
                    }
                    if start.elapsed() > Duration::from_secs(15) {
                        return Err("session did not end within 15 s".to_string());
                    }
                    tokio::time::sleep(Duration::from_micros(500)).await;
                }
            });
            let events = self.s.take_events();
            self.replies.lock().unwrap().remove(&key);
            if ch.reset_after.is_some() {
                self.wall_us_reset += t_run.elapsed().as_micros() as u64;
                self.reset_runs += 1;
            } else {
                self.wall_us_unfaulted += t_run.elapsed().as_micros() as u64;
            }
            let session_frames = res?;
            let observed: Vec<usize> = events
                .iter()
                .filter(|e| e.point == "sse.chunk")
                .filter_map(|e| e.ctx.trim().parse::<usize>().ok())
                .collect();
            // seq continuity inside this session stream (the whole log is checked at the end too)
            for (i, f) in session_frames.iter().enumerate() {
                if f["seq"].as_u64() != Some(i as u64) {
                    return Ok((
                        vec![RunOut { label: "session_seq_not_consecutive", planned: ch.sizes.clone(), observed, reset_after: ch.reset_after, frames: session_frames.clone() }],
                        store.log_bytes_settled(),
                    ));
                }
            }
            let mut frames = Vec::new();
            let mut base: Option<u64> = None;
            let mut prev_seq: Option<u64> = None;
            let mut contiguous = true;
            for f in &session_frames {
                let ty = f["type"].as_str().unwrap_or("");
                if ty == "provider_event" || ty == "output_text_delta" {
                    let seq = f["seq"].as_u64().unwrap_or(0);
                    if base.is_none() {
                        base = Some(seq);
                        // "continues without gap from the frames before it"
                        // (a connection that breaks before the first body byte is read leaves the transport-error
                        // frame right after the response headers)
                        let before_ok = session_frames.iter().any(|g| {
                            (g["type"] == "openresponses_response_first_byte"
                                || (ch.reset_after.is_some() && g["type"] == "openresponses_response_headers"))
                                && g["seq"].as_u64() == Some(seq.wrapping_sub(1))
                        });
                        contiguous &= before_ok;
                    }
                    if let Some(p) = prev_seq {
                        contiguous &= seq == p + 1;
                    }
                    prev_seq = Some(seq);
                    let mut g = f.clone();
                    if let Some(o) = g.as_object_mut() {
                        for k in ["id", "timestamp_ms", "session_id", "stream_id", "stream_kind"] {
                            o.remove(k);
                        }
                        o.insert("seq".into(), json!(seq - base.unwrap_or(0)));
                    }
                    frames.push(g);
                }
            }
            if !contiguous {
                return Ok((
                    vec![RunOut { label: "provider_frames_not_contiguous", planned: ch.sizes.clone(), observed, reset_after: ch.reset_after, frames: session_frames.clone() }],
                    store.log_bytes_settled(),
                ));
            }
            if ch.reset_after.is_none() {
                self.runs += 1;
            }
            outs.push(RunOut { label: ch.label, planned: ch.sizes.clone(), observed, reset_after: ch.reset_after, frames });
        }
        let log = store.log_bytes_settled();
        drop(app);
        Ok((outs, log))
    }

    fn finish(self, r: &mut Report) {
        r.count("B_bodies", self.bodies);
        r.count("B_session_runs", self.runs);
        r.count("B_session_runs_with_connection_reset", self.reset_runs);
        r.count("B_wall_ms_unfaulted_runs", self.wall_us_unfaulted / 1000);
        r.count("B_wall_ms_reset_runs", self.wall_us_reset / 1000);
        r.count("B_bodies_observed_under_2plus_partitions", self.bodies_multi_partition);
        r.count("B_bodies_single_partition_only_inconclusive", self.bodies_single_partition_only);
        r.count("B_distinct_body_partitions_observed", self.observed_partitions.len() as u64);
        r.note(
            "B_cut_classes_observed_at_sse_chunk_hook",
            json!(self.observed_cut_classes.iter().cloned().collect::<Vec<_>>()),
        );
        if self.bodies_multi_partition == 0 {
            r.fatal_inconclusive(&format!(
                "(B): no body was observed under >= 2 different partitions at the sse.chunk hook ({} bodies run)",
                self.bodies
            ));
        }
        self.s.reset();
    }
}

/// Invalid sequences: (bytes, std error_len of the first error when followed by ASCII)
const INVALID: &[(&[u8], &str)] = &[
    (&[0x80], "lone_continuation"),
    (&[0xBF], "lone_continuation"),
    (&[0xC3], "truncated_2byte"),
    (&[0xE2], "truncated_3byte_1"),
    (&[0xE2, 0x82], "truncated_3byte_2"),
    (&[0xF0], "truncated_4byte_1"),
    (&[0xF0, 0x9F], "truncated_4byte_2"),
    (&[0xF0, 0x9F, 0x98], "truncated_4byte_3"),
    (&[0xC0, 0x80], "overlong_2"),
    (&[0xE0, 0x80, 0x80], "overlong_3"),
    (&[0xF0, 0x80, 0x80, 0x80], "overlong_4"),
    (&[0xED, 0xA0, 0x80], "surrogate"),
    (&[0xFF], "invalid_byte"),
    (&[0xF5], "invalid_byte"),
    (&[0xF4, 0x90, 0x80, 0x80], "beyond_max"),
    (&[0xE2, 0x82, 0xE2, 0x82, 0xAC], "truncated_then_valid"),
];

/// Largest `error_len` std reports for any invalid sequence in `b` (0 = valid UTF-8; an
/// incomplete sequence at the very end does not count).
fn max_error_len(b: &[u8]) -> usize {
    let mut at = 0;
    let mut max = 0;
    while at < b.len() {
        match std::str::from_utf8(&b[at..]) {
            Ok(_) => break,
            Err(e) => match e.error_len() {
                Some(n) => {
                    max = max.max(n);
                    at += e.valid_up_to() + n;
                }
                None => break,
            },
        }
    }
    max
}

/// Reference text of a body: lossy decoding, without the incomplete sequence at the very end
/// (the reader can never complete it).
fn lossy_reference_text(b: &[u8]) -> (String, bool) {
    let mut end = b.len();
    let mut at = 0;
    let mut invalid = false;
    while at < b.len() {
        match std::str::from_utf8(&b[at..]) {
            Ok(_) => break,
            Err(e) => {
                invalid = true;
                match e.error_len() {
                    Some(n) => at += e.valid_up_to() + n,
                    None => {
                        end = at + e.valid_up_to();
                        break;
                    }
                }
            }
        }
    }
    (String::from_utf8_lossy(&b[..end]).to_string(), invalid)
}

fn interesting_positions(b: &[u8]) -> Vec<usize> {
    let mut v = Vec::new();
    let n = b.len();
    for p in 1..n {
        let prev = b[p - 1];
        let next = b[p];
        let inside_mb = (next & 0xC0) == 0x80 || prev >= 0xC0;
        let crlf = prev == b'\r' && next == b'\n';
        let blank = prev == b'\n' && (next == b'\n' || next == b'\r');
        let after_nl = prev == b'\n';
        let line_start = p >= 2 && (p == 2 || b[p - 3] == b'\n') && b[p - 2].is_ascii_lowercase() && prev.is_ascii_lowercase();
        let colon = prev == b':';
        let around_invalid = next >= 0x80 || prev >= 0x80;
        if inside_mb || crlf || blank || after_nl || line_start || colon || around_invalid {
            v.push(p);
        }
    }
    v
}

fn plan_chunkings(rng: &mut Rng, body: &[u8], quick: bool, must: &[usize]) -> Vec<Chunking> {
    let n = body.len();
    let pauses = [300u64, 600, 1000, 2000];
    let mut out = vec![Chunking { label: "whole", sizes: vec![], pause_us: 0, reset_after: None }];
    if n < 2 {
        return out;
    }
    // directed single splits first
    for &p in must {
        if p > 0 && p < n {
            out.push(Chunking::from_cuts("single_split", n, &[p], 1500));
        }
    }
    if n <= cfg_pick(quick, 160, 600) {
        out.push(Chunking { label: "byte_at_a_time", sizes: vec![1; n], pause_us: 300, reset_after: None });
    }
    let mut interesting = interesting_positions(body);
    rng.shuffle(&mut interesting);
    let n_single = cfg_pick(quick, 8, 20);
    for &p in interesting.iter().take(n_single) {
        out.push(Chunking::from_cuts("single_split", n, &[p], *rng.pick(&pauses)));
    }
    for _ in 0..cfg_pick(quick, 3, 8) {
        let p = 1 + rng.usize(n - 1);
        out.push(Chunking::from_cuts("single_split", n, &[p], *rng.pick(&pauses)));
    }
    // several cuts at interesting positions
    for _ in 0..cfg_pick(quick, 2, 5) {
        let k = 2 + rng.usize(6);
        let mut cuts: Vec<usize> = interesting.iter().take(200).cloned().collect();
        rng.shuffle(&mut cuts);
        cuts.truncate(k);
        cuts.sort_unstable();
        cuts.dedup();
        out.push(Chunking::from_cuts("multi_split_at_structure", n, &cuts, *rng.pick(&pauses)));
    }
    // uniform sizes
    for size in [2usize, 3, 5, 7, 16, 61] {
        if n / size <= cfg_pick(quick, 120, 400) && rng.chance(1, 2) {
            out.push(Chunking { label: "uniform", sizes: vec![size; n / size + 1], pause_us: 300, reset_after: None });
        }
    }
    // random partition
    for _ in 0..cfg_pick(quick, 2, 5) {
        let k = 1 + rng.usize(n.min(24));
        let mut cuts: Vec<usize> = (0..k).map(|_| 1 + rng.usize(n - 1)).collect();
        cuts.sort_unstable();
        cuts.dedup();
        out.push(Chunking::from_cuts("random", n, &cuts, *rng.pick(&pauses)));
    }
    out
}

fn cfg_pick(quick: bool, q: usize, t: usize) -> usize {
    if quick {
        q
    } else {
        t
    }
}

/// Strings of all frames with runs of U+FFFD collapsed (used to classify a difference).
fn frames_collapsed(frames: &[Value]) -> Vec<String> {
    frames
        .iter()
        .map(|f| {
            // error texts may quote a column / the value: only their number is kept here
            let mut g = f.clone();
            for k in ["errors", "response_errors"] {
                let n = g[k].as_array().map(|a| a.len()).unwrap_or(0);
                g[k] = json!(n);
            }
            collapse_fffd(&g.to_string())
        })
        .collect()
}

struct BodyInfo<'a> {
    case: u64,
    body: &'a [u8],
    what: &'a str,
    /// None = derive from the body
    inject_labels: Vec<&'static str>,
}

/// Judge all runs of one body. Returns true when at least 2 distinct partitions were observed.
fn judge_body(r: &mut Report, e: &mut E2e, info: &BodyInfo, outs: &[RunOut], log: &[u8]) -> bool {
    let body = info.body;
    let (ref_text, invalid) = lossy_reference_text(body);
    let reference = reference_events(&ref_text);
    let class = if invalid { "invalid_utf8" } else { "valid_utf8" };
    let done_pos = reference.iter().position(|x| x == "[DONE]");
    let tail_after_done = done_pos.map(|k| k + 1 < reference.len()).unwrap_or(false);
    let witness = |extra: Value| {
        json!({"case": info.case, "phase": "B", "what": info.what, "body_hex": hex::encode(body),
               "body_lossy": clip(&String::from_utf8_lossy(body)), "injected": info.inject_labels, "detail": extra})
    };

    // harness-level early outs encoded in label
    if let Some(o) = outs.iter().find(|o| o.label == "session_seq_not_consecutive" || o.label == "provider_frames_not_contiguous") {
        let (sig, what) = match o.reset_after {
            Some(_) => (
                format!("C15/B/seq_gap/{}/provider_connection_reset_mid_body", o.label),
                "session frame numbering does not continue 0,1,2,… through the provider frames of a response whose connection broke mid-body",
            ),
            None => (
                format!("C15/B/seq_gap/{}", o.label),
                "session frame numbering does not continue 0,1,2,… through the provider frames",
            ),
        };
        r.violation(
            &sig,
            what,
            witness(json!({"planned_chunks": o.planned, "observed_chunks": o.observed, "reset_after_body_bytes": o.reset_after,
                           "reset_cut_class": o.reset_after.map(|k| reset_class(body, k)), "session_frames": o.frames})),
        );
        return false;
    }
    if outs.is_empty() {
        return false;
    }

    // whole-log structure and numbering (independent parser)
    match truth::parse_log(log) {
        Ok(frames) => {
            if let Err(err) = truth::check_streams(&frames) {
                r.violation(
                    &format!("C15/B/seq_gap/{}", err.kind),
                    &format!("per-stream seq not 0,1,2,… after provider streaming: {}", err.detail),
                    witness(json!(err.detail)),
                );
                return false;
            }
            r.count("B_log_frames_seq_checked", frames.len() as u64);
        }
        Err(err) => {
            r.violation(
                &format!("C15/B/log_structure/{}", err.kind),
                &format!("event log is not whole JSON lines: {}", err.detail),
                witness(json!(err.detail)),
            );
            return false;
        }
    }

    // evidence: partitions really seen
    let mut distinct_obs: HashSet<Vec<usize>> = HashSet::new();
    let bh = fnv(body);
    for o in outs {
        distinct_obs.insert(o.observed.clone());
        let mut cuts = Vec::new();
        let mut at = 0;
        for s in &o.observed {
            at += s;
            if at < body.len() {
                cuts.push(at);
            }
        }
        let key = bh ^ fnv_str(&format!("{:?}", o.observed));
        if e.observed_partitions.insert(key) {
            r.count("B_chunks_observed_at_hook", o.observed.len() as u64);
        }
        if o.observed.len() >= 2 && !reference.is_empty() {
            let (shape, classes) = shape_of(body, &cuts);
            r.distinct(bh ^ fnv_str(&shape) ^ 0xB);
            for c in classes {
                e.observed_cut_classes.insert(c);
                r.count(&format!("B_observed_cut@{c}"), 1);
            }
        }
        let planned_n = o.planned.len().max(1);
        if o.observed.len() < planned_n.min(body.len()) && done_pos.is_none() {
            r.count("B_runs_where_network_coalesced_chunks", 1);
        }
    }
    let multi = distinct_obs.len() >= 2;

    // 1. identical frames across all chunkings (run 0 = whole body written as one chunk)
    let first = &outs[0];
    for o in &outs[1..] {
        r.eval();
        if o.frames == first.frames {
            continue;
        }
        let same_partition = o.observed == first.observed;
        let idx = o
            .frames
            .iter()
            .zip(first.frames.iter())
            .position(|(a, b)| a != b)
            .unwrap_or(o.frames.len().min(first.frames.len()));
        let detail = json!({
            "chunks_run_1": first.observed, "chunks_run_2": o.observed,
            "planned_1": first.planned, "planned_2": o.planned,
            "frames_run_1": first.frames.len(), "frames_run_2": o.frames.len(),
            "first_differing_frame_run_1": first.frames.get(idx), "first_differing_frame_run_2": o.frames.get(idx),
        });
        if same_partition {
            r.violation(
                &format!("C15/B/frames_differ_under_identical_partition/{class}"),
                "two runs that received the body in the same chunks produced different frames (non-determinism other than chunking)",
                witness(detail),
            );
            return multi;
        }
        // classify
        let upto_done = |f: &[Value]| -> Vec<Value> {
            match f.iter().position(|x| x["type"] == "provider_event" && x["status"] == "done") {
                Some(k) => f[..=k].to_vec(),
                None => f.to_vec(),
            }
        };
        if tail_after_done && !invalid && upto_done(&o.frames) == upto_done(&first.frames) {
            r.violation(
                SIG_F14,
                &format!(
                    "bytes after `data: [DONE]` are turned into frames only when they arrive in the same chunk as the marker: {} frames under chunks {:?} vs {} frames under chunks {:?}",
                    first.frames.len(), clipv(&first.observed), o.frames.len(), clipv(&o.observed)
                ),
                witness(detail),
            );
            continue;
        }
        if invalid && max_error_len(body) >= 2 && frames_collapsed(&o.frames) == frames_collapsed(&first.frames) {
            r.violation(
                SIG_F13,
                &format!(
                    "same body, different number of U+FFFD for one invalid UTF-8 sequence depending on where the chunk boundary falls (chunks {:?} vs {:?})",
                    clipv(&first.observed), clipv(&o.observed)
                ),
                witness(detail),
            );
            continue;
        }
        // confirmation: a verdict needs a witness that replays — run exactly the two chunkings again and report only
        // if the frames differ again (a one-off difference that does not reproduce is counted as inconclusive)
        {
            let again = [
                Chunking { label: "confirm_1", sizes: first.planned.clone(), pause_us: 1500, reset_after: None },
                Chunking { label: "confirm_2", sizes: o.planned.clone(), pause_us: 1500, reset_after: None },
            ];
            match e.run_body(body, &again, Instant::now() + Duration::from_secs(20)) {
                Ok((re, _)) if re.len() == 2 && re[0].frames == re[1].frames => {
                    r.count("B_differences_not_reproduced_on_confirmation", 1);
                    r.inconclusive(&format!(
                        "C15/B: a difference between chunkings {:?} and {:?} did not reproduce when the two runs were repeated",
                        clipv(&first.observed), clipv(&o.observed)
                    ));
                    continue;
                }
                _ => {}
            }
        }
        r.violation(
            &format!("C15/B/frames_depend_on_chunking/{class}"),
            &format!(
                "same body bytes, different provider_event/output_text_delta frames: {} frames under chunks {:?}, {} under {:?}; first difference at frame {idx}",
                first.frames.len(), clipv(&first.observed), o.frames.len(), clipv(&o.observed)
            ),
            witness(detail),
        );
        return multi;
    }
    // 2. reference: count / order / payload, for every run — unless the (lossily decoded) body contains a lone CR:
    // the statement quantifies over LF and CRLF streams, and whether a bare CR ends a line is outside it (injected
    // invalid bytes after a final "\r" create one); such bodies are judged on chunking-invariance only
    let lossy_body = String::from_utf8_lossy(body).to_string();
    let lb = lossy_body.as_bytes();
    let lone_cr = (0..lb.len()).any(|i| lb[i] == b'\r' && (i + 1 >= lb.len() || lb[i + 1] != b'\n'));
    if lone_cr {
        r.count("B_bodies_with_lone_cr_not_judged_against_reference", 1);
        return multi;
    }
    for o in outs {
        match judge_against_reference(&o.frames, &reference, invalid, true) {
            Ok(j) => {
                r.count("B_provider_event_frames_judged", j.provider_events as u64);
                r.count("B_text_delta_frames_judged", j.text_deltas as u64);
            }
            Err((kind, what)) => {
                r.violation(
                    &format!("C15/B/{kind}/{class}"),
                    &format!("session run against scripted provider ({} chunks observed): {what}", o.observed.len()),
                    witness(json!({"planned_chunks": o.planned, "observed_chunks": o.observed,
                                   "reference_events": reference, "frames": o.frames})),
                );
                return multi;
            }
        }
    }

    multi
}

// ---------------------------------------------------------------------------------------------
// (B) reset variants: the provider connection breaks after k body bytes

fn reset_class(body: &[u8], k: usize) -> &'static str {
    crate::provider::hostile_cuts(body)
        .into_iter()
        .find(|c| c.0 == k)
        .map(|c| c.1)
        .unwrap_or("other")
}

/// Reset runs for one body: one cut per hostile cut class present (classes in random order, at most
/// `max_classes`), plus one uniformly random cut. Half of them deliver the bytes before the cut in
/// two chunks.
fn plan_resets(rng: &mut Rng, body: &[u8], max_classes: usize) -> Vec<Chunking> {
    let n = body.len();
    let mut out = Vec::new();
    if n < 3 {
        return out;
    }
    let mut by_class: Vec<(&'static str, Vec<usize>)> = Vec::new();
    for (p, l) in crate::provider::hostile_cuts(body) {
        match by_class.iter_mut().find(|c| c.0 == l) {
            Some(c) => c.1.push(p),
            None => by_class.push((l, vec![p])),
        }
    }
    rng.shuffle(&mut by_class);
    let mut cuts: Vec<usize> = by_class.iter().take(max_classes).map(|(_, ps)| *rng.pick(ps)).collect();
    cuts.push(1 + rng.usize(n - 1));
    for k in cuts {
        let inner = if k > 1 && rng.bool() { vec![1 + rng.usize(k - 1)] } else { Vec::new() };
        out.push(Chunking::from_cuts("reset", n, &inner, 800).with_reset(k));
    }
    out
}

/// The early outs of `run_body` stay with the un-faulted runs (they are reported by `judge_body`).
fn split_resets(outs: Vec<RunOut>) -> (Vec<RunOut>, Vec<RunOut>) {
    outs.into_iter().partition(|o| {
        o.reset_after.is_none() || o.label == "session_seq_not_consecutive" || o.label == "provider_frames_not_contiguous"
    })
}

/// Shape of the frame that reports a transport error (no payload, an error text). An event whose payload is the
/// JSON value `null` has the same shape, so the shape alone never decides which frame is the transport error.
fn transport_error_shape(f: &Value) -> bool {
    f["type"] == "provider_event"
        && f["errors"].as_array().map(|a| !a.is_empty()).unwrap_or(false)
        && f["data"].is_null()
        && f["raw"].is_null()
}

/// Judge the reset runs of one body against its un-faulted run `reference` (same implementation):
/// the frames of a run whose connection broke — minus the transport-error frame — must be a
/// payload-equal prefix, in order, of the un-faulted frames. Numbering is judged in `run_body` /
/// `judge_body` (session seq 0,1,2,… and whole-log check).
fn judge_resets(r: &mut Report, info: &BodyInfo, reference: &RunOut, resets: &[RunOut]) {
    let body = info.body;
    let (_, invalid) = lossy_reference_text(body);
    let bh = fnv(body);
    let payload = |f: &Value| -> String {
        let mut g = f.clone();
        if let Some(o) = g.as_object_mut() {
            o.remove("seq");
        }
        // invalid UTF-8: the number of U+FFFD per invalid sequence is known to depend on chunking (F13)
        if invalid {
            frames_collapsed(&[g]).pop().unwrap_or_default()
        } else {
            g.to_string()
        }
    };
    let want: Vec<String> = reference.frames.iter().map(payload).collect();
    for o in resets {
        let k = o.reset_after.unwrap_or(0);
        let class = reset_class(body, k);
        r.eval();
        r.count("B_reset_runs", 1);
        r.count(&format!("B_reset_cut@{class}"), 1);
        // the broken run may hold ONE frame the un-faulted run does not have — the transport error; it is the first
        // frame that differs from the un-faulted run and has the transport-error shape
        let mut got: Vec<String> = o.frames.iter().map(payload).collect();
        let lcp = got.iter().zip(want.iter()).take_while(|(a, b)| a == b).count();
        let mut err_at = None;
        if lcp < got.len() && transport_error_shape(&o.frames[lcp]) {
            got.remove(lcp);
            err_at = Some(lcp);
        }
        if err_at.is_none() {
            // the reader had already stopped (terminal marker before the cut)
            r.count("B_reset_runs_without_transport_error_frame", 1);
        } else {
            r.count("B_reset_runs_with_transport_error_frame", 1);
            r.distinct(bh ^ fnv_str(class) ^ 0xBE5E7);
            if !got.is_empty() {
                r.count("B_reset_runs_with_frames_from_bytes_before_the_cut", 1);
            }
        }
        r.count("B_reset_frames_compared_with_unfaulted_run", got.len() as u64);
        let is_prefix = got.len() <= want.len() && got.iter().zip(want.iter()).all(|(a, b)| a == b);
        if !is_prefix {
            let idx = got.iter().zip(want.iter()).position(|(a, b)| a != b).unwrap_or(want.len().min(got.len()));
            let kept: Vec<&Value> = o.frames.iter().enumerate().filter(|(i, _)| Some(*i) != err_at).map(|(_, f)| f).collect();
            r.violation(
                &format!("C15/B/reset_frames_not_prefix_of_unfaulted_run/cut@{class}"),
                &format!(
                    "provider connection dropped after {k} of {} body bytes: the {} provider frames of that run are not a prefix of the {} frames of the un-faulted run of the same body (first difference at frame {idx})",
                    body.len(), got.len(), want.len()
                ),
                json!({"case": info.case, "phase": "B", "what": info.what, "body_hex": hex::encode(body),
                       "body_lossy": clip(&String::from_utf8_lossy(body)), "injected": info.inject_labels,
                       "reset_after_body_bytes": k, "cut_class": class,
                       "planned_chunks": o.planned, "observed_chunks": o.observed,
                       "transport_error_frame_at": err_at,
                       "frame_reset_run": kept.get(idx),
                       "frame_unfaulted_run": reference.frames.get(idx),
                       "frames_reset_run": o.frames.len(), "frames_unfaulted_run": reference.frames.len()}),
            );
            return;
        }
    }
}

fn clipv(v: &[usize]) -> Vec<usize> {
    v.iter().take(12).cloned().collect()
}

fn account_body(e: &mut E2e, multi: bool) {
    e.bodies += 1;
    if multi {
        e.bodies_multi_partition += 1;
    } else {
        e.bodies_single_partition_only += 1;
    }
}

fn b_case(cfg: &Cfg, r: &mut Report, e: &mut E2e, idx: u64) {
    let mut rng = cfg.case_rng(idx);
    let quick = cfg.tier.pick(true, false);
    let class = rng.below(10);
    let max_len = match class {
        0..=3 => 40 + rng.usize(120),
        4..=7 => 160 + rng.usize(700),
        _ => 1_000 + rng.usize(cfg.tier.pick(6_000, 40_000)),
    };
    let done_mid = rng.chance(1, 16);
    let o = GenOpts { max_len, done_mid, tools: false, wild_cut: true };
    let text = gen_stream(&mut rng, &o);
    if text.is_empty() {
        return;
    }
    let mut body = text.clone().into_bytes();
    let mut labels: Vec<&'static str> = Vec::new();
    let mut must: Vec<usize> = Vec::new();
    if !done_mid && rng.chance(1, 2) {
        // inject invalid UTF-8 at char boundaries (never between CR and LF)
        let n_inj = 1 + rng.usize(3);
        for _ in 0..n_inj {
            // candidate positions: on a char boundary of the current bytes, ASCII (or nothing) on
            // the left, never between CR and LF
            let cands: Vec<usize> = (0..=body.len())
                .filter(|&p| {
                    let left_ok = p == 0 || body[p - 1] < 0x80;
                    let right_ok = p == body.len() || (body[p] & 0xC0) != 0x80;
                    let crlf = p > 0 && p < body.len() && body[p - 1] == b'\r' && body[p] == b'\n';
                    left_ok && right_ok && !crlf
                })
                .collect();
            if cands.is_empty() {
                break;
            }
            let p = *rng.pick(&cands);
            let (seq, label) = *rng.pick(INVALID);
            let tail: Vec<u8> = body.split_off(p);
            body.extend_from_slice(seq);
            body.extend_from_slice(&tail);
            labels.push(label);
            // exercise splits before / inside / after the invalid sequence
            for q in p..=p + seq.len() {
                if rng.chance(1, 2) {
                    must.push(q);
                }
            }
        }
        must.truncate(cfg.tier.pick(6, 16));
    }
    let mut chunkings = plan_chunkings(&mut rng, &body, quick, &must);
    // reset variants of the same body (a stream of its own: the un-faulted chunkings stay what they were)
    let mut rrng = cfg.case_rng(idx ^ (1 << 41));
    chunkings.extend(plan_resets(&mut rrng, &body, cfg.tier.pick(4, 8)));
    let deadline = Instant::now() + Duration::from_secs_f64((cfg.budget_s - r.elapsed()).max(1.0));
    match e.run_body(&body, &chunkings, deadline) {
        Ok((outs, log)) => {
            let info = BodyInfo { case: idx, body: &body, what: "generated body", inject_labels: labels.clone() };
            let (outs, reset_outs) = split_resets(outs);
            let multi = judge_body(r, e, &info, &outs, &log);
            // outs[0] = the un-faulted run that got the body written as one chunk (an early out of run_body is alone)
            if !reset_outs.is_empty() && outs.first().map(|o| o.label == "whole").unwrap_or(false) {
                judge_resets(r, &info, &outs[0], &reset_outs);
            }
            account_body(e, multi);
            r.count(&format!("B_bodies_{}", if labels.is_empty() { "valid_utf8" } else { "with_invalid_utf8" }), 1);
            for l in &labels {
                r.count(&format!("B_injected_{l}"), 1);
            }
            if r.samples.len() < r.max_samples && outs.len() > 3 && multi {
                let parts: Vec<Value> = outs.iter().take(6).map(|o| json!({"planned": o.label, "observed_chunks": clipv(&o.observed), "n_observed": o.observed.len()})).collect();
                r.sample(json!({"phase": "B", "case": idx, "body_bytes": body.len(), "injected": labels,
                                "body": clip(&String::from_utf8_lossy(&body)),
                                "runs": outs.len(), "frames_per_run": outs[0].frames.len(), "partitions": parts}));
            }
        }
        Err(why) => r.inconclusive(&format!("(B) case {idx}: {why}")),
    }
}

// =============================================================================================
// (D) directed reproductions of the two predicted chunking-dependence defects

/// Directed sweep: small bodies in LF / CRLF / mixed framing, the provider connection reset at EVERY
/// hostile cut (±3 bytes around each event terminator, mid line, inside a UTF-8 character).
fn directed_resets(r: &mut Report, e: &mut E2e, d: u64) {
    // (terminator of field lines, terminator of blank lines)
    let framings: [(&str, &str, &str); 4] =
        [("lf", "\n", "\n"), ("crlf", "\r\n", "\r\n"), ("lf_field_crlf_blank", "\n", "\r\n"), ("crlf_field_lf_blank", "\r\n", "\n")];
    for (name, fe, be) in framings {
        let mut text = String::new();
        for (i, delta) in ["a", "é→🙂 b", "c"].iter().enumerate() {
            let v = ev_text_delta(i as u64 + 1, "msg_1", delta);
            if i != 1 {
                text.push_str(&format!("event: response.output_text.delta{fe}"));
            }
            text.push_str(&format!("data: {v}{fe}{be}"));
        }
        text.push_str(&format!(": comment{fe}{be}data: {{not json{fe}{be}data: [DONE]{fe}{be}"));
        let body = text.into_bytes();
        let mut chunkings = vec![Chunking { label: "whole", sizes: vec![], pause_us: 0, reset_after: None }];
        for (k, _) in crate::provider::hostile_cuts(&body) {
            let inner = if k % 2 == 0 && k > 2 { vec![k / 2] } else { Vec::new() };
            chunkings.push(Chunking::from_cuts("reset", body.len(), &inner, 800).with_reset(k));
        }
        let deadline = Instant::now() + Duration::from_secs(60);
        match e.run_body(&body, &chunkings, deadline) {
            Ok((outs, log)) => {
                let what = format!("directed reset sweep, {name} framing");
                let info = BodyInfo { case: d, body: &body, what: &what, inject_labels: vec![] };
                let (outs, reset_outs) = split_resets(outs);
                let _ = judge_body(r, e, &info, &outs, &log);
                if !reset_outs.is_empty() && outs.first().map(|o| o.label == "whole").unwrap_or(false) {
                    judge_resets(r, &info, &outs[0], &reset_outs);
                }
                r.count("D_directed_reset_bodies", 1);
                r.count("D_directed_reset_runs", reset_outs.len() as u64);
            }
            Err(why) => r.inconclusive(&format!("directed case {d} ({name}): {why}")),
        }
    }
    r.count("D_directed_cases_run", 1);
}

fn directed_case(cfg: &Cfg, r: &mut Report, e: &mut E2e, d: u64) {
    if d == 2 {
        directed_resets(r, e, d);
        return;
    }
    let delta_event = |delta_bytes: &[u8]| -> Vec<u8> {
        let mut b = b"event: response.output_text.delta\ndata: {\"type\":\"response.output_text.delta\",\"sequence_number\":1,\"item_id\":\"msg_1\",\"output_index\":0,\"content_index\":0,\"delta\":\"".to_vec();
        b.extend_from_slice(delta_bytes);
        b.extend_from_slice(b"\",\"logprobs\":[]}\n\n");
        b
    };
    let (body, must, what): (Vec<u8>, Vec<usize>, &str) = match d {
        0 => {
            // F13: "a" E2 82 "b" — a 3-byte sequence cut short by an ASCII byte
            let mut body = delta_event(b"a\xE2\x82b");
            body.extend_from_slice(b"data: [DONE]\n\n");
            let p = body.windows(2).position(|w| w == [0xE2, 0x82]).unwrap_or(1);
            (body, vec![p, p + 1, p + 2], "directed F13: truncated 3-byte sequence followed by ASCII inside a text delta")
        }
        _ => {
            // F14: a complete event after the terminal marker
            let mut body = delta_event(b"before");
            body.extend_from_slice(b"data: [DONE]\n\n");
            let p = body.len();
            body.extend_from_slice(&delta_event(b"AFTER"));
            (body, vec![p, p - 1, p + 10], "directed F14: one more event after `data: [DONE]`")
        }
    };
    let mut chunkings = vec![Chunking { label: "whole", sizes: vec![], pause_us: 0, reset_after: None }];
    for &p in &must {
        chunkings.push(Chunking::from_cuts("single_split", body.len(), &[p], 3000));
    }
    let _ = cfg;
    let deadline = Instant::now() + Duration::from_secs(30);
    // the network may coalesce: retry a few times until two partitions were really observed
    for attempt in 0..3 {
        match e.run_body(&body, &chunkings, deadline) {
            Ok((outs, log)) => {
                let info = BodyInfo { case: d, body: &body, what, inject_labels: vec![] };
                let multi = judge_body(r, e, &info, &outs, &log);
                if multi || attempt == 2 {
                    account_body(e, multi);
                    r.count("D_directed_cases_run", 1);
                    if !multi {
                        r.inconclusive(&format!("directed case {d}: chunkings were coalesced by the network in 3 attempts"));
                    }
                    break;
                }
            }
            Err(why) => {
                r.inconclusive(&format!("directed case {d}: {why}"));
                break;
            }
        }
    }
}
