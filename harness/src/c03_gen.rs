//! C03 (A): table-driven generator of `rip_kernel::Event`s — one builder per `EventKind` variant,
//! every leaf a unique token, the generator keeps the list of what it put into the frame.

use crate::prng::Rng;
use rip_kernel::{
    CheckpointAction, CompactionPlannedCutPoint, ContextSelectionCompactionCheckpointV1, ContextSelectionResetV1,
    Event, EventKind, ProviderEventStatus, ToolTaskExecutionMode, ToolTaskStatus, ToolTaskStream,
};
use serde_json::{json, Map, Number, Value};

pub const N_VARIANTS: usize = 38;

/// Exhaustive on purpose: a variant added to `EventKind` breaks the build here, and the table
/// below must then be extended.
pub fn variant_name(k: &EventKind) -> &'static str {
    match k {
        EventKind::SessionStarted { .. } => "session_started",
        EventKind::OutputTextDelta { .. } => "output_text_delta",
        EventKind::SessionEnded { .. } => "session_ended",
        EventKind::ContinuityCreated { .. } => "continuity_created",
        EventKind::ContinuityMessageAppended { .. } => "continuity_message_appended",
        EventKind::ContinuityRunSpawned { .. } => "continuity_run_spawned",
        EventKind::ContinuityContextSelectionDecided { .. } => "continuity_context_selection_decided",
        EventKind::ContinuityContextCompiled { .. } => "continuity_context_compiled",
        EventKind::ContinuityProviderCursorUpdated { .. } => "continuity_provider_cursor_updated",
        EventKind::ContinuityCompactionCheckpointCreated { .. } => "continuity_compaction_checkpoint_created",
        EventKind::ContinuityCompactionAutoScheduleDecided { .. } => "continuity_compaction_auto_schedule_decided",
        EventKind::ContinuityJobSpawned { .. } => "continuity_job_spawned",
        EventKind::ContinuityJobEnded { .. } => "continuity_job_ended",
        EventKind::ContinuityRunEnded { .. } => "continuity_run_ended",
        EventKind::ContinuityToolSideEffects { .. } => "continuity_tool_side_effects",
        EventKind::ContinuityBranched { .. } => "continuity_branched",
        EventKind::ContinuityHandoffCreated { .. } => "continuity_handoff_created",
        EventKind::ToolStarted { .. } => "tool_started",
        EventKind::ToolStdout { .. } => "tool_stdout",
        EventKind::ToolStderr { .. } => "tool_stderr",
        EventKind::ToolEnded { .. } => "tool_ended",
        EventKind::ToolFailed { .. } => "tool_failed",
        EventKind::OpenResponsesRequest { .. } => "openresponses_request",
        EventKind::OpenResponsesRequestStarted { .. } => "openresponses_request_started",
        EventKind::OpenResponsesResponseHeaders { .. } => "openresponses_response_headers",
        EventKind::OpenResponsesResponseFirstByte { .. } => "openresponses_response_first_byte",
        EventKind::ProviderEvent { .. } => "provider_event",
        EventKind::CheckpointCreated { .. } => "checkpoint_created",
        EventKind::CheckpointRewound { .. } => "checkpoint_rewound",
        EventKind::CheckpointFailed { .. } => "checkpoint_failed",
        EventKind::ToolTaskSpawned { .. } => "tool_task_spawned",
        EventKind::ToolTaskStatus { .. } => "tool_task_status",
        EventKind::ToolTaskCancelRequested { .. } => "tool_task_cancel_requested",
        EventKind::ToolTaskCancelled { .. } => "tool_task_cancelled",
        EventKind::ToolTaskOutputDelta { .. } => "tool_task_output_delta",
        EventKind::ToolTaskStdinWritten { .. } => "tool_task_stdin_written",
        EventKind::ToolTaskResized { .. } => "tool_task_resized",
        EventKind::ToolTaskSignalled { .. } => "tool_task_signalled",
    }
}

/// Stream kind per frame type as documented in event_frames.md (independent of `Event::stream_kind`).
pub fn documented_stream_kind(type_name: &str) -> &'static str {
    if type_name.starts_with("continuity_") {
        "continuity"
    } else if type_name.starts_with("tool_task_") {
        "task"
    } else {
        "session"
    }
}

#[derive(Clone, Copy, Debug, PartialEq, Eq)]
pub enum Flavor {
    /// everything optional absent, collections empty, short ascii
    Minimal,
    /// everything present, short ascii
    Full,
    /// random presence, awkward unicode
    Unicode,
    /// random presence, one 64 KiB string
    Large,
    /// random presence, nested JSON with extremes in every Value field
    NestedExtreme,
    /// random everything
    Mixed,
    /// Option<Value> fields hold Some(null) where possible
    SomeNull,
    /// empty strings / empty collections / zero numbers everywhere
    Empty,
}

pub const FLAVORS: &[Flavor] = &[
    Flavor::Minimal,
    Flavor::Full,
    Flavor::Unicode,
    Flavor::Large,
    Flavor::NestedExtreme,
    Flavor::Mixed,
    Flavor::SomeNull,
    Flavor::Empty,
];

pub struct Gen {
    pub rng: Rng,
    pub flavor: Flavor,
    n: u64,
    salt: String,
    /// ascii cores that must be findable in the wire and in the Debug of the re-read frame
    pub tokens: Vec<String>,
    /// full strings that must occur as exact string leaves of the wire value
    pub strings: Vec<String>,
    /// unique numbers that must occur as number leaves of the wire value
    pub numbers: Vec<Number>,
    pub shape: String,
    pub used_some_null: bool,
    large_left: u32,
    pub max_depth: usize,
}

impl Gen {
    pub fn new(seed: u64, flavor: Flavor) -> Gen {
        let mut rng = Rng::new(seed);
        let salt = rng.ident(4);
        Gen {
            rng,
            flavor,
            n: 0,
            salt,
            tokens: Vec::new(),
            strings: Vec::new(),
            numbers: Vec::new(),
            shape: String::new(),
            used_some_null: false,
            large_left: 1,
            max_depth: 0,
        }
    }

    fn core(&mut self) -> String {
        self.n += 1;
        format!("tk{}q{}z", self.salt, self.n)
    }

    fn present(&mut self) -> bool {
        let p = match self.flavor {
            Flavor::Minimal | Flavor::Empty => false,
            Flavor::Full | Flavor::SomeNull => true,
            _ => self.rng.bool(),
        };
        self.shape.push(if p { '1' } else { '0' });
        p
    }

    /// A unique string leaf.
    pub fn s(&mut self) -> String {
        if self.flavor == Flavor::Empty {
            self.shape.push_str("e,");
            return String::new();
        }
        let core = self.core();
        let class = match self.flavor {
            Flavor::Minimal | Flavor::Full | Flavor::SomeNull => 0,
            Flavor::Unicode => 1 + self.rng.below(3),
            Flavor::Large => {
                if self.large_left > 0 && self.rng.chance(1, 3) {
                    self.large_left -= 1;
                    4
                } else {
                    0
                }
            }
            Flavor::NestedExtreme => self.rng.below(2),
            Flavor::Mixed => {
                let c = self.rng.below(6);
                if c == 4 {
                    if self.large_left > 0 {
                        self.large_left -= 1;
                        4
                    } else {
                        5
                    }
                } else {
                    c
                }
            }
            Flavor::Empty => 0,
        };
        let s = match class {
            0 => core.clone(),
            1 => format!("é🙂{core}\u{2028}𝄞中"),
            2 => {
                let a = self.rng.unicode(6);
                let b = self.rng.unicode(6);
                format!("{a}{core}{b}")
            }
            3 => format!("\"\\\n\r\t\u{0}\u{1f}\u{7f}{core}\u{2029}\u{feff}\u{fffd}\u{10ffff}e\u{301}"),
            4 => {
                // 64 KiB, multi-byte characters straddling the 8 KiB writer buffer boundaries
                let mut s = String::with_capacity(70_000);
                s.push_str(&core);
                while s.len() < 65_536 {
                    s.push_str("0123456789abcde→🙂");
                }
                s.push_str(&core);
                s
            }
            _ => format!(" {core} "),
        };
        self.shape.push_str(&format!("s{class},"));
        self.tokens.push(core);
        self.strings.push(s.clone());
        s
    }

    pub fn opt_s(&mut self) -> Option<String> {
        if self.present() {
            Some(self.s())
        } else {
            None
        }
    }

    pub fn vec_s(&mut self) -> Vec<String> {
        let n = match self.flavor {
            Flavor::Minimal | Flavor::Empty => 0,
            Flavor::Full | Flavor::SomeNull => 2,
            _ => self.rng.usize(4),
        };
        self.shape.push_str(&format!("v{n},"));
        (0..n).map(|_| self.s()).collect()
    }

    pub fn opt_vec_s(&mut self) -> Option<Vec<String>> {
        if self.present() {
            Some(self.vec_s())
        } else {
            None
        }
    }

    pub fn u(&mut self) -> u64 {
        if self.flavor == Flavor::Empty {
            return 0;
        }
        let x = match self.flavor {
            Flavor::NestedExtreme | Flavor::Mixed => self.rng.below(6),
            _ => 5,
        };
        match x {
            0 => 0,
            1 => u64::MAX,
            2 => i64::MAX as u64 + 1,
            _ => {
                self.n += 1;
                let v = 1_000_000_000_000 + self.n * 7919 + self.rng.below(7919);
                self.numbers.push(Number::from(v));
                v
            }
        }
    }

    pub fn opt_u(&mut self) -> Option<u64> {
        if self.present() {
            Some(self.u())
        } else {
            None
        }
    }

    pub fn u16(&mut self) -> u16 {
        match self.flavor {
            Flavor::Empty => 0,
            Flavor::NestedExtreme => *self.rng.pick(&[0u16, 1, u16::MAX]),
            _ => {
                let v = 1 + self.rng.below(65_000) as u16;
                self.numbers.push(Number::from(v));
                v
            }
        }
    }

    pub fn u32(&mut self) -> u32 {
        match self.flavor {
            Flavor::Empty => 0,
            Flavor::NestedExtreme => *self.rng.pick(&[0u32, 1, u32::MAX]),
            _ => {
                let v = 100_000 + self.rng.below(4_000_000_000) as u32;
                self.numbers.push(Number::from(v));
                v
            }
        }
    }

    pub fn i32(&mut self) -> i32 {
        match self.flavor {
            Flavor::Empty => 0,
            Flavor::NestedExtreme => *self.rng.pick(&[0i32, -1, i32::MIN, i32::MAX]),
            _ => {
                let v = -(100_000 + self.rng.below(2_000_000_000) as i32);
                self.numbers.push(Number::from(v));
                v
            }
        }
    }

    pub fn opt_i32(&mut self) -> Option<i32> {
        if self.present() {
            Some(self.i32())
        } else {
            None
        }
    }

    pub fn b(&mut self) -> bool {
        let v = match self.flavor {
            Flavor::Empty | Flavor::Minimal => false,
            Flavor::Full => true,
            _ => self.rng.bool(),
        };
        self.shape.push(if v { 't' } else { 'f' });
        v
    }

    /// A float that survives text round trips exactly (k/8 with a small integer part).
    fn f(&mut self) -> Value {
        self.n += 1;
        let v = (self.n as f64) * 1024.0 + (self.rng.below(8) as f64) / 8.0 + 0.125;
        let v = if self.rng.bool() { -v } else { v };
        let num = Number::from_f64(v).expect("finite");
        self.numbers.push(num.clone());
        Value::Number(num)
    }

    fn leaf(&mut self) -> Value {
        match self.rng.below(10) {
            0 => Value::Null,
            1 => Value::Bool(self.rng.bool()),
            2 => json!(u64::MAX),
            3 => json!(i64::MIN),
            4 => {
                self.n += 1;
                let v = -((self.n as i64) * 104_729 + 1_000_000_000_000);
                self.numbers.push(Number::from(v));
                json!(v)
            }
            5 => self.f(),
            6 => json!(self.u()),
            7 => Value::String(String::new()),
            _ => Value::String(self.s()),
        }
    }

    fn nested(&mut self, depth: usize) -> Value {
        if depth == 0 {
            return self.leaf();
        }
        match self.rng.below(6) {
            0 | 1 => {
                let n = self.rng.usize(4);
                let mut m = Map::new();
                for _ in 0..n {
                    let k = if self.rng.chance(1, 5) {
                        // keys that look like envelope / tag keys, nested: must stay where they are
                        self.rng.pick(&["type", "id", "seq", "session_id", "stream_kind", "stream_id", "timestamp_ms", ""]).to_string()
                    } else {
                        self.s()
                    };
                    if m.contains_key(&k) {
                        continue; // a second value under the same key would drop the first one's tokens here, in the generator
                    }
                    let v = self.nested(depth - 1);
                    m.insert(k, v);
                }
                Value::Object(m)
            }
            2 | 3 => {
                let n = self.rng.usize(4);
                Value::Array((0..n).map(|_| self.nested(depth - 1)).collect())
            }
            _ => self.leaf(),
        }
    }

    /// A straight chain of `depth` containers around one token.
    fn chain(&mut self, depth: usize) -> Value {
        let mut v = Value::String(self.s());
        for i in 0..depth {
            v = if i % 2 == 0 { Value::Array(vec![v]) } else { json!({ "k": v }) };
        }
        v
    }

    /// A `serde_json::Value` field.
    pub fn v(&mut self) -> Value {
        let class = match self.flavor {
            Flavor::Empty => {
                self.shape.push_str("j-empty,");
                return self.rng.pick(&[json!({}), json!([]), json!(""), Value::Null]).clone();
            }
            Flavor::Minimal => 0,
            Flavor::Full | Flavor::SomeNull | Flavor::Large | Flavor::Unicode => 1,
            Flavor::NestedExtreme => 2 + self.rng.below(4),
            Flavor::Mixed => self.rng.below(7),
        };
        self.shape.push_str(&format!("j{class},"));
        match class {
            0 => json!({}),
            1 => {
                let a = self.s();
                let b = self.s();
                json!({ a: b, "n": self.u(), "list": [self.s(), null, true] })
            }
            2 => self.nested(4),
            3 => {
                let d = 20 + self.rng.usize(70);
                self.max_depth = self.max_depth.max(d);
                self.chain(d)
            }
            4 => Value::Array((0..5).map(|_| self.leaf()).collect()),
            5 => self.leaf(),
            _ => self.nested(2),
        }
    }

    pub fn opt_v(&mut self) -> Option<Value> {
        if self.flavor == Flavor::SomeNull {
            self.used_some_null = true;
            self.shape.push_str("N,");
            return Some(Value::Null);
        }
        if self.present() {
            let v = self.v();
            if v.is_null() {
                // Some(null) and None are the same wire value for an Option<Value>
                self.used_some_null = true;
            }
            Some(v)
        } else {
            None
        }
    }

    fn ckpt(&mut self) -> ContextSelectionCompactionCheckpointV1 {
        ContextSelectionCompactionCheckpointV1 {
            checkpoint_id: self.s(),
            summary_kind: self.s(),
            summary_artifact_id: self.s(),
            to_seq: self.u(),
        }
    }

    pub fn kind(&mut self, i: usize) -> EventKind {
        match i % N_VARIANTS {
            0 => EventKind::SessionStarted { input: self.s() },
            1 => EventKind::OutputTextDelta { delta: self.s() },
            2 => EventKind::SessionEnded { reason: self.s() },
            3 => EventKind::ContinuityCreated { workspace: self.s(), title: self.opt_s() },
            4 => EventKind::ContinuityMessageAppended { actor_id: self.s(), origin: self.s(), content: self.s() },
            5 => EventKind::ContinuityRunSpawned { run_session_id: self.s(), message_id: self.s(), actor_id: self.opt_s(), origin: self.opt_s() },
            6 => {
                let n_ck = match self.flavor {
                    Flavor::Minimal | Flavor::Empty => 0,
                    Flavor::Full | Flavor::SomeNull => 2,
                    _ => self.rng.usize(3),
                };
                let n_rs = match self.flavor {
                    Flavor::Minimal | Flavor::Empty => 0,
                    Flavor::Full | Flavor::SomeNull => 2,
                    _ => self.rng.usize(3),
                };
                self.shape.push_str(&format!("c{n_ck}r{n_rs},"));
                EventKind::ContinuityContextSelectionDecided {
                    run_session_id: self.s(),
                    message_id: self.s(),
                    compiler_id: self.s(),
                    compiler_strategy: self.s(),
                    limits: self.v(),
                    compaction_checkpoint: if self.present() { Some(self.ckpt()) } else { None },
                    compaction_checkpoints: (0..n_ck).map(|_| self.ckpt()).collect(),
                    resets: (0..n_rs)
                        .map(|_| ContextSelectionResetV1 { input: self.s(), action: self.s(), reason: self.s(), ref_: self.opt_v() })
                        .collect(),
                    reason: self.opt_v(),
                    actor_id: self.s(),
                    origin: self.s(),
                }
            }
            7 => EventKind::ContinuityContextCompiled {
                run_session_id: self.s(),
                bundle_artifact_id: self.s(),
                compiler_id: self.s(),
                compiler_strategy: self.s(),
                from_seq: self.u(),
                from_message_id: self.opt_s(),
                actor_id: self.s(),
                origin: self.s(),
            },
            8 => EventKind::ContinuityProviderCursorUpdated {
                provider: self.s(),
                endpoint: self.opt_s(),
                model: self.opt_s(),
                cursor: self.opt_v(),
                action: self.s(),
                reason: self.opt_s(),
                run_session_id: self.opt_s(),
                actor_id: self.s(),
                origin: self.s(),
            },
            9 => EventKind::ContinuityCompactionCheckpointCreated {
                checkpoint_id: self.s(),
                cut_rule_id: self.s(),
                summary_kind: self.s(),
                summary_artifact_id: self.s(),
                from_seq: self.u(),
                from_message_id: self.opt_s(),
                to_seq: self.u(),
                to_message_id: self.opt_s(),
                actor_id: self.s(),
                origin: self.s(),
            },
            10 => {
                let n = match self.flavor {
                    Flavor::Minimal | Flavor::Empty => 0,
                    Flavor::Full | Flavor::SomeNull => 2,
                    _ => self.rng.usize(4),
                };
                self.shape.push_str(&format!("p{n},"));
                EventKind::ContinuityCompactionAutoScheduleDecided {
                    decision_id: self.s(),
                    policy_id: self.s(),
                    decision: self.s(),
                    execute: self.b(),
                    stride_messages: self.u(),
                    max_new_checkpoints: self.u32(),
                    block_on_inflight: self.b(),
                    message_count: self.u(),
                    cut_rule_id: self.s(),
                    planned: (0..n)
                        .map(|_| CompactionPlannedCutPoint { target_message_ordinal: self.u(), to_seq: self.u(), to_message_id: self.s() })
                        .collect(),
                    job_id: self.opt_s(),
                    job_kind: self.opt_s(),
                    reason: self.opt_v(),
                    actor_id: self.s(),
                    origin: self.s(),
                }
            }
            11 => EventKind::ContinuityJobSpawned { job_id: self.s(), job_kind: self.s(), details: self.opt_v(), actor_id: self.s(), origin: self.s() },
            12 => EventKind::ContinuityJobEnded {
                job_id: self.s(),
                job_kind: self.s(),
                status: self.s(),
                result: self.opt_v(),
                error: self.opt_s(),
                actor_id: self.s(),
                origin: self.s(),
            },
            13 => EventKind::ContinuityRunEnded { run_session_id: self.s(), message_id: self.s(), reason: self.s(), actor_id: self.opt_s(), origin: self.opt_s() },
            14 => EventKind::ContinuityToolSideEffects {
                run_session_id: self.s(),
                tool_id: self.s(),
                tool_name: self.s(),
                affected_paths: self.opt_vec_s(),
                checkpoint_id: self.opt_s(),
                actor_id: self.s(),
                origin: self.s(),
            },
            15 => EventKind::ContinuityBranched { parent_thread_id: self.s(), parent_seq: self.u(), parent_message_id: self.opt_s(), actor_id: self.s(), origin: self.s() },
            16 => EventKind::ContinuityHandoffCreated {
                from_thread_id: self.s(),
                from_seq: self.u(),
                from_message_id: self.opt_s(),
                summary_artifact_id: self.opt_s(),
                summary_markdown: self.opt_s(),
                actor_id: self.s(),
                origin: self.s(),
            },
            17 => EventKind::ToolStarted { tool_id: self.s(), name: self.s(), args: self.v(), timeout_ms: self.opt_u() },
            18 => EventKind::ToolStdout { tool_id: self.s(), chunk: self.s() },
            19 => EventKind::ToolStderr { tool_id: self.s(), chunk: self.s() },
            20 => EventKind::ToolEnded { tool_id: self.s(), exit_code: self.i32(), duration_ms: self.u(), artifacts: self.opt_v() },
            21 => EventKind::ToolFailed { tool_id: self.s(), error: self.s() },
            22 => EventKind::OpenResponsesRequest {
                endpoint: self.s(),
                model: self.opt_s(),
                request_index: self.u(),
                kind: self.s(),
                body_artifact_id: self.s(),
                body_bytes: self.u(),
                total_bytes: self.u(),
                truncated: self.b(),
            },
            23 => EventKind::OpenResponsesRequestStarted { endpoint: self.s(), model: self.opt_s(), request_index: self.u(), kind: self.s() },
            24 => EventKind::OpenResponsesResponseHeaders { request_index: self.u(), status: self.u16(), request_id: self.opt_s(), content_type: self.opt_s() },
            25 => EventKind::OpenResponsesResponseFirstByte { request_index: self.u() },
            26 => EventKind::ProviderEvent {
                provider: self.s(),
                status: self.rng.pick(&[ProviderEventStatus::Event, ProviderEventStatus::Done, ProviderEventStatus::InvalidJson]).clone(),
                event_name: self.opt_s(),
                data: self.opt_v(),
                raw: self.opt_s(),
                errors: self.vec_s(),
                response_errors: self.vec_s(),
            },
            27 => EventKind::CheckpointCreated { checkpoint_id: self.s(), label: self.s(), created_at_ms: self.u(), files: self.vec_s(), auto: self.b(), tool_name: self.opt_s() },
            28 => EventKind::CheckpointRewound { checkpoint_id: self.s(), label: self.s(), files: self.vec_s() },
            29 => EventKind::CheckpointFailed { action: if self.b() { CheckpointAction::Create } else { CheckpointAction::Rewind }, error: self.s() },
            30 => EventKind::ToolTaskSpawned {
                task_id: self.s(),
                tool_name: self.s(),
                args: self.v(),
                cwd: self.opt_s(),
                title: self.opt_s(),
                execution_mode: if self.b() { ToolTaskExecutionMode::Pty } else { ToolTaskExecutionMode::Pipes },
                origin_session_id: self.opt_s(),
                artifacts: self.opt_v(),
            },
            31 => EventKind::ToolTaskStatus {
                task_id: self.s(),
                status: *self.rng.pick(&[ToolTaskStatus::Queued, ToolTaskStatus::Running, ToolTaskStatus::Exited, ToolTaskStatus::Cancelled, ToolTaskStatus::Failed]),
                exit_code: self.opt_i32(),
                started_at_ms: self.opt_u(),
                ended_at_ms: self.opt_u(),
                artifacts: self.opt_v(),
                error: self.opt_s(),
            },
            32 => EventKind::ToolTaskCancelRequested { task_id: self.s(), reason: self.s() },
            33 => EventKind::ToolTaskCancelled { task_id: self.s(), reason: self.s(), wall_time_ms: self.opt_u() },
            34 => EventKind::ToolTaskOutputDelta {
                task_id: self.s(),
                stream: *self.rng.pick(&[ToolTaskStream::Stdout, ToolTaskStream::Stderr, ToolTaskStream::Pty]),
                chunk: self.s(),
                artifacts: self.opt_v(),
            },
            35 => EventKind::ToolTaskStdinWritten { task_id: self.s(), chunk_b64: self.s() },
            36 => EventKind::ToolTaskResized { task_id: self.s(), rows: self.u16(), cols: self.u16() },
            _ => EventKind::ToolTaskSignalled { task_id: self.s(), signal: self.s() },
        }
    }

    pub fn event(&mut self, i: usize) -> Event {
        let kind = self.kind(i);
        // envelope: ids are strings like any other; "Empty" keeps them non-empty so streams stay addressable
        let keep = self.flavor;
        if self.flavor == Flavor::Empty {
            self.flavor = Flavor::Minimal;
        }
        let id = self.s();
        let session_id = self.s();
        self.flavor = keep;
        Event { id, session_id, timestamp_ms: self.u(), seq: self.u(), kind }
    }
}
