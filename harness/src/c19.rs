//! C19 — secrets never reach frames, artifacts, caches, logs or diagnostics.
//!
//! Black box on the real binary. Every configuration is a fresh `rip serve` with its own
//! `RIP_CONFIG_HOME`, data dir and workspace, talking to a scripted provider that records request
//! headers (so the monitor can prove the secret really was in use). A unique canary per supply
//! path; after the run every byte the authority produced — data dir, workspace, every HTTP/SSE
//! response, its stdout/stderr, the CLI's output — is searched for the canary in raw, JSON-escaped,
//! percent-encoded, hex and base64 (all three alignments) form.

use crate::c18::{http_exchange, http_json, kill_pid, rip_bin, HttpResp, Proc};
use crate::fixture::scratch_root;
use crate::prng::Rng;
use crate::provider::{
    ev_args_delta, ev_args_done, ev_completed, ev_created, ev_item_added, ev_item_done, ev_text_delta,
    function_call_item, sse_done, sse_event, Provider, Recorded, Reply, Script,
};
use crate::report::{Cfg, Report};
use serde_json::{json, Value};
use std::collections::BTreeMap;
use std::path::{Path, PathBuf};
use std::process::Command;
use std::sync::atomic::{AtomicU64, Ordering};
use std::sync::{mpsc, Arc, Mutex};
use std::time::{Duration, Instant};

#[derive(Clone, Copy, Debug, PartialEq, Eq)]
enum Supply {
    GlobalInline,
    GlobalJsoncInline,
    CustomInline,
    ProjectJsonInline,
    ProjectJsoncInline,
    GlobalEnvIndirect,
    EnvRipKey,
    EnvOpenAi,
    EnvOpenRouter,
    HeadersSecret,
    RolesObject,
    EndpointMatch,
    LayeredOverride,
    InvalidGlobalPlusEnv,
}

const SUPPLIES: &[Supply] = &[
    Supply::GlobalInline,
    Supply::GlobalJsoncInline,
    Supply::CustomInline,
    Supply::ProjectJsonInline,
    Supply::ProjectJsoncInline,
    Supply::GlobalEnvIndirect,
    Supply::EnvRipKey,
    Supply::EnvOpenAi,
    Supply::EnvOpenRouter,
    Supply::HeadersSecret,
    Supply::RolesObject,
    Supply::EndpointMatch,
    Supply::LayeredOverride,
    Supply::InvalidGlobalPlusEnv,
];

impl Supply {
    fn name(&self) -> &'static str {
        match self {
            Supply::GlobalInline => "global_config_json_inline",
            Supply::GlobalJsoncInline => "global_config_jsonc_inline",
            Supply::CustomInline => "RIP_CONFIG_file_inline",
            Supply::ProjectJsonInline => "project_rip_json_inline",
            Supply::ProjectJsoncInline => "project_rip_jsonc_inline",
            Supply::GlobalEnvIndirect => "global_config_env_indirection",
            Supply::EnvRipKey => "env_RIP_OPENRESPONSES_API_KEY",
            Supply::EnvOpenAi => "env_OPENAI_API_KEY_by_endpoint_heuristic",
            Supply::EnvOpenRouter => "env_OPENROUTER_API_KEY_by_endpoint_heuristic",
            Supply::HeadersSecret => "provider_headers_secret_value",
            Supply::RolesObject => "roles_primary_object_route",
            Supply::EndpointMatch => "provider_matched_by_request_endpoint",
            Supply::LayeredOverride => "project_overrides_global_key",
            Supply::InvalidGlobalPlusEnv => "invalid_global_config_plus_env_key",
        }
    }
}

#[derive(Clone, Copy, Debug, PartialEq, Eq)]
enum Outcome {
    SuccessTool,
    ToolFailure,
    Http401Echo,
    Http500Echo,
    Reset,
    Refused,
    InvalidRequest,
}

const OUTCOMES: &[Outcome] = &[
    Outcome::SuccessTool,
    Outcome::Http401Echo,
    Outcome::Refused,
    Outcome::ToolFailure,
    Outcome::Http500Echo,
    Outcome::Reset,
    Outcome::InvalidRequest,
];

impl Outcome {
    fn name(&self) -> &'static str {
        match self {
            Outcome::SuccessTool => "success_with_tool_call",
            Outcome::ToolFailure => "tool_failure",
            Outcome::Http401Echo => "http_401_echoing_request_body",
            Outcome::Http500Echo => "http_500_echoing_request_body",
            Outcome::Reset => "connection_reset_mid_stream",
            Outcome::Refused => "connection_refused",
            Outcome::InvalidRequest => "invalid_followup_request",
        }
    }
}

#[derive(Clone, Copy, Debug, PartialEq, Eq)]
enum Dump {
    Off,
    On,
    OnTiny,
}

#[derive(Clone, Debug)]
struct Spec {
    idx: u64,
    supply: Supply,
    outcome: Outcome,
    dump: Dump,
    overrides: u8, // 0 none, 1 model+flags, 2 followup message + stateless
    session_entry: bool,
    cli_run: bool,
    cli_local: bool,
    /// informational extra: the provider's 401 body quotes the Authorization header it received
    echo_auth: bool,
    /// no authority is started by the monitor: `rip run --provider …` starts its own and hands the key over
    cli_spawn: bool,
    seed: u64,
}

impl Spec {
    fn shape(&self) -> String {
        if self.cli_spawn {
            return format!("cli_provider_flag_spawns_authority|dns_failure|dump={:?}", self.dump);
        }
        format!(
            "{}|{}|dump={:?}|ovr={}|{}|cli_run={}|cli_local={}",
            self.supply.name(),
            self.outcome.name(),
            self.dump,
            self.overrides,
            if self.session_entry { "session" } else { "thread" },
            self.cli_run,
            self.cli_local
        )
    }
}

// ---------------------------------------------------------------------------------------------
// canaries and the scanner

#[derive(Clone, Debug)]
struct Canary {
    label: &'static str,
    value: String,
    needles: Vec<(&'static str, Vec<u8>)>,
}

const B64_STD: &[u8; 64] = b"ABCDEFGHIJKLMNOPQRSTUVWXYZabcdefghijklmnopqrstuvwxyz0123456789+/";
const B64_URL: &[u8; 64] = b"ABCDEFGHIJKLMNOPQRSTUVWXYZabcdefghijklmnopqrstuvwxyz0123456789-_";

fn b64(bytes: &[u8], table: &[u8; 64]) -> String {
    let mut out = String::new();
    let mut i = 0;
    while i + 3 <= bytes.len() {
        let n = ((bytes[i] as u32) << 16) | ((bytes[i + 1] as u32) << 8) | bytes[i + 2] as u32;
        for s in [18, 12, 6, 0] {
            out.push(table[((n >> s) & 63) as usize] as char);
        }
        i += 3;
    }
    match bytes.len() - i {
        1 => {
            let n = (bytes[i] as u32) << 16;
            out.push(table[((n >> 18) & 63) as usize] as char);
            out.push(table[((n >> 12) & 63) as usize] as char);
        }
        2 => {
            let n = ((bytes[i] as u32) << 16) | ((bytes[i + 1] as u32) << 8);
            out.push(table[((n >> 18) & 63) as usize] as char);
            out.push(table[((n >> 12) & 63) as usize] as char);
            out.push(table[((n >> 6) & 63) as usize] as char);
        }
        _ => {}
    }
    out
}

fn percent_encode(s: &str, upper: bool) -> String {
    let mut out = String::new();
    for b in s.bytes() {
        if b.is_ascii_alphanumeric() || matches!(b, b'-' | b'_' | b'.' | b'~') {
            out.push(b as char);
        } else if upper {
            out.push_str(&format!("%{b:02X}"));
        } else {
            out.push_str(&format!("%{b:02x}"));
        }
    }
    out
}

impl Canary {
    /// `rvK-<label>-<16 hex>+/=<8 hex>"q\`: the tail makes JSON-escaping and percent-encoding visible
    fn new(label: &'static str, rng: &mut Rng, awkward: bool) -> Canary {
        // real keys come in shapes that code may treat differently: vendor prefixes, all-capital tokens that look
        // like environment-variable names, ids
        let shape = if awkward { 0 } else { rng.below(6) };
        let mut core = rng.hex(16);
        let mut tail = rng.hex(12);
        let value = match shape {
            0 if awkward => format!("rvK-{label}-{core}+/={tail}\"q\\z"),
            0 | 1 => format!("rvK-{label}-{core}+/={tail}"),
            2 => {
                core = core.to_uppercase();
                tail = tail.to_uppercase();
                format!("RVK_{}_{core}_{tail}", label.to_uppercase())
            }
            3 => format!("sk-proj-{label}{core}T3BlbkFJ{tail}"),
            // short keys (local gateways, dev tokens): 7 or 8 characters in all
            5 => {
                let n = if rng.bool() { 4 } else { 5 };
                let v = format!("sk-{}", rng.hex(n));
                core = v.clone();
                tail = v.clone();
                v
            }
            _ => {
                core = core.to_uppercase();
                tail = tail.to_uppercase();
                format!("AKIA{core}{tail}")
            }
        };
        let mut needles: Vec<(&'static str, Vec<u8>)> = Vec::new();
        needles.push(("raw", value.as_bytes().to_vec()));
        needles.push(("core", core.as_bytes().to_vec()));
        needles.push(("tail", if value.contains('=') { format!("={tail}").into_bytes() } else { tail.clone().into_bytes() }));
        let esc = serde_json::to_string(&value).unwrap_or_default();
        let esc = esc.trim_matches('"').to_string();
        if esc != value {
            needles.push(("json_escaped", esc.clone().into_bytes()));
            // escaped twice (a JSON string inside a JSON string)
            let esc2 = serde_json::to_string(&esc).unwrap_or_default();
            needles.push(("json_escaped_twice", esc2.trim_matches('"').as_bytes().to_vec()));
        }
        for upper in [true, false] {
            let p = percent_encode(&value, upper);
            if p != value {
                needles.push(("percent_encoded", p.into_bytes()));
            }
        }
        needles.push(("hex", hex::encode(value.as_bytes()).into_bytes()));
        needles.push(("hex_upper", hex::encode_upper(value.as_bytes()).into_bytes()));
        needles.push(("hex_of_core", hex::encode(core.as_bytes()).into_bytes()));
        // base64 at the three alignments: drop the characters that depend on neighbouring bytes
        for (kind, table) in [("base64", B64_STD), ("base64url", B64_URL)] {
            for shift in 0..3usize {
                let mut padded = vec![0u8; shift];
                padded.extend_from_slice(value.as_bytes());
                let enc = b64(&padded, table);
                let skip = if shift == 0 { 0 } else { 4 };
                let usable = enc.len() - (enc.len() % 4);
                let end = usable.saturating_sub(4).max(skip);
                let corepart = &enc[skip..end.max(skip)];
                if corepart.len() >= 16 {
                    needles.push((kind, corepart.as_bytes().to_vec()));
                }
            }
        }
        Canary { label, value, needles }
    }
}

fn find(hay: &[u8], needle: &[u8]) -> Option<usize> {
    if needle.is_empty() || hay.len() < needle.len() {
        return None;
    }
    let first = needle[0];
    let last = hay.len() - needle.len();
    let mut i = 0;
    while i <= last {
        match hay[i..=last].iter().position(|b| *b == first) {
            None => return None,
            Some(p) => {
                i += p;
                if &hay[i..i + needle.len()] == needle {
                    return Some(i);
                }
                i += 1;
            }
        }
    }
    None
}

#[derive(Clone, Debug)]
struct Leak {
    sink: String,
    canary: &'static str,
    encoding: &'static str,
    excerpt: String,
}

struct Scanner<'a> {
    canaries: &'a [Canary],
    leaks: Vec<Leak>,
    bytes: u64,
    items: u64,
}

impl<'a> Scanner<'a> {
    fn scan(&mut self, sink: &str, hay: &[u8]) {
        self.bytes += hay.len() as u64;
        self.items += 1;
        for c in self.canaries {
            for (enc, n) in &c.needles {
                if let Some(pos) = find(hay, n) {
                    let a = pos.saturating_sub(60);
                    let b = (pos + n.len() + 30).min(hay.len());
                    // do not quote the secret itself in evidence
                    let mut ex = String::from_utf8_lossy(&hay[a..pos]).to_string();
                    ex.push_str("«CANARY»");
                    ex.push_str(&String::from_utf8_lossy(&hay[pos + n.len()..b]));
                    self.leaks.push(Leak { sink: sink.to_string(), canary: c.label, encoding: enc, excerpt: ex });
                    break; // one hit per canary and sink is enough
                }
            }
            // diagnostics may say that a secret is present and where it came from, nothing of the secret itself: a
            // "masked" rendering that keeps the head and the tail of the value is looked for in the (small) doctor
            // answers only, where both ends occurring together cannot be chance
            if sink.contains("doctor") && c.value.len() >= 16 && c.value.is_char_boundary(4) && c.value.is_char_boundary(c.value.len() - 4) {
                let head = &c.value.as_bytes()[..4];
                let tail = &c.value.as_bytes()[c.value.len() - 4..];
                if let (Some(ph), Some(pt)) = (find(hay, head), find(hay, tail)) {
                    if !self.leaks.iter().any(|l| l.sink == sink && l.canary == c.label) {
                        let a = ph.min(pt).saturating_sub(40);
                        let ex = format!("{}«HEAD/TAIL OF CANARY»", String::from_utf8_lossy(&hay[a..ph.min(pt)]));
                        self.leaks.push(Leak { sink: sink.to_string(), canary: c.label, encoding: "head_and_tail_of_the_value", excerpt: ex });
                    }
                }
            }
        }
    }
}

/// file path -> sink class (random ids replaced)
fn sink_class(rel: &str) -> String {
    let mut out = Vec::new();
    for seg in rel.split('/') {
        let stem = seg.split('.').next().unwrap_or(seg);
        let idlike = stem.len() >= 16 && stem.chars().all(|c| c.is_ascii_hexdigit() || c == '-');
        if idlike {
            out.push(seg.replacen(stem, "*", 1));
        } else {
            out.push(seg.to_string());
        }
    }
    out.join("/")
}

fn walk(root: &Path, f: &mut dyn FnMut(&Path)) {
    let Ok(rd) = std::fs::read_dir(root) else {
        return;
    };
    for e in rd.flatten() {
        let p = e.path();
        match std::fs::symlink_metadata(&p) {
            Ok(md) if md.is_dir() => walk(&p, f),
            Ok(md) if md.is_file() => f(&p),
            _ => {}
        }
    }
}

// ---------------------------------------------------------------------------------------------
// provider scripts

fn sse_tool_call(call_id: &str, name: &str, args: &str) -> Vec<u8> {
    let item_id = "fc_rv1";
    let item_in = function_call_item(Some(item_id), call_id, name, "", "in_progress");
    let item_done = function_call_item(Some(item_id), call_id, name, args, "completed");
    let mut s = String::new();
    s.push_str(&sse_event(&ev_created(0, "resp_rv1")));
    s.push_str(&sse_event(&ev_item_added(1, 0, item_in)));
    s.push_str(&sse_event(&ev_args_delta(2, item_id, 0, args)));
    s.push_str(&sse_event(&ev_args_done(3, item_id, 0, args)));
    s.push_str(&sse_event(&ev_item_done(4, 0, item_done.clone())));
    s.push_str(&sse_event(&ev_completed(5, "resp_rv1", json!([item_done]))));
    s.push_str(&sse_done());
    s.into_bytes()
}

fn sse_text(text: &str) -> Vec<u8> {
    let mut s = String::new();
    s.push_str(&sse_event(&ev_created(0, "resp_rv2")));
    s.push_str(&sse_event(&ev_text_delta(1, "msg_rv1", text)));
    s.push_str(&sse_event(&ev_completed(2, "resp_rv2", json!([]))));
    s.push_str(&sse_done());
    s.into_bytes()
}

fn provider_script(outcome: Outcome, echo_auth: bool) -> Script {
    Arc::new(move |rec: &Recorded| {
        if echo_auth {
            let auth = rec.header("authorization").unwrap_or("").to_string();
            let body = json!({"error": {"message": format!("Incorrect API key provided: {auth}"), "type": "invalid_request_error"}});
            return Reply::status(401, serde_json::to_vec(&body).unwrap_or_default());
        }
        let first = rec.index % 2 == 0;
        match outcome {
            Outcome::SuccessTool => {
                if first {
                    Reply::sse(sse_tool_call("call_rv_ok", "write", r#"{"path":"out.txt","content":"hello from the tool"}"#))
                } else {
                    Reply::sse(sse_text("all done"))
                }
            }
            Outcome::ToolFailure => {
                if first {
                    Reply::sse(sse_tool_call("call_rv_fail", "read", r#"{"path":"no/such/file.txt"}"#))
                } else {
                    Reply::sse(sse_text("the tool failed"))
                }
            }
            Outcome::InvalidRequest => {
                if first {
                    // a call id longer than the 64 characters the request schema allows makes the
                    // follow-up request invalid
                    let long_id = format!("call_{}", "x".repeat(100));
                    Reply::sse(sse_tool_call(&long_id, "write", r#"{"path":"out2.txt","content":"x"}"#))
                } else {
                    Reply::sse(sse_text("unexpected"))
                }
            }
            Outcome::Http401Echo => {
                let mut r = Reply::status(401, br#"{"error":{"message":"Incorrect API key provided","type":"invalid_request_error"},"your_request":"#.to_vec());
                r.echo_request = true;
                r
            }
            Outcome::Http500Echo => {
                let mut r = Reply::status(500, b"internal error while processing request: ".to_vec());
                r.content_type = "text/plain".to_string();
                r.echo_request = true;
                r
            }
            Outcome::Reset => {
                let mut r = Reply::sse(sse_text("this stream is cut off in the middle of the second event"));
                if rec.index % 3 == 2 {
                    r.headers_only = true;
                } else {
                    r.reset_after = Some(700);
                    r.chunks = vec![300, 300, 300];
                }
                r
            }
            Outcome::Refused => Reply::status(503, b"unreachable".to_vec()),
        }
    })
}

// ---------------------------------------------------------------------------------------------
// one configuration

#[derive(Default)]
struct CaseResult {
    idx: u64,
    shape: String,
    supply: &'static str,
    outcome: &'static str,
    inconclusive: Option<String>,
    /// Some(true) = the provider received the canary; None = could not be observed (refused)
    sent: Option<bool>,
    provider_requests: u64,
    leaks: Vec<Leak>,
    doctor_problems: Vec<(String, String)>,
    doctor_checked: bool,
    doctor: Value,
    frames: u64,
    frame_types: BTreeMap<String, u64>,
    bytes_scanned: u64,
    items_scanned: u64,
    files_scanned: u64,
    http_responses: u64,
    dump_frames: u64,
    invalid_request_frames: u64,
    tool_failures: u64,
    outcome_reached: bool,
    cli_runs: u64,
    cli_exit_zero: u64,
    cli_nonzero: Vec<String>,
    scanner_selfcheck: bool,
    echo_auth: bool,
    echo_auth_persisted: bool,
    exit_after_sigterm: Option<i32>,
    wall_ms: u64,
}

struct Planted {
    files: Vec<PathBuf>,
    env: Vec<(String, String)>,
    /// per-request endpoint override needed to reach the provider (EndpointMatch)
    request_endpoint: Option<String>,
    expect_source: Option<String>,
    expect_headers: Vec<String>,
    doctor_has_openresponses: bool,
    /// which canary must show up at the provider, and in which header
    sent_header: (&'static str, String),
}

static NEXT_CASE_DIR: AtomicU64 = AtomicU64::new(0);

fn write_file(files: &mut Vec<PathBuf>, path: PathBuf, content: String) {
    if let Some(p) = path.parent() {
        let _ = std::fs::create_dir_all(p);
    }
    let _ = std::fs::write(&path, content);
    files.push(path);
}

fn jsonc(v: &Value) -> String {
    // comments, a comment that looks like a key, and trailing commas
    let pretty = serde_json::to_string_pretty(v).unwrap_or_default();
    let mut out = String::from("// rip config written by the C19 monitor\n/* \"api_key\": \"not-a-key\" */\n");
    for line in pretty.lines() {
        out.push_str(line);
        if line.trim_end().ends_with('"') && !line.trim_end().ends_with(',') {
            out.push(','); // trailing comma after the last string member
        }
        out.push_str(" // c\n");
    }
    out
}

#[allow(clippy::too_many_arguments)]
fn plant(
    spec: &Spec,
    endpoint: &str,
    cfg_home: &Path,
    ws: &Path,
    custom: &Path,
    key: &Canary,
    decoy: &Canary,
    header: &Canary,
) -> Planted {
    let mut files = Vec::new();
    let mut env: Vec<(String, String)> = Vec::new();
    let mut request_endpoint = None;
    let mut expect_headers: Vec<String> = Vec::new();
    let mut doctor_has = true;
    let mut sent_header = ("authorization", format!("Bearer {}", key.value));
    let provider_cfg = |api_key: Value| json!({"endpoint": endpoint, "api_key": api_key});
    let routed = |api_key: Value| json!({"model": "prov/m1", "provider": {"prov": provider_cfg(api_key)}});
    let expect_source: Option<String> = match spec.supply {
        Supply::GlobalInline => {
            write_file(&mut files, cfg_home.join("config.json"), routed(json!(key.value)).to_string());
            Some("inline".into())
        }
        Supply::GlobalJsoncInline => {
            write_file(&mut files, cfg_home.join("config.jsonc"), jsonc(&routed(json!(key.value))));
            Some("inline".into())
        }
        Supply::CustomInline => {
            let p = custom.join("custom-rip-config.json");
            write_file(&mut files, p.clone(), routed(json!(key.value)).to_string());
            env.push(("RIP_CONFIG".into(), p.display().to_string()));
            Some("inline".into())
        }
        Supply::ProjectJsonInline => {
            write_file(&mut files, ws.join("rip.json"), routed(json!(key.value)).to_string());
            Some("inline".into())
        }
        Supply::ProjectJsoncInline => {
            write_file(&mut files, ws.join("rip.jsonc"), jsonc(&routed(json!(key.value))));
            Some("inline".into())
        }
        Supply::GlobalEnvIndirect => {
            write_file(&mut files, cfg_home.join("config.json"), routed(json!({"env": "RV_C19_PROVIDER_KEY"})).to_string());
            env.push(("RV_C19_PROVIDER_KEY".into(), key.value.clone()));
            Some("env:RV_C19_PROVIDER_KEY".into())
        }
        Supply::EnvRipKey => {
            env.push(("RIP_OPENRESPONSES_ENDPOINT".into(), endpoint.to_string()));
            env.push(("RIP_OPENRESPONSES_API_KEY".into(), key.value.clone()));
            env.push(("RIP_OPENRESPONSES_MODEL".into(), "m-env".into()));
            Some("env:RIP_OPENRESPONSES_API_KEY".into())
        }
        Supply::EnvOpenAi => {
            env.push(("RIP_OPENRESPONSES_ENDPOINT".into(), endpoint.to_string()));
            env.push(("OPENAI_API_KEY".into(), key.value.clone()));
            env.push(("OPENROUTER_API_KEY".into(), decoy.value.clone()));
            env.push(("RIP_OPENRESPONSES_MODEL".into(), "m-env".into()));
            Some("env:OPENAI_API_KEY".into())
        }
        Supply::EnvOpenRouter => {
            env.push(("RIP_OPENRESPONSES_ENDPOINT".into(), endpoint.to_string()));
            env.push(("OPENROUTER_API_KEY".into(), key.value.clone()));
            env.push(("OPENAI_API_KEY".into(), decoy.value.clone()));
            env.push(("RIP_OPENRESPONSES_MODEL".into(), "m-env".into()));
            Some("env:OPENROUTER_API_KEY".into())
        }
        Supply::HeadersSecret => {
            let cfg = json!({"model": "prov/m1", "provider": {"prov": {
                "endpoint": endpoint, "api_key": key.value,
                "headers": {"X-Rv-Secret-Token": header.value, "X-Org": "plain-org"}}}});
            write_file(&mut files, cfg_home.join("config.json"), cfg.to_string());
            expect_headers = vec!["X-Org".into(), "X-Rv-Secret-Token".into()];
            sent_header = ("x-rv-secret-token", header.value.clone());
            Some("inline".into())
        }
        Supply::RolesObject => {
            let cfg = json!({"roles": {"primary": {"provider": "prov", "model": "m1", "variant": "fast"}},
                "provider": {"prov": provider_cfg(json!(key.value))}});
            let p = custom.join("roles-config.json");
            write_file(&mut files, p.clone(), cfg.to_string());
            env.push(("RIP_CONFIG".into(), p.display().to_string()));
            Some("inline".into())
        }
        Supply::EndpointMatch => {
            let cfg = json!({"provider": {"prov": provider_cfg(json!(key.value))}});
            write_file(&mut files, cfg_home.join("config.json"), cfg.to_string());
            request_endpoint = Some(endpoint.to_string());
            doctor_has = false; // nothing selects the provider until a request names the endpoint
            None
        }
        Supply::LayeredOverride => {
            write_file(&mut files, cfg_home.join("config.json"), routed(json!(decoy.value)).to_string());
            write_file(&mut files, ws.join("rip.json"), json!({"provider": {"prov": {"api_key": key.value}}}).to_string());
            Some("inline".into())
        }
        Supply::InvalidGlobalPlusEnv => {
            // syntactically broken file that contains a key
            let mut broken = routed(json!(decoy.value)).to_string();
            broken.truncate(broken.len() - 2);
            broken.push_str(" oops");
            write_file(&mut files, cfg_home.join("config.json"), broken);
            env.push(("RIP_OPENRESPONSES_ENDPOINT".into(), endpoint.to_string()));
            env.push(("RIP_OPENRESPONSES_API_KEY".into(), key.value.clone()));
            Some("env:RIP_OPENRESPONSES_API_KEY".into())
        }
    };
    match spec.dump {
        Dump::Off => {}
        Dump::On => env.push(("RIP_OPENRESPONSES_DUMP_REQUEST".into(), "1".into())),
        Dump::OnTiny => {
            env.push(("RIP_OPENRESPONSES_DUMP_REQUEST".into(), "true".into()));
            env.push(("RIP_OPENRESPONSES_DUMP_REQUEST_MAX_BYTES".into(), "37".into()));
        }
    }
    Planted { files, env, request_endpoint, expect_source, expect_headers, doctor_has_openresponses: doctor_has, sent_header }
}

fn count_frames(res: &mut CaseResult, body: &[u8]) {
    for line in String::from_utf8_lossy(body).lines() {
        if let Some(d) = line.strip_prefix("data:") {
            if let Ok(v) = serde_json::from_str::<Value>(d.trim()) {
                if let Some(t) = v.get("type").and_then(|x| x.as_str()) {
                    res.frames += 1;
                    *res.frame_types.entry(t.to_string()).or_insert(0) += 1;
                    if t == "openresponses_request" {
                        res.dump_frames += 1;
                    }
                    if t == "provider_event"
                        && v.get("raw").map(|x| x.is_string()).unwrap_or(false)
                        && v.get("errors").and_then(|x| x.as_array()).map(|a| !a.is_empty()).unwrap_or(false)
                        && v.get("event_name").map(|x| x.is_null()).unwrap_or(true)
                    {
                        res.invalid_request_frames += 1;
                    }
                    if t == "tool_ended" && v.get("exit_code").and_then(|x| x.as_i64()).unwrap_or(0) != 0 {
                        res.tool_failures += 1;
                    }
                }
            }
        }
    }
}

fn run_case(spec: &Spec, bin: &Path) -> CaseResult {
    if spec.cli_spawn {
        return run_cli_spawn_case(spec, bin);
    }
    let t0 = Instant::now();
    let mut res = CaseResult {
        idx: spec.idx,
        shape: spec.shape(),
        supply: spec.supply.name(),
        outcome: spec.outcome.name(),
        echo_auth: spec.echo_auth,
        ..Default::default()
    };
    let mut rng = Rng::new(spec.seed);
    let n = NEXT_CASE_DIR.fetch_add(1, Ordering::Relaxed);
    let base = scratch_root().join(format!("c19-{n}"));
    let _ = std::fs::remove_dir_all(&base);
    let cfg_home = base.join("config-home");
    let data = base.join("data");
    let ws = base.join("ws");
    let custom = base.join("elsewhere");
    for d in [&cfg_home, &data, &ws, &custom] {
        let _ = std::fs::create_dir_all(d);
    }
    // .git marks the project root so that config discovery stops at the workspace
    let _ = std::fs::create_dir_all(ws.join(".git"));
    // env values and headers can carry any byte; keep the awkward tail for those supply paths
    let awkward = !matches!(spec.supply, Supply::HeadersSecret) && rng.bool();
    let key = Canary::new("key", &mut rng, awkward);
    let decoy = Canary::new("decoy", &mut rng, false);
    let header = Canary::new("hdr", &mut rng, false);
    let canaries = vec![key.clone(), decoy.clone(), header.clone()];

    let provider = if spec.outcome == Outcome::Refused && !spec.echo_auth {
        None
    } else {
        Some(Provider::start(provider_script(spec.outcome, spec.echo_auth)))
    };
    let marker = match spec.supply {
        Supply::EnvOpenAi => "/openai.com",
        Supply::EnvOpenRouter => "/openrouter.ai/api",
        _ => "",
    };
    let endpoint = match &provider {
        Some(p) => format!("http://{}{marker}/v1/responses", p.addr),
        None => format!("http://127.0.0.1:1{marker}/v1/responses"),
    };
    let planted = plant(spec, &endpoint, &cfg_home, &ws, &custom, &key, &decoy, &header);

    let mut cmd = Command::new(bin);
    cmd.arg("serve")
        .env("RIP_SERVER_ADDR", "127.0.0.1:0")
        .env("RIP_DATA_DIR", &data)
        .env("RIP_WORKSPACE_ROOT", &ws)
        .env("RIP_CONFIG_HOME", &cfg_home)
        .env_remove("RIP_VERIF_DELAY")
        .env_remove("RIP_VERIF_ABORT")
        .current_dir(&ws);
    for (k, v) in &planted.env {
        cmd.env(k, v);
    }
    let mut auth = match Proc::spawn(cmd) {
        Ok(p) => p,
        Err(e) => {
            res.inconclusive = Some(format!("cannot spawn {}: {e}", bin.display()));
            let _ = std::fs::remove_dir_all(&base);
            return res;
        }
    };
    let started = Instant::now();
    while auth.listening().is_none() && auth.alive() && started.elapsed() < Duration::from_secs(8) {
        std::thread::sleep(Duration::from_millis(3));
    }
    let Some(server) = auth.listening() else {
        res.inconclusive = Some(format!("rip serve did not start: {}", auth.stderr_text().chars().take(300).collect::<String>()));
        auth.finish();
        let _ = std::fs::remove_dir_all(&base);
        return res;
    };
    let addr = crate::c18::host_port(&server);
    let mut sc = Scanner { canaries: &canaries, leaks: Vec::new(), bytes: 0, items: 0 };
    let mut http_n = 0u64;
    let mut scan_resp = |sc: &mut Scanner, what: &str, r: &HttpResp| {
        sc.scan(&format!("http:{what}"), &r.raw);
        sc.scan(&format!("http:{what}"), &r.body);
        http_n += 1;
    };
    let t_short = Duration::from_secs(4);

    // ---- the run
    let mut overrides = serde_json::Map::new();
    if let Some(e) = &planted.request_endpoint {
        overrides.insert("endpoint".into(), json!(e));
        overrides.insert("model".into(), json!("m1"));
    }
    match spec.overrides {
        1 => {
            overrides.insert("model".into(), json!("m-override"));
            overrides.insert("parallel_tool_calls".into(), json!(true));
        }
        2 => {
            overrides.insert("stateless_history".into(), json!(true));
            overrides.insert("followup_user_message".into(), json!("please continue"));
        }
        _ => {}
    }
    let prompt = format!("case {} please use a tool", spec.idx);
    let mut session_id: Option<String> = None;
    let mut thread_id: Option<String> = None;
    let mut start_trouble = String::new();
    if spec.session_entry {
        if let Some((st, v, r)) = http_json(&addr, "POST", "/sessions", None, t_short) {
            scan_resp(&mut sc, "POST /sessions", &r);
            if st == 201 {
                session_id = v.get("session_id").and_then(|x| x.as_str()).map(|s| s.to_string());
            } else {
                start_trouble = format!("POST /sessions -> {st}");
            }
        } else {
            start_trouble = "POST /sessions: no answer".into();
        }
        if let Some(sid) = &session_id {
            if let Some((_, _, r)) = http_json(&addr, "POST", &format!("/sessions/{sid}/input"), Some(&json!({"input": prompt})), t_short) {
                scan_resp(&mut sc, "POST /sessions/{id}/input", &r);
            }
        }
    } else {
        if let Some((_, v, r)) = http_json(&addr, "POST", "/threads/ensure", None, t_short) {
            scan_resp(&mut sc, "POST /threads/ensure", &r);
            thread_id = v.get("thread_id").and_then(|x| x.as_str()).map(|s| s.to_string());
            if thread_id.is_none() {
                start_trouble = format!("POST /threads/ensure -> {} {}", r.status, String::from_utf8_lossy(&r.body).chars().take(120).collect::<String>());
            }
        } else {
            start_trouble = "POST /threads/ensure: no answer".into();
        }
        if let Some(tid) = &thread_id {
            let mut body = json!({"content": prompt, "actor_id": "user", "origin": "rv"});
            if !overrides.is_empty() {
                body["openresponses"] = Value::Object(overrides.clone());
            }
            if let Some((st, v, r)) = http_json(&addr, "POST", &format!("/threads/{tid}/messages"), Some(&body), t_short) {
                scan_resp(&mut sc, "POST /threads/{id}/messages", &r);
                if st == 202 {
                    session_id = v.get("session_id").and_then(|x| x.as_str()).map(|s| s.to_string());
                } else {
                    start_trouble = format!("POST /threads/{{id}}/messages -> {st}");
                }
            } else {
                start_trouble = "POST /threads/{id}/messages: no answer".into();
            }
        }
    }
    let Some(sid) = session_id else {
        res.inconclusive = Some(format!("could not start a run over HTTP ({start_trouble}); authority stderr: {}", auth.stderr_text().chars().take(200).collect::<String>()));
        auth.finish();
        let _ = std::fs::remove_dir_all(&base);
        return res;
    };
    let ended = |b: &[u8]| find(b, b"\"type\":\"session_ended\"").is_some();
    let mut run_ended = false;
    if let Some(r) = http_exchange(&addr, "GET", &format!("/sessions/{sid}/events"), None, Duration::from_secs(20), Some(&ended)) {
        run_ended = ended(&r.raw);
        count_frames(&mut res, &r.body);
        scan_resp(&mut sc, "GET /sessions/{id}/events (SSE)", &r);
    }
    if !run_ended {
        res.inconclusive = Some("run did not end within the watchdog".to_string());
    }
    std::thread::sleep(Duration::from_millis(40)); // trailing continuity frames

    // ---- the CLI (its output is scanned)
    let mut cli_outputs: Vec<(String, Vec<u8>)> = Vec::new();
    let mut run_cli = |args: &[&str], local: bool, what: &str| {
        let mut c = Command::new(bin);
        c.args(args)
            .env("RIP_CONFIG_HOME", &cfg_home)
            .env_remove("RIP_VERIF_DELAY")
            .env_remove("RIP_VERIF_ABORT")
            .current_dir(&ws);
        if local {
            c.env("RIP_DATA_DIR", &data).env("RIP_WORKSPACE_ROOT", &ws);
            // the same environment the user had when the authority was started
            for (k, v) in &planted.env {
                c.env(k, v);
            }
        }
        if let Ok(mut p) = Proc::spawn(c) {
            let code = p.wait_exit(Duration::from_secs(25));
            p.finish();
            cli_outputs.push((format!("cli:{what}:stdout"), p.out.lock().unwrap().clone()));
            cli_outputs.push((format!("cli:{what}:stderr"), p.err.lock().unwrap().clone()));
            return code;
        }
        None
    };
    let code = if spec.cli_local {
        run_cli(&["config", "doctor"], true, "rip config doctor (attached through the store)")
    } else {
        run_cli(&["config", "--server", &server, "doctor"], false, "rip config --server doctor")
    };
    res.cli_runs += 1;
    res.cli_exit_zero += (code == Some(0)) as u64;
    if code != Some(0) {
        res.cli_nonzero.push(format!("config doctor{} exit {code:?}", if spec.cli_local { " (attached)" } else { " --server" }));
    }
    if spec.cli_run {
        let view = ["raw", "output", "metrics"][rng.usize(3)];
        let code = if spec.cli_local {
            run_cli(&["run", "second prompt through the cli", "--view", view], true, "rip run (attached through the store)")
        } else {
            run_cli(&["run", "second prompt through the cli", "--server", &server, "--view", view], false, "rip run --server")
        };
        res.cli_runs += 1;
        res.cli_exit_zero += (code == Some(0)) as u64;
        if code != Some(0) {
            res.cli_nonzero.push(format!("run{} exit {code:?}", if spec.cli_local { " (attached)" } else { " --server" }));
        }
    }

    // ---- diagnostics and read surfaces
    if let Some((st, v, r)) = http_json(&addr, "GET", "/config/doctor", None, t_short) {
        scan_resp(&mut sc, "GET /config/doctor", &r);
        res.doctor = v.clone();
        if st == 200 {
            res.doctor_checked = true;
            let or = v.get("openresponses");
            if planted.doctor_has_openresponses {
                match or {
                    None | Some(Value::Null) => res.doctor_problems.push(("no_openresponses_section".into(), "doctor has no openresponses section although a provider is configured".into())),
                    Some(o) => {
                        if o.get("has_api_key").and_then(|x| x.as_bool()) != Some(true) {
                            res.doctor_problems.push(("has_api_key_not_true".into(), format!("has_api_key = {:?}", o.get("has_api_key"))));
                        }
                        let src = o.get("api_key_source").and_then(|x| x.as_str()).map(|s| s.to_string());
                        if src != planted.expect_source {
                            res.doctor_problems.push(("wrong_api_key_source".into(), format!("api_key_source = {src:?}, expected {:?}", planted.expect_source)));
                        }
                        let names: Vec<String> = o
                            .get("headers")
                            .and_then(|x| x.as_array())
                            .map(|a| a.iter().filter_map(|x| x.as_str().map(|s| s.to_string())).collect())
                            .unwrap_or_default();
                        let mut sorted = names.clone();
                        sorted.sort();
                        if sorted != planted.expect_headers {
                            res.doctor_problems.push(("header_list_not_names_only".into(), format!("headers = {names:?}, expected the names {:?}", planted.expect_headers)));
                        }
                    }
                }
            }
        }
    }
    for (m, p, b) in [
        ("GET", "/threads".to_string(), None),
        ("GET", "/tasks".to_string(), None),
    ] {
        if let Some((_, _, r)) = http_json(&addr, m, &p, b, t_short) {
            scan_resp(&mut sc, &format!("{m} {p}"), &r);
        }
    }
    if thread_id.is_none() {
        // the default thread also exists for session runs started by the CLI
        if let Some((_, v, _)) = http_json(&addr, "POST", "/threads/ensure", None, t_short) {
            thread_id = v.get("thread_id").and_then(|x| x.as_str()).map(|s| s.to_string());
        }
    }
    if let Some(tid) = &thread_id {
        if let Some((_, _, r)) = http_json(&addr, "GET", &format!("/threads/{tid}"), None, t_short) {
            scan_resp(&mut sc, "GET /threads/{id}", &r);
        }
        for ep in ["compaction-status", "provider-cursor-status", "context-selection-status", "compaction-cut-points"] {
            if let Some((_, _, r)) = http_json(&addr, "POST", &format!("/threads/{tid}/{ep}"), Some(&json!({})), t_short) {
                scan_resp(&mut sc, &format!("POST /threads/{{id}}/{ep}"), &r);
            }
        }
        if let Some(r) = http_exchange(&addr, "GET", &format!("/threads/{tid}/events"), None, Duration::from_millis(350), None) {
            count_frames(&mut res, &r.body);
            scan_resp(&mut sc, "GET /threads/{id}/events (SSE)", &r);
        }
    }
    // replay of the finished session stream
    if let Some(r) = http_exchange(&addr, "GET", &format!("/sessions/{sid}/events"), None, Duration::from_millis(250), None) {
        scan_resp(&mut sc, "GET /sessions/{id}/events (SSE replay)", &r);
    }

    // ---- stop the authority
    kill_pid(auth.pid, libc::SIGTERM);
    res.exit_after_sigterm = auth.wait_exit(Duration::from_secs(4));
    auth.finish();
    sc.scan("authority:stdout", &auth.out.lock().unwrap().clone());
    sc.scan("authority:stderr", &auth.err.lock().unwrap().clone());
    for (what, bytes) in &cli_outputs {
        sc.scan(what, bytes);
    }

    // ---- every file that exists now, except the config files we planted ourselves
    let mut files = 0u64;
    {
        let planted_files = &planted.files;
        let mut visit = |p: &Path| {
            if planted_files.iter().any(|f| f == p) {
                return;
            }
            let rel = p.strip_prefix(&base).unwrap_or(p).to_string_lossy().to_string();
            if let Ok(bytes) = std::fs::read(p) {
                files += 1;
                sc.scan(&format!("file:{}", sink_class(&rel)), &bytes);
            }
        };
        walk(&base, &mut visit);
    }
    res.files_scanned = files;

    // ---- was the secret really in use?
    if let Some(p) = &provider {
        let reqs = p.requests();
        res.provider_requests = reqs.len() as u64;
        let (hname, hval) = &planted.sent_header;
        let got = reqs.iter().any(|r| r.header(hname) == Some(hval.as_str()));
        let key_too = reqs.iter().any(|r| r.header("authorization") == Some(format!("Bearer {}", key.value).as_str()));
        res.sent = Some(got && key_too);
        // the scanner must find the canary where it legitimately is
        let mut probe = Scanner { canaries: &canaries, leaks: Vec::new(), bytes: 0, items: 0 };
        for r in &reqs {
            for (_, v) in &r.headers {
                probe.scan("probe", v.as_bytes());
            }
        }
        res.scanner_selfcheck = !probe.leaks.is_empty();
        // decoys must never be sent anywhere
        if reqs.iter().any(|r| r.headers.iter().any(|(_, v)| v.contains(&decoy.value))) {
            res.doctor_problems.push(("decoy_key_sent_to_provider".into(), "a key that the configuration does not select was sent to the provider".into()));
        }
    } else {
        res.sent = None;
        let mut probe = Scanner { canaries: &canaries, leaks: Vec::new(), bytes: 0, items: 0 };
        probe.scan("probe", format!("Authorization: Bearer {}", key.value).as_bytes());
        res.scanner_selfcheck = !probe.leaks.is_empty();
    }
    res.outcome_reached = match spec.outcome {
        Outcome::SuccessTool => res.frame_types.contains_key("tool_ended") && ws.join("out.txt").exists(),
        Outcome::ToolFailure => res.tool_failures > 0 || res.frame_types.contains_key("tool_failed"),
        Outcome::InvalidRequest => res.invalid_request_frames > 0,
        _ => res.frame_types.contains_key("provider_event") || res.frame_types.contains_key("session_ended"),
    };
    res.leaks = sc.leaks;
    res.bytes_scanned = sc.bytes;
    res.items_scanned = sc.items;
    res.http_responses = http_n;
    if spec.echo_auth {
        res.echo_auth_persisted = !res.leaks.is_empty();
    }
    drop(provider);
    let _ = std::fs::remove_dir_all(&base);
    res.wall_ms = t0.elapsed().as_millis() as u64;
    res
}

// ---------------------------------------------------------------------------------------------

/// `rip run --provider openai|openrouter` without a server: the CLI copies the provider key into
/// RIP_OPENRESPONSES_API_KEY and spawns the authority itself (output goes to authority.log). Offline the
/// run ends in a transport error; the doctor stands in for "the key was in use".
fn run_cli_spawn_case(spec: &Spec, bin: &Path) -> CaseResult {
    let t0 = Instant::now();
    let mut res = CaseResult {
        idx: spec.idx,
        shape: spec.shape(),
        supply: "cli_provider_flag_spawns_authority",
        outcome: "transport_error_offline",
        ..Default::default()
    };
    let mut rng = Rng::new(spec.seed);
    let n = NEXT_CASE_DIR.fetch_add(1, Ordering::Relaxed);
    let base = scratch_root().join(format!("c19-{n}"));
    let _ = std::fs::remove_dir_all(&base);
    let cfg_home = base.join("config-home");
    let data = base.join("data");
    let ws = base.join("ws");
    for d in [&cfg_home, &data, &ws] {
        let _ = std::fs::create_dir_all(d);
    }
    let _ = std::fs::create_dir_all(ws.join(".git"));
    let awkward = rng.bool();
    let key = Canary::new("key", &mut rng, awkward);
    let decoy = Canary::new("decoy", &mut rng, false);
    let canaries = vec![key.clone(), decoy.clone()];
    let openrouter = rng.bool();
    let mut env: Vec<(String, String)> = vec![
        ("RIP_DATA_DIR".into(), data.display().to_string()),
        ("RIP_WORKSPACE_ROOT".into(), ws.display().to_string()),
        ("RIP_CONFIG_HOME".into(), cfg_home.display().to_string()),
    ];
    if openrouter {
        env.push(("OPENROUTER_API_KEY".into(), key.value.clone()));
        env.push(("OPENAI_API_KEY".into(), decoy.value.clone()));
    } else {
        env.push(("OPENAI_API_KEY".into(), key.value.clone()));
        env.push(("OPENROUTER_API_KEY".into(), decoy.value.clone()));
    }
    match spec.dump {
        Dump::Off => {}
        Dump::On => env.push(("RIP_OPENRESPONSES_DUMP_REQUEST".into(), "1".into())),
        Dump::OnTiny => {
            env.push(("RIP_OPENRESPONSES_DUMP_REQUEST".into(), "1".into()));
            env.push(("RIP_OPENRESPONSES_DUMP_REQUEST_MAX_BYTES".into(), "37".into()));
        }
    }
    let mut sc = Scanner { canaries: &canaries, leaks: Vec::new(), bytes: 0, items: 0 };
    let mut groups: Vec<u32> = Vec::new();
    let mut run_cli = |args: &[&str], sc: &mut Scanner, what: &str| -> Option<i32> {
        use std::os::unix::process::CommandExt;
        let mut c = Command::new(bin);
        c.args(args).env_remove("RIP_VERIF_DELAY").env_remove("RIP_VERIF_ABORT").current_dir(&ws).process_group(0);
        for (k, v) in &env {
            c.env(k, v);
        }
        let mut p = Proc::spawn(c).ok()?;
        groups.push(p.pid);
        let code = p.wait_exit(Duration::from_secs(30));
        p.finish();
        let out = p.out.lock().unwrap().clone();
        if what.contains("run") {
            for line in String::from_utf8_lossy(&out).lines() {
                if let Ok(v) = serde_json::from_str::<Value>(line) {
                    if let Some(t) = v.get("type").and_then(|x| x.as_str()) {
                        res.frames += 1;
                        *res.frame_types.entry(t.to_string()).or_insert(0) += 1;
                    }
                }
            }
        }
        sc.scan(&format!("cli:{what}:stdout"), &out);
        sc.scan(&format!("cli:{what}:stderr"), &p.err.lock().unwrap().clone());
        code
    };
    let provider = if openrouter { "openrouter" } else { "openai" };
    let code = run_cli(&["run", "hello through the cli", "--provider", provider, "--model", "rv-model", "--view", "raw"], &mut sc, "rip run --provider");
    let mut cli_runs = 1;
    let mut cli_zero = (code == Some(0)) as u64;
    let meta: Option<Value> = std::fs::read(data.join("authority").join("meta.json")).ok().and_then(|b| serde_json::from_slice(&b).ok());
    let server = meta.as_ref().and_then(|m| m.get("endpoint")).and_then(|x| x.as_str()).map(|s| s.to_string());
    let auth_pid = meta.as_ref().and_then(|m| m.get("pid")).and_then(|x| x.as_u64()).map(|p| p as u32);
    let (Some(server), Some(auth_pid)) = (server, auth_pid) else {
        res.inconclusive = Some(format!("`rip run --provider` did not leave a running authority (exit {code:?})"));
        for g in &groups {
            crate::c18::kill_group(*g, libc::SIGKILL);
        }
        let _ = std::fs::remove_dir_all(&base);
        return res;
    };
    let addr = crate::c18::host_port(&server);
    let t_short = Duration::from_secs(4);
    let mut http_n = 0u64;
    if let Some((st, v, r)) = http_json(&addr, "GET", "/config/doctor", None, t_short) {
        sc.scan("http:GET /config/doctor", &r.raw);
        http_n += 1;
        res.doctor = v.clone();
        if st == 200 {
            res.doctor_checked = true;
            let o = v.get("openresponses").cloned().unwrap_or(Value::Null);
            if o.get("has_api_key").and_then(|x| x.as_bool()) != Some(true) {
                res.doctor_problems.push(("has_api_key_not_true".into(), format!("has_api_key = {:?}", o.get("has_api_key"))));
            }
            let src = o.get("api_key_source").and_then(|x| x.as_str()).unwrap_or("");
            if src != "env:RIP_OPENRESPONSES_API_KEY" {
                res.doctor_problems.push(("wrong_api_key_source".into(), format!("api_key_source = {src:?}, expected env:RIP_OPENRESPONSES_API_KEY (set by the CLI)")));
            }
        }
    }
    let code2 = run_cli(&["config", "doctor"], &mut sc, "rip config doctor (attached through the store)");
    cli_runs += 1;
    cli_zero += (code2 == Some(0)) as u64;
    let mut thread_id = None;
    if let Some((_, v, r)) = http_json(&addr, "POST", "/threads/ensure", None, t_short) {
        sc.scan("http:POST /threads/ensure", &r.raw);
        http_n += 1;
        thread_id = v.get("thread_id").and_then(|x| x.as_str()).map(|s| s.to_string());
    }
    if let Some(tid) = &thread_id {
        for ep in ["compaction-status", "provider-cursor-status", "context-selection-status"] {
            if let Some((_, _, r)) = http_json(&addr, "POST", &format!("/threads/{tid}/{ep}"), Some(&json!({})), t_short) {
                sc.scan(&format!("http:POST /threads/{{id}}/{ep}"), &r.raw);
                http_n += 1;
            }
        }
        if let Some(r) = http_exchange(&addr, "GET", &format!("/threads/{tid}/events"), None, Duration::from_millis(350), None) {
            sc.scan("http:GET /threads/{id}/events (SSE)", &r.raw);
            sc.scan("http:GET /threads/{id}/events (SSE)", &r.body);
            http_n += 1;
        }
    }
    kill_pid(auth_pid, libc::SIGTERM);
    let t1 = Instant::now();
    while ripd::authority_lock_path(&data).exists() && t1.elapsed() < Duration::from_secs(4) {
        std::thread::sleep(Duration::from_millis(5));
    }
    res.exit_after_sigterm = (!ripd::authority_lock_path(&data).exists()).then_some(0);
    for g in &groups {
        crate::c18::kill_group(*g, libc::SIGKILL);
    }
    let mut files = 0u64;
    {
        let mut visit = |p: &Path| {
            let rel = p.strip_prefix(&base).unwrap_or(p).to_string_lossy().to_string();
            if let Ok(bytes) = std::fs::read(p) {
                files += 1;
                sc.scan(&format!("file:{}", sink_class(&rel)), &bytes);
            }
        };
        walk(&base, &mut visit);
    }
    res.files_scanned = files;
    res.sent = None;
    let mut probe = Scanner { canaries: &canaries, leaks: Vec::new(), bytes: 0, items: 0 };
    probe.scan("probe", format!("Authorization: Bearer {}", key.value).as_bytes());
    res.scanner_selfcheck = !probe.leaks.is_empty();
    res.outcome_reached = res.frame_types.contains_key("provider_event") && res.frame_types.contains_key("session_ended");
    res.leaks = sc.leaks;
    res.bytes_scanned = sc.bytes;
    res.items_scanned = sc.items;
    res.http_responses = http_n;
    res.cli_runs = cli_runs;
    res.cli_exit_zero = cli_zero;
    let _ = std::fs::remove_dir_all(&base);
    res.wall_ms = t0.elapsed().as_millis() as u64;
    res
}

fn spec_for(cfg: &Cfg, i: u64) -> Spec {
    let mut rng = cfg.case_rng(i);
    let s = SUPPLIES.len() as u64;
    let o = OUTCOMES.len() as u64;
    let supply = SUPPLIES[(i % s) as usize];
    // walk the (supply × outcome) matrix diagonally so that a short run already sees every outcome
    let outcome = OUTCOMES[((i / s + i % s) % o) as usize];
    let dump = match rng.below(5) {
        0 | 1 => Dump::Off,
        2 | 3 => Dump::On,
        _ => Dump::OnTiny,
    };
    let session_entry = matches!(spec_supply_allows_session(supply), true) && rng.chance(1, 3);
    Spec {
        idx: i,
        supply,
        outcome,
        dump,
        overrides: if session_entry { 0 } else { rng.below(3) as u8 },
        session_entry,
        cli_run: rng.chance(1, 3),
        cli_local: rng.chance(1, 3),
        echo_auth: false,
        cli_spawn: i % 20 == 19,
        seed: rng.next_u64(),
    }
}

fn spec_supply_allows_session(s: Supply) -> bool {
    // the engine-level default provider only knows RIP_OPENRESPONSES_ENDPOINT / _API_KEY
    matches!(s, Supply::EnvRipKey | Supply::InvalidGlobalPlusEnv)
}

fn judge(r: &mut Report, spec: &Spec, res: &CaseResult) {
    if res.echo_auth {
        // informational: a provider that quotes the Authorization header back. Outside the quantifier of
        // the property (outcomes echo the request *body*); recorded, not judged.
        r.note(
            "info_provider_quoting_authorization_header_in_401_body",
            json!({"persisted_by_rip": res.echo_auth_persisted,
                   "sinks": res.leaks.iter().map(|l| l.sink.clone()).collect::<std::collections::BTreeSet<_>>()}),
        );
        r.count("info_cases_provider_quotes_auth_header", 1);
        return;
    }
    if let Some(why) = &res.inconclusive {
        r.inconclusive(&format!("case {} ({}): {why}", res.idx, res.shape));
        if res.leaks.is_empty() {
            return;
        }
    }
    if !res.scanner_selfcheck {
        r.inconclusive(&format!("case {}: scanner self-check failed (canary not found where it was sent)", res.idx));
        return;
    }
    let witness = |extra: Value| {
        json!({"case": res.idx, "spec": format!("{spec:?}"), "shape": res.shape, "provider_requests": res.provider_requests,
               "secret_seen_by_provider": res.sent, "doctor": res.doctor, "frame_types": res.frame_types, "detail": extra})
    };
    // a leak is a leak whether or not the provider saw the key
    let mut by_sink: BTreeMap<String, Vec<&Leak>> = BTreeMap::new();
    for l in &res.leaks {
        by_sink.entry(l.sink.clone()).or_default().push(l);
    }
    for (sink, ls) in &by_sink {
        let l = ls[0];
        r.violation(
            &format!("C19/secret_in/{sink}/{}/{}", res.supply, res.outcome),
            &format!(
                "the {} canary ({} form) supplied via {} appears in {sink} after outcome {}: …{}…",
                l.canary, l.encoding, res.supply, res.outcome, l.excerpt
            ),
            witness(json!(ls.iter().map(|l| json!({"sink": l.sink, "canary": l.canary, "encoding": l.encoding, "excerpt": l.excerpt})).collect::<Vec<_>>())),
        );
    }
    for (kind, detail) in &res.doctor_problems {
        r.violation(
            &format!("C19/doctor/{kind}/{}", res.supply),
            &format!("config doctor for supply path {}: {detail}", res.supply),
            witness(json!(detail)),
        );
    }
    match res.sent {
        Some(true) => {
            r.eval();
            r.distinct_str(&res.shape);
            r.count("cases_secret_seen_by_provider", 1);
        }
        Some(false) => {
            r.inconclusive(&format!(
                "case {} ({}): the provider never received the canary ({} requests) — the case proves nothing",
                res.idx, res.shape, res.provider_requests
            ));
            return;
        }
        None => {
            // connection refused: nothing can observe the header; the doctor check stands in
            if res.doctor_checked {
                r.eval();
                r.distinct_str(&res.shape);
                r.count("cases_connection_refused_secret_use_shown_by_doctor_only", 1);
            } else {
                r.inconclusive(&format!("case {}: refused outcome without a doctor answer", res.idx));
                return;
            }
        }
    }
    r.count(&format!("outcome_{}", res.outcome), 1);
    r.count(&format!("outcome_{}_reached_as_intended", res.outcome), res.outcome_reached as u64);
    r.count(&format!("supply_{}", res.supply), 1);
    r.count("provider_requests_recorded", res.provider_requests);
    r.count("frames_read_over_sse", res.frames);
    r.count("request_dump_frames_seen", res.dump_frames);
    r.count("bytes_scanned", res.bytes_scanned);
    r.count("byte_strings_scanned", res.items_scanned);
    r.count("files_scanned", res.files_scanned);
    r.count("http_and_sse_responses_scanned", res.http_responses);
    r.count("cli_invocations_scanned", res.cli_runs);
    r.count("cli_invocations_exit_zero", res.cli_exit_zero);
    for w in &res.cli_nonzero {
        r.count(&format!("cli_nonzero: {w}"), 1);
    }
    r.count("doctor_answers_checked", res.doctor_checked as u64);
    r.count("authority_exited_cleanly_on_sigterm", (res.exit_after_sigterm == Some(0)) as u64);
    r.sample(json!({
        "case": res.idx, "shape": res.shape, "secret_seen_by_provider": res.sent, "provider_requests": res.provider_requests,
        "frames": res.frames, "frame_types": res.frame_types, "files_scanned": res.files_scanned, "bytes_scanned": res.bytes_scanned,
        "doctor": res.doctor.get("openresponses"), "outcome_reached": res.outcome_reached, "wall_ms": res.wall_ms,
    }));
}

pub fn run(cfg: &Cfg) -> i32 {
    let mut r = Report::new(
        "C19",
        "exploration",
        "configurations = (14 secret supply paths) × (7 run outcomes) walked as a matrix, × seeded {request dump off / on / on with \
         37-byte cap, per-request overrides none / model+flags / follow-up+stateless, thread or session entry, CLI doctor via \
         --server or attached through the store, optional second run through `rip run`}; each is a fresh real `rip serve` with \
         isolated config home, data dir and workspace against a recording scripted provider. Non-trivial = the provider \
         received the canary (or, for connection refused, the doctor reports the key); distinct = distinct configuration shapes",
    );
    r.assume("the canary search covers raw, JSON-escaped (1× and 2×), percent-encoded, hex and base64/base64url (3 alignments) forms; other transformations (compression, encryption, splitting) are not detected");
    r.assume("tool commands that print the authority's own environment or read the planted config files are excluded (no such tool call is scripted)");
    r.assume("the planted config files themselves are excluded from the scan by exact path");
    let bin = rip_bin();
    r.note("rip_binary", json!(bin.display().to_string()));
    if !bin.exists() {
        r.fatal_inconclusive(&format!("real binary {} not found (set RV_RIP_BIN or run lib/build.sh --with-rip)", bin.display()));
        return r.finish(cfg);
    }

    if let Some(path) = &cfg.replay {
        let doc: Value = std::fs::read(path).ok().and_then(|b| serde_json::from_slice(&b).ok()).unwrap_or(Value::Null);
        let idx = doc.pointer("/witness/case").and_then(|x| x.as_u64()).unwrap_or(0);
        let spec = spec_for(cfg, idx);
        let res = run_case(&spec, &bin);
        judge(&mut r, &spec, &res);
        return r.finish(cfg);
    }

    let matrix = (SUPPLIES.len() * OUTCOMES.len()) as u64;
    let max_cases = cfg.tier.pick(matrix * 2, matrix * 60);
    let workers = cfg.tier.pick(6usize, 10usize);
    let next = Arc::new(AtomicU64::new(0));
    let stop = Arc::new(std::sync::atomic::AtomicBool::new(false));
    let (tx, rx) = mpsc::channel::<(Spec, CaseResult)>();
    let extra_done = Arc::new(Mutex::new(false));
    let mut handles = Vec::new();
    for _ in 0..workers {
        let next = next.clone();
        let stop = stop.clone();
        let tx = tx.clone();
        let cfg = cfg.clone();
        let bin = bin.clone();
        let extra_done = extra_done.clone();
        handles.push(std::thread::spawn(move || loop {
            if stop.load(Ordering::Relaxed) {
                break;
            }
            // the informational header-echo case runs once
            let do_extra = {
                let mut g = extra_done.lock().unwrap();
                if !*g && cfg.mine(0) {
                    *g = true;
                    true
                } else {
                    false
                }
            };
            if do_extra {
                let mut spec = spec_for(&cfg, 0);
                spec.outcome = Outcome::Http401Echo;
                spec.echo_auth = true;
                spec.cli_run = false;
                let res = run_case(&spec, &bin);
                let _ = tx.send((spec, res));
                continue;
            }
            let i = next.fetch_add(1, Ordering::SeqCst);
            if i >= max_cases {
                break;
            }
            if !cfg.mine(i) {
                continue;
            }
            let spec = spec_for(&cfg, i);
            let res = run_case(&spec, &bin);
            if tx.send((spec, res)).is_err() {
                break;
            }
        }));
    }
    drop(tx);
    loop {
        match rx.recv_timeout(Duration::from_millis(200)) {
            Ok((spec, res)) => judge(&mut r, &spec, &res),
            Err(mpsc::RecvTimeoutError::Timeout) => {}
            Err(mpsc::RecvTimeoutError::Disconnected) => break,
        }
        if r.elapsed() > cfg.budget_s * 0.85 {
            stop.store(true, Ordering::Relaxed);
        }
    }
    for h in handles {
        let _ = h.join();
    }
    r.finish(cfg)
}
