//! C14 — rewind restores exactly the checkpointed files, from any later state and any cwd.
//!
//! Model: at every checkpoint (manual or automatic) the harness records, for every covered path
//! *resolved lexically against the workspace root*, `Some(sha256)` or `None`, taken from the real tree
//! just before the checkpoint. Histories (checkpoint sets with existing / missing / nested paths given
//! relative and absolute; write / apply_patch(add, update, move, delete) through `ToolRunner::run` or
//! the router; raw deletes / mkdirs / external writes; several checkpoints and rewinds in arbitrary
//! order; unknown ids, corrupted `checkpoint.json`, removed stored copies) run in a child process per
//! configuration (`rv c13-child`; cwd = root / outer / sibling with same-named files / sub-directory / "/").
//!
//! Oracle (on the real trees the child reports after every step):
//!  * creating a checkpoint does not change the workspace;
//!  * successful rewind: every covered path matches its record, every other path is untouched;
//!  * failed rewind: the whole tree (files) is identical to before;
//!  * write / apply_patch via ToolRunner::run: when the invocation is well-formed an auto
//!    `checkpoint_created` frame precedes `tool_started`, its file list covers every named path, every
//!    path the tool really changed is covered, and rewinding to it restores the recorded state.

use crate::c12::gen_patch::{self as gp, Fresh, Op, PatchDoc, Shape, WsModel};
use crate::c13::{build_layout, cwd_path, trunc, ws_child, Layout, CWDS};
use crate::fixture::scratch_root;
use crate::prng::Rng;
use crate::report::{Cfg, Report};
use serde_json::{json, Value};
use std::collections::{BTreeMap, BTreeSet};
use std::path::{Component, Path};
use std::time::Duration;

const DIRECTED: u64 = 5;

type Tree = BTreeMap<String, (String, String)>; // path -> (kind, sha)

fn parse_tree(v: Option<&Value>) -> Tree {
    let mut t = Tree::new();
    if let Some(m) = v.and_then(|x| x.as_object()) {
        for (p, e) in m {
            let kind = e.get(0).and_then(|x| x.as_str()).unwrap_or("?").to_string();
            let sha = e.get(1).and_then(|x| x.as_str()).unwrap_or("").to_string();
            t.insert(p.clone(), (kind, sha));
        }
    }
    t
}

/// file state of a path: Some(sha) for a regular file, None when absent (or a directory)
fn file_state(t: &Tree, p: &str) -> Option<String> {
    match t.get(p) {
        Some((k, sha)) if k == "f" => Some(sha.clone()),
        _ => None,
    }
}

fn files_only(t: &Tree) -> BTreeMap<&String, &String> {
    t.iter().filter(|(_, (k, _))| k == "f").map(|(p, (_, s))| (p, s)).collect()
}

fn changed_files(a: &Tree, b: &Tree) -> BTreeSet<String> {
    let (fa, fb) = (files_only(a), files_only(b));
    let mut out = BTreeSet::new();
    for (p, s) in &fa {
        if fb.get(*p) != Some(s) {
            out.insert((*p).clone());
        }
    }
    for p in fb.keys() {
        if !fa.contains_key(*p) {
            out.insert((*p).clone());
        }
    }
    out
}

/// Lexical resolution of a checkpoint / tool path against the workspace root.
fn normalize(root: &Path, arg: &str) -> Option<String> {
    let p = Path::new(arg);
    let rel = if p.is_absolute() { p.strip_prefix(root).ok()?.to_path_buf() } else { p.to_path_buf() };
    let mut parts: Vec<String> = Vec::new();
    for c in rel.components() {
        match c {
            Component::Normal(s) => parts.push(s.to_string_lossy().to_string()),
            Component::CurDir => {}
            _ => return None,
        }
    }
    Some(parts.join("/"))
}

#[derive(Clone, Debug)]
enum Plan {
    /// manual checkpoint; (arg string, is_absolute)
    Create { args: Vec<String> },
    /// write / apply_patch through the tool runner (auto checkpoint); named = paths the invocation names
    Tool { name: &'static str, named: Vec<String>, well_formed: bool },
    Rewind { target: usize, expect_fail: bool },
    RewindUnknown,
    Harness,
}

struct History {
    steps: Vec<Value>,
    plans: Vec<Plan>,
    driver: &'static str,
    shape: Vec<String>,
}

const POOL: &[&str] = &[
    "a.txt", "sub/b.txt", "sub/deep/c.txt", "sp ace.txt", "only_in_root.txt", "new.txt", "sub/new2.txt", "nd/x/y.txt", "ünï.txt", "peer.txt",
];

fn initial_model() -> WsModel {
    let mut m = WsModel::default();
    m.put("a.txt", b"inside a\n".to_vec());
    m.put("sub/b.txt", b"inside b\n".to_vec());
    m.put("sub/deep/c.txt", b"inside c\n".to_vec());
    m.put("sp ace.txt", b"inside space\n".to_vec());
    m.put("only_in_root.txt", b"inside only\n".to_vec());
    m.dirs.insert("d".into());
    m
}

struct Gen<'a> {
    l: &'a Layout,
    rng: Rng,
    m: WsModel,
    h: History,
    /// predicted snapshots: step index -> (covered rel paths -> predicted bytes)
    snaps: BTreeMap<usize, BTreeMap<String, Option<Vec<u8>>>>,
    corrupted: BTreeSet<usize>,
    fresh: Fresh,
    serial: u32,
    token: u32,
}

impl<'a> Gen<'a> {
    fn root_s(&self) -> String {
        self.l.root.to_string_lossy().to_string()
    }
    fn push(&mut self, step: Value, plan: Plan, tag: &str) -> usize {
        self.h.steps.push(step);
        self.h.plans.push(plan);
        self.h.shape.push(tag.to_string());
        self.h.steps.len() - 1
    }
    fn render_arg(&mut self, rel: &str) -> String {
        match self.rng.below(10) {
            0..=3 => format!("{}/{rel}", self.root_s()),
            4 => format!("./{rel}"),
            _ => rel.to_string(),
        }
    }
    fn create(&mut self, forced: Option<Vec<String>>) {
        let args: Vec<String> = match forced {
            Some(a) => a,
            None => {
                let n = 1 + self.rng.usize(4);
                let mut seen = BTreeSet::new();
                let mut v = Vec::new();
                for _ in 0..n {
                    let existing: Vec<String> = self.m.files.keys().cloned().collect();
                    let rel = if !existing.is_empty() && self.rng.chance(3, 5) {
                        self.rng.pick(&existing).clone()
                    } else {
                        POOL[self.rng.usize(POOL.len())].to_string()
                    };
                    if seen.insert(rel.clone()) && !self.m.is_dir(&rel) && gp::is_clean_rel(&rel) {
                        v.push(self.render_arg(&rel));
                    }
                }
                if v.is_empty() {
                    v.push("a.txt".into());
                }
                v
            }
        };
        let mut snap = BTreeMap::new();
        for a in &args {
            if let Some(rel) = normalize(&self.l.root, a) {
                snap.insert(rel.clone(), self.m.files.get(&rel).cloned());
            }
        }
        let driver = match self.h.driver {
            "router" => "router",
            "runner" => {
                if self.rng.bool() {
                    "runner"
                } else {
                    "direct"
                }
            }
            _ => "direct",
        };
        let forms: Vec<&str> = args.iter().map(|a| if a.starts_with('/') { "abs" } else { "rel" }).collect();
        let i = self.push(
            json!({"op": "cp_create", "driver": driver, "files": args, "label": "c14"}),
            Plan::Create { args: args.clone() },
            &format!("create[{}]", forms.join(",")),
        );
        self.snaps.insert(i, snap);
    }
    fn tool_driver(&self) -> &'static str {
        if self.h.driver == "router" {
            "router"
        } else {
            "runner"
        }
    }
    fn write(&mut self, to_dir: bool) -> usize {
        self.token += 1;
        let rel = if to_dir {
            "sub".to_string()
        } else {
            let existing: Vec<String> = self.m.files.keys().cloned().collect();
            if !existing.is_empty() && self.rng.chance(2, 3) {
                self.rng.pick(&existing).clone()
            } else {
                POOL[self.rng.usize(POOL.len())].to_string()
            }
        };
        let arg = if self.rng.chance(1, 6) { format!("./{rel}") } else { rel.clone() };
        let content = format!("written {} by tool\nline two\n", self.token);
        let mut args = json!({"path": arg, "content": content});
        match self.rng.below(4) {
            0 => args["atomic"] = json!(false),
            1 => args["append"] = json!(true),
            _ => {}
        }
        let mut snap = BTreeMap::new();
        snap.insert(rel.clone(), self.m.files.get(&rel).cloned());
        let i = self.push(
            json!({"op": "tool", "driver": self.tool_driver(), "name": "write", "args": args}),
            Plan::Tool { name: "write", named: vec![rel.clone()], well_formed: true },
            if to_dir { "write_to_dir" } else { "write" },
        );
        self.snaps.insert(i, snap);
        if !to_dir && self.m.parents_ok(&rel) && !self.m.is_dir(&rel) {
            let mut bytes = if args.get("append").is_some() { self.m.files.get(&rel).cloned().unwrap_or_default() } else { Vec::new() };
            bytes.extend_from_slice(content.as_bytes());
            self.m.put(&rel, bytes);
        }
        i
    }
    fn patch(&mut self) -> usize {
        let n = 1 + self.rng.usize(3);
        let mut ops: Vec<Op> = Vec::new();
        let mut touched: Vec<String> = Vec::new();
        let mut state = self.m.clone();
        let mut shape = Shape::default();
        let mut kinds = Vec::new();
        for _ in 0..n {
            let op = gp::gen_constructive_op(&mut self.rng, &state, &touched, &mut self.fresh, &mut self.serial, &mut shape);
            if let Some(next) = gp::step(&state, &op) {
                state = next;
                touched.extend(op.named_paths());
                kinds.push(op.kind());
                ops.push(op);
            }
        }
        let well_formed = !ops.is_empty();
        // occasionally a patch that fails after its first op (rollback + auto checkpoint both in play)
        let failing = self.rng.chance(1, 8);
        if failing {
            ops.push(Op::Delete { path: "definitely-missing.txt".into() });
            touched.push("definitely-missing.txt".into());
        }
        let text = gp::render(&PatchDoc { ops }, false, true);
        let mut snap = BTreeMap::new();
        for p in &touched {
            snap.insert(p.clone(), self.m.files.get(p).cloned());
        }
        let i = self.push(
            json!({"op": "tool", "driver": self.tool_driver(), "name": "apply_patch", "args": {"patch": text}}),
            Plan::Tool { name: "apply_patch", named: touched.clone(), well_formed },
            &format!("patch[{}{}]", kinds.join("+"), if failing { "+FAIL" } else { "" }),
        );
        self.snaps.insert(i, snap);
        if !failing {
            self.m = state;
        }
        i
    }
    fn harness_edit(&mut self) {
        self.token += 1;
        let existing: Vec<String> = self.m.files.keys().cloned().collect();
        let abs = |rel: &str, root: &str| format!("{root}/{rel}");
        let root = self.root_s();
        match self.rng.below(5) {
            0 | 1 if !existing.is_empty() => {
                let rel = self.rng.pick(&existing).clone();
                self.m.files.remove(&rel);
                self.push(json!({"op": "fs_delete", "path": abs(&rel, &root)}), Plan::Harness, "delete");
            }
            2 => {
                // a directory where a file was / will be
                let rel = POOL[self.rng.usize(POOL.len())].to_string();
                if !self.m.exists(&rel) && self.m.parents_ok(&rel) {
                    self.m.add_parent_dirs(&format!("{rel}/x"));
                    self.push(json!({"op": "fs_mkdir", "path": abs(&rel, &root)}), Plan::Harness, "mkdir_at_path");
                } else {
                    let d = format!("made{}", self.token);
                    self.m.dirs.insert(d.clone());
                    self.push(json!({"op": "fs_mkdir", "path": abs(&d, &root)}), Plan::Harness, "mkdir");
                }
            }
            3 if existing.iter().any(|p| p.starts_with("sub/deep/")) || self.m.is_dir("sub/deep") => {
                // remove a whole sub-tree (covered nested paths lose their parents)
                let gone: Vec<String> = self.m.files.keys().filter(|p| p.starts_with("sub/deep/")).cloned().collect();
                for g in gone {
                    self.m.files.remove(&g);
                }
                self.m.dirs.retain(|d| d != "sub/deep" && !d.starts_with("sub/deep/"));
                self.push(json!({"op": "fs_rmtree", "path": abs("sub/deep", &root)}), Plan::Harness, "rmtree");
            }
            _ => {
                let rel = if !existing.is_empty() && self.rng.bool() {
                    self.rng.pick(&existing).clone()
                } else {
                    POOL[self.rng.usize(POOL.len())].to_string()
                };
                if self.m.parents_ok(&rel) && !self.m.is_dir(&rel) {
                    let content = format!("external edit {}\n", self.token);
                    self.m.put(&rel, content.clone().into_bytes());
                    self.push(json!({"op": "fs_write", "path": abs(&rel, &root), "text": content}), Plan::Harness, "ext_write");
                }
            }
        }
    }
    fn rewind(&mut self, target: usize, expect_fail: bool) {
        let driver = match self.h.driver {
            "router" => "router",
            "runner" => {
                if self.rng.bool() {
                    "runner"
                } else {
                    "direct"
                }
            }
            _ => "direct",
        };
        self.push(json!({"op": "cp_rewind", "driver": driver, "ref": target}), Plan::Rewind { target, expect_fail }, if expect_fail { "rewind_corrupt" } else { "rewind" });
        if !expect_fail {
            if let Some(snap) = self.snaps.get(&target).cloned() {
                for (p, b) in snap {
                    match b {
                        Some(bytes) => {
                            if self.m.parents_ok(&p) && !self.m.is_dir(&p) {
                                self.m.put(&p, bytes);
                            }
                        }
                        None => {
                            self.m.files.remove(&p);
                        }
                    }
                }
            }
        }
    }
}

fn gen_history(l: &Layout, cfg: &Cfg, idx: u64, cwd_name: &str) -> History {
    let mut rng = cfg.case_rng(idx ^ 0xC14);
    let driver = match rng.below(10) {
        0..=4 => "runner",
        5..=7 => "router",
        _ => "direct",
    };
    let mut g = Gen {
        l,
        rng,
        m: initial_model(),
        h: History { steps: Vec::new(), plans: Vec::new(), driver, shape: Vec::new() },
        snaps: BTreeMap::new(),
        corrupted: BTreeSet::new(),
        fresh: Fresh::new(),
        serial: 5000,
        token: 0,
    };
    if idx < DIRECTED {
        // directed: probe P2 and its relatives under each cwd (clean when cwd == root)
        g.h.driver = if idx == 4 { "router" } else { "runner" };
        let root = g.root_s();
        g.create(Some(vec!["a.txt".into(), "new.txt".into()])); // 0 relative: existing + missing
        g.push(json!({"op": "fs_write", "path": format!("{root}/a.txt"), "text": "edited after checkpoint\n"}), Plan::Harness, "ext_write");
        g.push(json!({"op": "fs_write", "path": format!("{root}/new.txt"), "text": "created after checkpoint\n"}), Plan::Harness, "ext_write");
        g.rewind(0, false); // 3
        g.create(Some(vec![format!("{root}/sub/b.txt"), format!("{root}/nd/x/y.txt")])); // 4 absolute
        g.push(json!({"op": "fs_delete", "path": format!("{root}/sub/b.txt")}), Plan::Harness, "delete");
        g.push(json!({"op": "fs_write", "path": format!("{root}/nd/x/y.txt"), "text": "nested new\n"}), Plan::Harness, "ext_write");
        g.rewind(4, false); // 7
        let w = g.write(false); // 8 (auto checkpoint)
        g.rewind(w, false);
        g.m = initial_model();
        let p = g.push(
            json!({"op": "tool", "driver": g.tool_driver(), "name": "apply_patch", "args": {"patch": "*** Begin Patch\n*** Update File: a.txt\n*** Move to: moved/a2.txt\n@@\n-inside a\n+patched a\n*** Delete File: sub/b.txt\n*** Add File: added.txt\n+fresh\n*** End Patch"}}),
            Plan::Tool { name: "apply_patch", named: vec!["a.txt".into(), "moved/a2.txt".into(), "sub/b.txt".into(), "added.txt".into()], well_formed: true },
            "patch[move+delete+add]",
        );
        g.rewind(p, false);
        g.write(true); // write onto a directory
        g.create(Some(vec![format!("{root}/sp ace.txt"), format!("{root}/only_in_root.txt")]));
        let c = g.h.steps.len() - 1;
        g.push(json!({"op": "fs_write", "path": format!("{root}/sp ace.txt"), "text": "changed 1\n"}), Plan::Harness, "ext_write");
        g.push(json!({"op": "fs_write", "path": format!("{root}/only_in_root.txt"), "text": "changed 2\n"}), Plan::Harness, "ext_write");
        g.push(json!({"op": "corrupt_cp", "ref": c, "how": "remove_stored"}), Plan::Harness, "corrupt_remove_stored");
        g.rewind(c, true);
        g.push(json!({"op": "cp_rewind", "driver": "runner", "id": "00000000-0000-4000-8000-00000000dead"}), Plan::RewindUnknown, "rewind_unknown");
        // a directory that shadows the tool's relative path when cwd = root/sub
        g.push(json!({"op": "fs_mkdir", "path": format!("{root}/sub/zz.txt")}), Plan::Harness, "mkdir");
        g.push(
            json!({"op": "tool", "driver": g.tool_driver(), "name": "write", "args": {"path": "zz.txt", "content": "zz\n"}}),
            Plan::Tool { name: "write", named: vec!["zz.txt".into()], well_formed: true },
            "write",
        );
        g.push(json!({"op": "fs_mkdir", "path": format!("{root}/sub/zz2.txt")}), Plan::Harness, "mkdir");
        g.push(
            json!({"op": "tool", "driver": g.tool_driver(), "name": "apply_patch", "args": {"patch": "*** Begin Patch\n*** Add File: zz2.txt\n+zz2\n*** End Patch"}}),
            Plan::Tool { name: "apply_patch", named: vec!["zz2.txt".into()], well_formed: true },
            "patch[add]",
        );
        let _ = cwd_name;
        return g.h;
    }
    let n = cfg.tier.pick(10, 14) + g.rng.usize(cfg.tier.pick(14, 30));
    g.create(None);
    while g.h.steps.len() < n {
        let cps: Vec<usize> = g.snaps.keys().cloned().filter(|k| !g.corrupted.contains(k)).collect();
        match g.rng.below(100) {
            0..=14 => g.create(None),
            15..=32 => {
                if driver == "direct" {
                    g.harness_edit();
                } else {
                    let w = g.write(false);
                    if g.rng.chance(1, 3) {
                        g.rewind(w, false);
                    }
                }
            }
            33..=36 => {
                if driver != "direct" {
                    g.write(true);
                }
            }
            37..=52 => {
                if driver == "direct" {
                    g.harness_edit();
                } else {
                    let p = g.patch();
                    if g.rng.chance(1, 3) {
                        g.rewind(p, false);
                    }
                }
            }
            53..=70 => g.harness_edit(),
            71..=90 => {
                if !cps.is_empty() {
                    let t = *g.rng.pick(&cps);
                    g.rewind(t, false);
                }
            }
            91..=95 => {
                if !cps.is_empty() {
                    let t = *g.rng.pick(&cps);
                    let how = *g.rng.pick(&["json_garbage", "json_truncate", "remove_stored", "remove_meta"]);
                    g.push(json!({"op": "corrupt_cp", "ref": t, "how": how}), Plan::Harness, &format!("corrupt_{how}"));
                    g.corrupted.insert(t);
                    g.rewind(t, true);
                }
            }
            _ => {
                let id = format!("{}-0000-4000-8000-{}", g.rng.hex(8), g.rng.hex(12));
                g.push(json!({"op": "cp_rewind", "driver": if driver == "router" { "router" } else { "runner" }, "id": id}), Plan::RewindUnknown, "rewind_unknown");
            }
        }
    }
    g.h
}

pub fn run(cfg: &Cfg) -> i32 {
    let mut r = Report::new(
        "C14",
        "exploration",
        "seeded histories of 10-40 steps (manual checkpoints over existing / missing / nested paths given relative, './'-prefixed \
         and absolute; write and constructive apply_patch(add/update/move/delete) through ToolRunner::run or the router with their \
         automatic checkpoints; raw deletes, mkdir at covered paths, sub-tree removal, external writes; rewinds to any earlier manual or \
         automatic checkpoint; unknown ids; corrupted checkpoint.json / removed stored copies) x driver (Workspace, ToolRunner + mirror \
         hook, router + real hook) x process cwd (root, outer, sibling with same-named files, sub-directory, /), one child process per \
         history; distinct = (cwd, driver, step-shape sequence); non-trivial = at least one successful rewind was judged",
    );
    r.assume("a covered path is identified by lexical resolution of the supplied path against the workspace root");
    r.assume("bytes are compared through sha256 of every regular file under the root (.rip excluded); empty directories are not judged");
    r.assume("the ToolRunner-level driver uses a line-for-line mirror of ripd's private WorkspaceCheckpointHook; the router driver uses the real one");
    let base = scratch_root().join(format!("c14-{}", cfg.shard.0));
    let _ = std::fs::create_dir_all(&base);
    if let Some(path) = &cfg.replay {
        let (seed, case) = crate::c12::read_replay(path, cfg.seed);
        let mut c2 = cfg.clone();
        c2.seed = seed;
        one_history(&c2, &mut r, &base, case);
        let _ = std::fs::remove_dir_all(&base);
        return r.finish(&c2);
    }
    let max_cases = cfg.tier.pick(4_000u64, 100_000_000u64);
    let mut case = 0u64;
    while case < max_cases && !r.over(cfg) {
        let idx = case;
        case += 1;
        if !cfg.mine(idx) {
            continue;
        }
        one_history(cfg, &mut r, &base, idx);
    }
    let _ = std::fs::remove_dir_all(&base);
    if r.counters.get("rewinds_succeeded_and_judged").copied().unwrap_or(0) == 0 && r.evaluations > 0 {
        r.fatal_inconclusive("no successful rewind was observed");
    }
    r.finish(cfg)
}

struct Recorded {
    covered: BTreeMap<String, Option<String>>, // rel path -> state at checkpoint time
    forms: BTreeMap<String, &'static str>,     // rel path -> "relative" | "absolute"
    auto: bool,
}

fn one_history(cfg: &Cfg, r: &mut Report, base: &Path, idx: u64) {
    let mut rng = cfg.case_rng(idx);
    let k = base.join(format!("k{idx}"));
    let l = build_layout(&k, &mut rng);
    let cwd_name = if idx < DIRECTED {
        CWDS[idx as usize]
    } else {
        match rng.below(20) {
            0..=6 => "root",
            7..=10 => "outer",
            11..=14 => "sibling",
            15..=17 => "subdir",
            _ => "fsroot",
        }
    };
    let cwd = cwd_path(&l, cwd_name);
    let h = gen_history(&l, cfg, idx, cwd_name);
    let spec = json!({
        "top": l.top, "root": l.root, "data": l.data, "cwd": cwd, "session": "c14-session",
        "canaries": [], "sentinels": l.sentinels, "sentinel_dirs": l.sentinel_dirs,
        "reset_root": false, "want_tree": true, "steps": h.steps,
    });
    let run = ws_child::run_child(&l.k, &spec, false, Duration::from_secs(cfg.tier.pick(60, 180)));
    let Some(doc) = run.doc else {
        r.inconclusive(&format!("history {idx} (cwd={cwd_name}): {}", run.error.unwrap_or_default()));
        let _ = std::fs::remove_dir_all(&k);
        return;
    };
    let results: Vec<Value> = doc.get("steps").and_then(|x| x.as_array()).cloned().unwrap_or_default();
    if results.len() != h.plans.len() {
        r.inconclusive(&format!("history {idx}: child returned {} of {} steps", results.len(), h.plans.len()));
    }
    let cwd_tag = if cwd_name == "root" { "cwd_eq_root" } else { "cwd_ne_root" };
    let mut prev: Tree = parse_tree(doc.get("initial_tree"));
    let mut recs: BTreeMap<usize, Recorded> = BTreeMap::new();
    let mut judged_rewinds = 0u64;
    let history_json = |upto: usize| -> Value {
        let mut v = Vec::new();
        for (i, s) in h.steps.iter().enumerate().take(upto + 1) {
            let res = results.get(i);
            v.push(json!({"i": i, "step": s, "ok": res.and_then(|x| x.get("ok")), "error": res.and_then(|x| x.get("error")),
                          "cp_files": res.and_then(|x| x.get("cp_files")), "cp_meta_files": res.and_then(|x| x.pointer("/cp_meta/files")),
                          "frame_kinds": res.and_then(|x| x.get("frame_kinds"))}));
        }
        json!(v)
    };
    for (i, (res, plan)) in results.iter().zip(h.plans.iter()).enumerate() {
        let cur = parse_tree(res.get("tree"));
        let ok = res.get("ok").and_then(|x| x.as_bool()).unwrap_or(false);
        if res.get("timed_out").and_then(|x| x.as_bool()) == Some(true) {
            r.inconclusive(&format!("history {idx} step {i}: run did not end within the watchdog"));
            break;
        }
        if let Some(why) = res.get("skipped").and_then(|x| x.as_str()) {
            r.count("steps_skipped", 1);
            if !why.contains("no checkpoint") && !why.contains("stores no file") {
                r.inconclusive(&format!("history {idx} step {i}: {why}"));
            }
            prev = cur;
            continue;
        }
        let witness = |what: &str, detail: Value| {
            json!({"case": idx, "cwd": cwd_name, "driver": h.driver, "step": i, "what": what, "detail": detail,
                   "root": l.root, "history": history_json(i)})
        };
        let frame_kinds: Vec<String> = res
            .get("frame_kinds")
            .and_then(|x| x.as_array())
            .map(|a| a.iter().filter_map(|x| x.as_str().map(|s| s.to_string())).collect())
            .unwrap_or_default();
        let cp_files: Option<Vec<String>> = res.get("cp_files").and_then(|x| x.as_array()).map(|a| a.iter().filter_map(|x| x.as_str().map(|s| s.to_string())).collect());
        match plan {
            Plan::Harness => {}
            Plan::Create { args } => {
                r.eval();
                r.count(if ok { "manual_checkpoints_created" } else { "manual_checkpoint_create_failed" }, 1);
                let ch = changed_files(&prev, &cur);
                if !ch.is_empty() {
                    r.violation(
                        &format!("C14/checkpoint_create_changed_workspace/{cwd_tag}"),
                        &format!("creating a checkpoint changed workspace files {:?}", ch),
                        witness("tree differs after cp_create", json!({"changed": ch})),
                    );
                }
                if ok {
                    let mut covered = BTreeMap::new();
                    let mut forms = BTreeMap::new();
                    for a in args {
                        if let Some(rel) = normalize(&l.root, a) {
                            covered.insert(rel.clone(), file_state(&prev, &rel));
                            forms.insert(rel, if a.starts_with('/') { "absolute" } else { "relative" });
                        }
                    }
                    recs.insert(i, Recorded { covered, forms, auto: false });
                }
            }
            Plan::Tool { name, named, well_formed } => {
                r.eval();
                r.count(&format!("tool_{name}_runs"), 1);
                let ch = changed_files(&prev, &cur);
                let pos_cp = frame_kinds.iter().position(|k| k == "checkpoint_created");
                let pos_ts = frame_kinds.iter().position(|k| k == "tool_started");
                let auto_before = matches!((pos_cp, pos_ts), (Some(a), Some(b)) if a < b) && res.get("cp_auto").and_then(|x| x.as_bool()) == Some(true);
                if auto_before {
                    r.count("auto_checkpoint_before_tool_started", 1);
                }
                let covered_list: Vec<String> = cp_files.clone().unwrap_or_default().iter().filter_map(|p| normalize(&l.root, p)).collect();
                let only_litter = !ch.is_empty() && ch.iter().all(|p| p.contains(".tmp-"));
                if only_litter && !auto_before {
                    r.violation(
                        &format!("C14/tool_changed_uncovered_path/{name}/tmp_litter"),
                        &format!("{name} (ok={ok}) left {:?} behind and no automatic checkpoint covers it (frames: {:?})", ch, frame_kinds),
                        witness("temporary file left behind by a failed write", json!({"changed": ch, "frames": frame_kinds})),
                    );
                } else if !ch.is_empty() && !auto_before {
                    r.violation(
                        &format!("C14/edit_without_auto_checkpoint/{name}/{cwd_tag}"),
                        &format!("{name} changed {:?} but no auto checkpoint_created frame precedes tool_started (frames: {:?})", ch, frame_kinds),
                        witness("edit without preceding automatic checkpoint", json!({"changed": ch, "frames": frame_kinds})),
                    );
                }
                if auto_before {
                    if *well_formed {
                        let missing: Vec<&String> = named.iter().filter(|p| !covered_list.contains(p)).collect();
                        if !missing.is_empty() {
                            r.violation(
                                &format!("C14/auto_checkpoint_misses_named_path/{name}"),
                                &format!("auto checkpoint of {name} lists {:?} but the invocation names {:?}", covered_list, named),
                                witness("file list does not cover every named path", json!({"missing": missing})),
                            );
                        }
                    }
                    let uncovered: Vec<&String> = ch.iter().filter(|p| !covered_list.contains(p)).collect();
                    if !uncovered.is_empty() {
                        let litter = uncovered.iter().all(|p| p.contains(".tmp-"));
                        r.violation(
                            &format!("C14/tool_changed_uncovered_path/{name}{}", if litter { "/tmp_litter" } else { "" }),
                            &format!("{name} changed {:?} which its automatic checkpoint {:?} does not cover (tool ok={ok})", uncovered, covered_list),
                            witness("tool changed a path outside its automatic checkpoint", json!({"uncovered": uncovered, "covered": covered_list})),
                        );
                    }
                    let mut covered = BTreeMap::new();
                    let mut forms = BTreeMap::new();
                    for rel in &covered_list {
                        covered.insert(rel.clone(), file_state(&prev, rel));
                        forms.insert(rel.clone(), "relative");
                    }
                    recs.insert(i, Recorded { covered, forms, auto: true });
                } else if !ch.is_empty() {
                    // already reported
                } else if frame_kinds.iter().any(|k| k == "checkpoint_failed") {
                    r.count("auto_checkpoint_failed_and_tool_changed_nothing", 1);
                    // a failed tool may still leave litter
                }
                if !ok && !ch.is_empty() {
                    let litter = ch.iter().all(|p| p.contains(".tmp-"));
                    r.count(if litter { "failed_write_left_tmp_file" } else { "failed_tool_changed_tree" }, 1);
                }
            }
            Plan::Rewind { target, expect_fail } => {
                r.eval();
                let Some(rec) = recs.get(target) else {
                    // the checkpoint step did not produce a checkpoint: a rewind cannot have been issued
                    r.count("rewind_of_absent_checkpoint", 1);
                    prev = cur;
                    continue;
                };
                let kind = if rec.auto { "auto" } else { "manual" };
                if ok {
                    judged_rewinds += 1;
                    r.count("rewinds_succeeded_and_judged", 1);
                    r.count("covered_paths_compared", rec.covered.len() as u64);
                    if *expect_fail {
                        r.count("rewind_of_corrupted_checkpoint_succeeded", 1);
                    }
                    let mut reported = false;
                    for (p, want) in &rec.covered {
                        let got = file_state(&cur, p);
                        if &got != want {
                            let form = rec.forms.get(p).copied().unwrap_or("relative");
                            let how = match (want, &got) {
                                (Some(_), None) => "file that existed at the checkpoint is absent after rewind",
                                (None, Some(_)) => "file that did not exist at the checkpoint is present after rewind",
                                _ => "file has different bytes than at the checkpoint",
                            };
                            r.violation(
                                &format!("C14/rewind_mismatch/{kind}/{form}/{cwd_tag}"),
                                &format!("after a successful rewind to a {kind} checkpoint {p:?} ({form} path, cwd={cwd_name}): {how}"),
                                witness(how, json!({"path": p, "sha_at_checkpoint": want, "sha_after_rewind": got, "sha_before_rewind": file_state(&prev, p),
                                                    "checkpoint_step": target, "stored_meta": results.get(*target).and_then(|x| x.pointer("/cp_meta/files"))})),
                            );
                            reported = true;
                            break;
                        }
                    }
                    if !reported {
                        let touched: Vec<String> = changed_files(&prev, &cur).into_iter().filter(|p| !rec.covered.contains_key(p)).collect();
                        if !touched.is_empty() {
                            r.violation(
                                &format!("C14/rewind_touched_uncovered/{kind}/{cwd_tag}"),
                                &format!("rewind to a {kind} checkpoint changed uncovered paths {:?}", touched),
                                witness("uncovered path changed by rewind", json!({"touched": touched, "covered": rec.covered.keys().collect::<Vec<_>>()})),
                            );
                        }
                    }
                } else {
                    r.count("rewinds_failed", 1);
                    if *expect_fail {
                        r.count("corrupted_checkpoint_rewinds_failed_as_expected", 1);
                    }
                    let ch = changed_files(&prev, &cur);
                    if !ch.is_empty() {
                        r.violation(
                            &format!("C14/failed_rewind_changed_tree/{kind}/{cwd_tag}"),
                            &format!("rewind reported failure ({}) but workspace files changed: {:?}", trunc(res.get("error").and_then(|x| x.as_str()).unwrap_or(""), 120), ch),
                            witness("tree differs after a failed rewind", json!({"changed": ch})),
                        );
                    } else {
                        r.count("failed_rewinds_left_tree_identical", 1);
                    }
                }
            }
            Plan::RewindUnknown => {
                r.eval();
                let ch = changed_files(&prev, &cur);
                if ok || !ch.is_empty() {
                    r.violation(
                        "C14/unknown_checkpoint_id",
                        &format!("rewind to an unknown id: ok={ok}, changed files {:?}", ch),
                        witness("unknown id", json!({"changed": ch})),
                    );
                } else {
                    r.count("unknown_id_rewinds_failed_cleanly", 1);
                }
            }
        }
        prev = cur;
    }
    if judged_rewinds > 0 {
        r.distinct_str(&format!("{cwd_name}|{}|{}", h.driver, h.shape.join(">")));
    }
    r.count(&format!("histories_cwd_{cwd_name}"), 1);
    r.count(&format!("histories_driver_{}", h.driver), 1);
    r.count("steps_executed", results.len() as u64);
    if idx >= DIRECTED && r.samples.len() < r.max_samples {
        r.sample(json!({"case": idx, "cwd": cwd_name, "driver": h.driver, "shape": h.shape, "judged_rewinds": judged_rewinds}));
    }
    let _ = std::fs::remove_dir_all(&k);
}
