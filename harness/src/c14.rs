//! C14 — rewind restores exactly the checkpointed files, from any later state and any cwd.
//!
//! Model: at every checkpoint (manual or automatic) the harness records, for every covered path
//! *resolved lexically against the workspace root*, `Some(sha256)` or `None`, taken from the real tree
//! just before the checkpoint. Histories (checkpoint sets with existing / missing / nested paths given
//! relative and absolute; write / apply_patch(add, update, move, delete) through `ToolRunner::run` or
//! the router; raw deletes / mkdirs / external writes; several checkpoints and rewinds in arbitrary
//! order; unknown ids, corrupted `checkpoint.json`, removed stored copies) run in a child process per
//! configuration (`rv c13-child`; cwd = root / outer / sibling with same-named files / sub-directory / "/").
//!
//! File size and inode identity: the initial workspace and the contents written by the `write` tool / external edits mix
//! the tiny files with line-structured files of 4 KiB, 64 KiB-1, 64 KiB, 64 KiB+1, 200 KiB and 1 MiB; between a checkpoint
//! and its rewind the covered files are edited in place (write append / atomic:false, apply_patch update and update+move,
//! external truncate+rewrite, external append) and by replacement (atomic write, external rename-over).
//!
//! Oracle (on the real trees the child reports after every step):
//!  * after every step no file below `.rip/checkpoints` has a hard link outside the store (st_dev + st_ino + st_nlink):
//!    a stored copy that shares its inode with a workspace file is rewritten by the next in-place edit;
//!  * creating a checkpoint does not change the workspace;
//!  * successful rewind: every covered path matches its record, every other path is untouched;
//!  * failed rewind: the whole tree (files) is identical to before;
//!  * write / apply_patch via ToolRunner::run: when the invocation is well-formed an auto
//!    `checkpoint_created` frame precedes `tool_started`, its file list covers every named path, every
//!    path the tool really changed is covered, and rewinding to it restores the recorded state.

use crate::c12::gen_patch::{self as gp, Fresh, Op, PatchDoc, Shape, WsModel};
use crate::c13::{build_layout, cwd_path, trunc, ws_child, Layout, CWDS};
use crate::fixture::scratch_root;
use crate::prng::Rng;
use crate::report::{Cfg, Report};
use serde_json::{json, Value};
use std::collections::{BTreeMap, BTreeSet};
use std::path::{Component, Path};
use std::time::Duration;

const DIRECTED: u64 = 5;

type Tree = BTreeMap<String, (String, String)>; // path -> (kind, sha)

fn parse_tree(v: Option<&Value>) -> Tree {
    let mut t = Tree::new();
    if let Some(m) = v.and_then(|x| x.as_object()) {
        for (p, e) in m {
            let kind = e.get(0).and_then(|x| x.as_str()).unwrap_or("?").to_string();
            let sha = e.get(1).and_then(|x| x.as_str()).unwrap_or("").to_string();
            t.insert(p.clone(), (kind, sha));
        }
    }
    t
}

/// file state of a path: Some(sha) for a regular file, None when absent (or a directory)
fn file_state(t: &Tree, p: &str) -> Option<String> {
    match t.get(p) {
        Some((k, sha)) if k == "f" => Some(sha.clone()),
        _ => None,
    }
}

fn files_only(t: &Tree) -> BTreeMap<&String, &String> {
    t.iter().filter(|(_, (k, _))| k == "f").map(|(p, (_, s))| (p, s)).collect()
}

fn changed_files(a: &Tree, b: &Tree) -> BTreeSet<String> {
    let (fa, fb) = (files_only(a), files_only(b));
    let mut out = BTreeSet::new();
    for (p, s) in &fa {
        if fb.get(*p) != Some(s) {
            out.insert((*p).clone());
        }
    }
    for p in fb.keys() {
        if !fa.contains_key(*p) {
            out.insert((*p).clone());
        }
    }
    out
}

/// Lexical resolution of a checkpoint / tool path against the workspace root.
fn normalize(root: &Path, arg: &str) -> Option<String> {
    let p = Path::new(arg);
    let rel = if p.is_absolute() { p.strip_prefix(root).ok()?.to_path_buf() } else { p.to_path_buf() };
    let mut parts: Vec<String> = Vec::new();
    for c in rel.components() {
        match c {
            Component::Normal(s) => parts.push(s.to_string_lossy().to_string()),
            Component::CurDir => {}
            _ => return None,
        }
    }
    Some(parts.join("/"))
}

#[derive(Clone, Debug)]
enum Plan {
    /// manual checkpoint; (arg string, is_absolute)
    Create { args: Vec<String> },
    /// write / apply_patch through the tool runner (auto checkpoint); named = paths the invocation names
    Tool { name: &'static str, named: Vec<String>, well_formed: bool },
    Rewind { target: usize, expect_fail: bool },
    RewindUnknown,
    Harness,
}

struct History {
    steps: Vec<Value>,
    plans: Vec<Plan>,
    driver: &'static str,
    shape: Vec<String>,
    /// large files of the initial workspace: (rel path, generator seed, bytes)
    initial_big: Vec<(String, u64, usize)>,
}

/// sizes around plausible copy / link / buffer thresholds
const SIZES: &[usize] = &[4096, 65535, 65536, 65537, 200 * 1024, 1 << 20];
const BIG_PATHS: &[&str] = &["big/f0.txt", "sub/big1.txt", "big file 2.txt"];

fn size_tag(n: u64) -> &'static str {
    match n {
        0..=4095 => "lt_4k",
        4096..=65534 => "4k_to_64k-2",
        65535 => "64k-1",
        65536 => "64k",
        65537 => "64k+1",
        65538..=1048575 => "gt_64k+1",
        _ => "ge_1m",
    }
}

const POOL: &[&str] = &[
    "a.txt", "sub/b.txt", "sub/deep/c.txt", "sp ace.txt", "only_in_root.txt", "new.txt", "sub/new2.txt", "nd/x/y.txt", "ünï.txt", "peer.txt",
    // legal Unix names that path-normalising code may treat specially
    "notes\\draft.txt", "sub/b\\c.txt", "dot..dot.txt",
];

fn initial_model() -> WsModel {
    let mut m = WsModel::default();
    m.put("a.txt", b"inside a\n".to_vec());
    m.put("sub/b.txt", b"inside b\n".to_vec());
    m.put("sub/deep/c.txt", b"inside c\n".to_vec());
    m.put("sp ace.txt", b"inside space\n".to_vec());
    m.put("only_in_root.txt", b"inside only\n".to_vec());
    m.put("notes\\draft.txt", b"inside backslash name\n".to_vec());
    m.dirs.insert("d".into());
    m
}

struct Gen<'a> {
    l: &'a Layout,
    rng: Rng,
    m: WsModel,
    h: History,
    /// predicted snapshots: step index -> (covered rel paths -> predicted bytes)
    snaps: BTreeMap<usize, BTreeMap<String, Option<Vec<u8>>>>,
    corrupted: BTreeSet<usize>,
    fresh: Fresh,
    serial: u32,
    token: u32,
}

impl<'a> Gen<'a> {
    fn root_s(&self) -> String {
        self.l.root.to_string_lossy().to_string()
    }
    fn push(&mut self, step: Value, plan: Plan, tag: &str) -> usize {
        self.h.steps.push(step);
        self.h.plans.push(plan);
        self.h.shape.push(tag.to_string());
        self.h.steps.len() - 1
    }
    fn render_arg(&mut self, rel: &str) -> String {
        match self.rng.below(10) {
            0..=3 => format!("{}/{rel}", self.root_s()),
            4 => format!("./{rel}"),
            _ => rel.to_string(),
        }
    }
    fn create(&mut self, forced: Option<Vec<String>>) {
        let args: Vec<String> = match forced {
            Some(a) => a,
            None => {
                let n = 1 + self.rng.usize(4);
                let mut seen = BTreeSet::new();
                let mut v = Vec::new();
                for _ in 0..n {
                    let existing: Vec<String> = self.m.files.keys().cloned().collect();
                    let rel = if !existing.is_empty() && self.rng.chance(3, 5) {
                        self.rng.pick(&existing).clone()
                    } else {
                        POOL[self.rng.usize(POOL.len())].to_string()
                    };
                    if seen.insert(rel.clone()) && !self.m.is_dir(&rel) && gp::is_clean_rel(&rel) {
                        v.push(self.render_arg(&rel));
                    }
                }
                if v.is_empty() {
                    v.push("a.txt".into());
                }
                v
            }
        };
        let mut snap = BTreeMap::new();
        for a in &args {
            if let Some(rel) = normalize(&self.l.root, a) {
                snap.insert(rel.clone(), self.m.files.get(&rel).cloned());
            }
        }
        let driver = match self.h.driver {
            "router" => "router",
            "runner" => {
                if self.rng.bool() {
                    "runner"
                } else {
                    "direct"
                }
            }
            _ => "direct",
        };
        let forms: Vec<&str> = args.iter().map(|a| if a.starts_with('/') { "abs" } else { "rel" }).collect();
        let i = self.push(
            json!({"op": "cp_create", "driver": driver, "files": args, "label": "c14"}),
            Plan::Create { args: args.clone() },
            &format!("create[{}]", forms.join(",")),
        );
        self.snaps.insert(i, snap);
    }
    fn tool_driver(&self) -> &'static str {
        if self.h.driver == "router" {
            "router"
        } else {
            "runner"
        }
    }
    /// a size for generated content: `tool` contents stay <= 200 KiB (they travel inside an input envelope)
    fn pick_size(&mut self, tool: bool) -> usize {
        match self.rng.below(if tool { 14 } else { 15 }) {
            0 | 1 => SIZES[0],
            2..=4 => SIZES[1],
            5..=8 => SIZES[2],
            9..=11 => SIZES[3],
            12 | 13 => SIZES[4],
            _ => SIZES[5],
        }
    }
    fn big_files(&self) -> Vec<String> {
        self.m.files.iter().filter(|(_, b)| b.len() >= 4096).map(|(p, _)| p.clone()).collect()
    }
    /// an existing file, biased towards the large ones
    fn pick_existing(&mut self) -> Option<String> {
        let big = self.big_files();
        if !big.is_empty() && self.rng.chance(1, 2) {
            return Some(self.rng.pick(&big).clone());
        }
        let existing: Vec<String> = self.m.files.keys().cloned().collect();
        if existing.is_empty() {
            None
        } else {
            Some(self.rng.pick(&existing).clone())
        }
    }
    fn write(&mut self, to_dir: bool) -> usize {
        let rel = if to_dir {
            "sub".to_string()
        } else {
            match self.pick_existing() {
                Some(p) if self.rng.chance(2, 3) => p,
                _ => POOL[self.rng.usize(POOL.len())].to_string(),
            }
        };
        let mode = match self.rng.below(4) {
            0 => "nonatomic",
            1 => "append",
            _ => "atomic",
        };
        let big = if !to_dir && self.rng.chance(1, 4) { Some(self.pick_size(true)) } else { None };
        self.write_to(&rel, mode, big, to_dir)
    }
    /// `write` through the tool runner / router: mode = atomic (default: new file renamed over the old one) |
    /// nonatomic (atomic:false, in place) | append (append:true, in place); `big` = generated content of that many bytes
    fn write_to(&mut self, rel: &str, mode: &str, big: Option<usize>, to_dir: bool) -> usize {
        self.token += 1;
        let rel = rel.to_string();
        let arg = if self.rng.chance(1, 6) { format!("./{rel}") } else { rel.clone() };
        let mut args = json!({"path": arg});
        let mut step = json!({"op": "tool", "driver": self.tool_driver(), "name": "write"});
        let content: Vec<u8> = match big {
            Some(n) => {
                let seed = 0x5700 + self.token as u64;
                step["content_gen"] = json!({"seed": seed, "bytes": n});
                ws_child::gen_content(seed, n)
            }
            None => {
                let c = format!("written {} by tool\nline two\n", self.token);
                args["content"] = json!(c);
                c.into_bytes()
            }
        };
        match mode {
            "nonatomic" => args["atomic"] = json!(false),
            "append" => args["append"] = json!(true),
            _ => {}
        }
        step["args"] = args;
        let mut snap = BTreeMap::new();
        snap.insert(rel.clone(), self.m.files.get(&rel).cloned());
        let tag = if to_dir {
            "write_to_dir".to_string()
        } else {
            format!("write_{mode}{}{}", if big.is_some() { "_bigcontent" } else { "" }, if self.m.files.get(&rel).map(|b| b.len() >= 4096).unwrap_or(false) { "_on_big" } else { "" })
        };
        let i = self.push(step, Plan::Tool { name: "write", named: vec![rel.clone()], well_formed: true }, &tag);
        self.snaps.insert(i, snap);
        if !to_dir && self.m.parents_ok(&rel) && !self.m.is_dir(&rel) {
            let mut bytes = if mode == "append" { self.m.files.get(&rel).cloned().unwrap_or_default() } else { Vec::new() };
            bytes.extend_from_slice(&content);
            self.m.put(&rel, bytes);
        }
        i
    }
    /// apply_patch with one Update (optionally + Move) of `rel`, hunks cut from the model's lines (the patch stays small
    /// whatever the file size). None when the model's file does not qualify.
    fn update_patch(&mut self, rel: &str, move_to: Option<String>) -> Option<usize> {
        let text = gp::decode_text(self.m.files.get(rel)?)?;
        if !text.single_style || text.lines.is_empty() {
            return None;
        }
        let (hunks, _, _) = gp::gen_hunks(&mut self.rng, &text.lines, &mut self.serial);
        let op = Op::Update { path: rel.to_string(), move_to: move_to.clone(), hunks };
        let next = gp::step(&self.m, &op)?;
        let touched = op.named_paths();
        let kind = op.kind();
        let text = gp::render(&PatchDoc { ops: vec![op] }, false, true);
        let mut snap = BTreeMap::new();
        for p in &touched {
            snap.insert(p.clone(), self.m.files.get(p).cloned());
        }
        let on_big = self.m.files.get(rel).map(|b| b.len() >= 4096).unwrap_or(false);
        let i = self.push(
            json!({"op": "tool", "driver": self.tool_driver(), "name": "apply_patch", "args": {"patch": text}}),
            Plan::Tool { name: "apply_patch", named: touched, well_formed: true },
            &format!("patch[{kind}]{}", if on_big { "_on_big" } else { "" }),
        );
        self.snaps.insert(i, snap);
        self.m = next;
        Some(i)
    }
    /// edit from outside the system: "inplace" (truncate + rewrite the same inode), "append" (same inode, keeps the
    /// bytes), "replace" (new file renamed over the old one)
    fn ext_edit(&mut self, rel: &str, how: &str, big: Option<usize>) {
        self.token += 1;
        if !self.m.parents_ok(rel) || self.m.is_dir(rel) || (how == "append" && !self.m.is_file(rel)) {
            return;
        }
        let path = format!("{}/{rel}", self.root_s());
        let op = match how {
            "append" => "fs_append",
            "replace" => "fs_replace",
            _ => "fs_write",
        };
        let mut step = json!({"op": op, "path": path});
        let content: Vec<u8> = match big {
            Some(n) => {
                let seed = 0xE000 + self.token as u64;
                step["gen"] = json!({"seed": seed, "bytes": n});
                ws_child::gen_content(seed, n)
            }
            None => {
                let c = format!("external edit {}\n", self.token);
                step["text"] = json!(c);
                c.into_bytes()
            }
        };
        let on_big = self.m.files.get(rel).map(|b| b.len() >= 4096).unwrap_or(false);
        let mut bytes = if how == "append" { self.m.files.get(rel).cloned().unwrap_or_default() } else { Vec::new() };
        bytes.extend_from_slice(&content);
        self.m.put(rel, bytes);
        let tag = format!("ext_{}{}{}", if how == "inplace" { "write" } else { how }, if big.is_some() { "_bigcontent" } else { "" }, if on_big { "_on_big" } else { "" });
        self.push(step, Plan::Harness, &tag);
    }
    fn patch(&mut self) -> usize {
        let big = self.big_files();
        if !big.is_empty() && self.rng.chance(1, 3) {
            let rel = self.rng.pick(&big).clone();
            let move_to = if self.rng.chance(1, 3) { Some(self.fresh.path(&mut self.rng, &self.m)) } else { None };
            if let Some(i) = self.update_patch(&rel, move_to) {
                return i;
            }
        }
        let n = 1 + self.rng.usize(3);
        let mut ops: Vec<Op> = Vec::new();
        let mut touched: Vec<String> = Vec::new();
        let mut state = self.m.clone();
        let mut shape = Shape::default();
        let mut kinds = Vec::new();
        for _ in 0..n {
            let op = gp::gen_constructive_op(&mut self.rng, &state, &touched, &mut self.fresh, &mut self.serial, &mut shape);
            if let Some(next) = gp::step(&state, &op) {
                state = next;
                touched.extend(op.named_paths());
                kinds.push(op.kind());
                ops.push(op);
            }
        }
        let well_formed = !ops.is_empty();
        // occasionally a patch that fails after its first op (rollback + auto checkpoint both in play)
        let failing = self.rng.chance(1, 8);
        if failing {
            ops.push(Op::Delete { path: "definitely-missing.txt".into() });
            touched.push("definitely-missing.txt".into());
        }
        let mut text = gp::render(&PatchDoc { ops }, false, true);
        // the same document as the model might really send it: white space / BOM around the envelope. Whether such a
        // text is accepted is the tool's business (the judge looks at what really happened to the tree): what matters
        // is that the automatic checkpoint and the tool agree on it. The generator's model treats it as not applied.
        let padded = well_formed && self.rng.chance(1, 5);
        if padded {
            let lead = ["\n", " ", "\t", "\r\n", "\n\n  ", "\u{feff}", ""][self.rng.usize(7)];
            let trail = ["", "  ", "\n\n", " \n", "\r\n", "\t"][self.rng.usize(6)];
            let body = text.trim_end_matches('\n').to_string();
            text = format!("{lead}{body}{trail}");
        }
        let well_formed = well_formed && !padded;
        let mut snap = BTreeMap::new();
        for p in &touched {
            snap.insert(p.clone(), self.m.files.get(p).cloned());
        }
        let i = self.push(
            json!({"op": "tool", "driver": self.tool_driver(), "name": "apply_patch", "args": {"patch": text}}),
            Plan::Tool { name: "apply_patch", named: touched.clone(), well_formed },
            &format!("patch[{}{}{}]", kinds.join("+"), if failing { "+FAIL" } else { "" }, if padded { "+PAD" } else { "" }),
        );
        self.snaps.insert(i, snap);
        if !failing && !padded {
            self.m = state;
        }
        i
    }
    fn harness_edit(&mut self) {
        self.token += 1;
        let existing: Vec<String> = self.m.files.keys().cloned().collect();
        let abs = |rel: &str, root: &str| format!("{root}/{rel}");
        let root = self.root_s();
        match self.rng.below(9) {
            5 | 6 | 7 | 8 => {
                // in-place / appending / replacing edits from outside, biased towards large files and large contents
                let rel = match self.pick_existing() {
                    Some(p) if self.rng.chance(3, 4) => p,
                    _ => POOL[self.rng.usize(POOL.len())].to_string(),
                };
                let how = *self.rng.pick(&["inplace", "append", "append", "replace"]);
                let big = if self.rng.chance(1, 3) { Some(self.pick_size(false)) } else { None };
                self.ext_edit(&rel, how, big);
            }
            0 | 1 if !existing.is_empty() => {
                let rel = self.rng.pick(&existing).clone();
                self.m.files.remove(&rel);
                self.push(json!({"op": "fs_delete", "path": abs(&rel, &root)}), Plan::Harness, "delete");
            }
            2 => {
                // a directory where a file was / will be
                let rel = POOL[self.rng.usize(POOL.len())].to_string();
                if !self.m.exists(&rel) && self.m.parents_ok(&rel) {
                    self.m.add_parent_dirs(&format!("{rel}/x"));
                    self.push(json!({"op": "fs_mkdir", "path": abs(&rel, &root)}), Plan::Harness, "mkdir_at_path");
                } else {
                    let d = format!("made{}", self.token);
                    self.m.dirs.insert(d.clone());
                    self.push(json!({"op": "fs_mkdir", "path": abs(&d, &root)}), Plan::Harness, "mkdir");
                }
            }
            3 if existing.iter().any(|p| p.starts_with("sub/deep/")) || self.m.is_dir("sub/deep") => {
                // remove a whole sub-tree (covered nested paths lose their parents)
                let gone: Vec<String> = self.m.files.keys().filter(|p| p.starts_with("sub/deep/")).cloned().collect();
                for g in gone {
                    self.m.files.remove(&g);
                }
                self.m.dirs.retain(|d| d != "sub/deep" && !d.starts_with("sub/deep/"));
                self.push(json!({"op": "fs_rmtree", "path": abs("sub/deep", &root)}), Plan::Harness, "rmtree");
            }
            _ => {
                let rel = if !existing.is_empty() && self.rng.bool() {
                    self.rng.pick(&existing).clone()
                } else {
                    POOL[self.rng.usize(POOL.len())].to_string()
                };
                if self.m.parents_ok(&rel) && !self.m.is_dir(&rel) {
                    let content = format!("external edit {}\n", self.token);
                    self.m.put(&rel, content.clone().into_bytes());
                    self.push(json!({"op": "fs_write", "path": abs(&rel, &root), "text": content}), Plan::Harness, "ext_write");
                }
            }
        }
    }
    fn rewind(&mut self, target: usize, expect_fail: bool) {
        let driver = match self.h.driver {
            "router" => "router",
            "runner" => {
                if self.rng.bool() {
                    "runner"
                } else {
                    "direct"
                }
            }
            _ => "direct",
        };
        self.push(json!({"op": "cp_rewind", "driver": driver, "ref": target}), Plan::Rewind { target, expect_fail }, if expect_fail { "rewind_corrupt" } else { "rewind" });
        if !expect_fail {
            if let Some(snap) = self.snaps.get(&target).cloned() {
                for (p, b) in snap {
                    match b {
                        Some(bytes) => {
                            if self.m.parents_ok(&p) && !self.m.is_dir(&p) {
                                self.m.put(&p, bytes);
                            }
                        }
                        None => {
                            self.m.files.remove(&p);
                        }
                    }
                }
            }
        }
    }
}

fn gen_history(l: &Layout, cfg: &Cfg, idx: u64, cwd_name: &str) -> History {
    let mut rng = cfg.case_rng(idx ^ 0xC14);
    let driver = match rng.below(10) {
        0..=4 => "runner",
        5..=7 => "router",
        _ => "direct",
    };
    let mut g = Gen {
        l,
        rng,
        m: initial_model(),
        h: History { steps: Vec::new(), plans: Vec::new(), driver, shape: Vec::new(), initial_big: Vec::new() },
        snaps: BTreeMap::new(),
        corrupted: BTreeSet::new(),
        fresh: Fresh::new(),
        serial: 5000,
        token: 0,
    };
    // large files of the initial workspace, next to the tiny ones (1 MiB is the rarest: it is re-hashed after every step)
    if idx >= DIRECTED {
        let n = g.rng.usize(4);
        for (j, rel) in BIG_PATHS.iter().enumerate().take(n) {
            let bytes = match g.rng.below(16) {
                0 | 1 => SIZES[0],
                2..=4 => SIZES[1],
                5..=8 => SIZES[2],
                9..=11 => SIZES[3],
                12..=14 => SIZES[4],
                _ => SIZES[5],
            };
            let seed = 0xB160 + j as u64 + (idx << 8);
            g.m.put(rel, ws_child::gen_content(seed, bytes));
            g.h.initial_big.push((rel.to_string(), seed, bytes));
        }
    }
    if idx < DIRECTED {
        // directed: probe P2 and its relatives under each cwd (clean when cwd == root)
        g.h.driver = if idx == 4 { "router" } else { "runner" };
        let root = g.root_s();
        g.create(Some(vec!["a.txt".into(), "new.txt".into()])); // 0 relative: existing + missing
        g.push(json!({"op": "fs_write", "path": format!("{root}/a.txt"), "text": "edited after checkpoint\n"}), Plan::Harness, "ext_write");
        g.push(json!({"op": "fs_write", "path": format!("{root}/new.txt"), "text": "created after checkpoint\n"}), Plan::Harness, "ext_write");
        g.rewind(0, false); // 3
        g.create(Some(vec![format!("{root}/sub/b.txt"), format!("{root}/nd/x/y.txt")])); // 4 absolute
        g.push(json!({"op": "fs_delete", "path": format!("{root}/sub/b.txt")}), Plan::Harness, "delete");
        g.push(json!({"op": "fs_write", "path": format!("{root}/nd/x/y.txt"), "text": "nested new\n"}), Plan::Harness, "ext_write");
        g.rewind(4, false); // 7
        let w = g.write(false); // 8 (auto checkpoint)
        g.rewind(w, false);
        g.m = initial_model();
        let p = g.push(
            json!({"op": "tool", "driver": g.tool_driver(), "name": "apply_patch", "args": {"patch": "*** Begin Patch\n*** Update File: a.txt\n*** Move to: moved/a2.txt\n@@\n-inside a\n+patched a\n*** Delete File: sub/b.txt\n*** Add File: added.txt\n+fresh\n*** End Patch"}}),
            Plan::Tool { name: "apply_patch", named: vec!["a.txt".into(), "moved/a2.txt".into(), "sub/b.txt".into(), "added.txt".into()], well_formed: true },
            "patch[move+delete+add]",
        );
        g.rewind(p, false);
        g.write(true); // write onto a directory
        g.create(Some(vec![format!("{root}/sp ace.txt"), format!("{root}/only_in_root.txt")]));
        let c = g.h.steps.len() - 1;
        g.push(json!({"op": "fs_write", "path": format!("{root}/sp ace.txt"), "text": "changed 1\n"}), Plan::Harness, "ext_write");
        g.push(json!({"op": "fs_write", "path": format!("{root}/only_in_root.txt"), "text": "changed 2\n"}), Plan::Harness, "ext_write");
        g.push(json!({"op": "corrupt_cp", "ref": c, "how": "remove_stored"}), Plan::Harness, "corrupt_remove_stored");
        g.rewind(c, true);
        g.push(json!({"op": "cp_rewind", "driver": "runner", "id": "00000000-0000-4000-8000-00000000dead"}), Plan::RewindUnknown, "rewind_unknown");
        // a directory that shadows the tool's relative path when cwd = root/sub
        g.push(json!({"op": "fs_mkdir", "path": format!("{root}/sub/zz.txt")}), Plan::Harness, "mkdir");
        g.push(
            json!({"op": "tool", "driver": g.tool_driver(), "name": "write", "args": {"path": "zz.txt", "content": "zz\n"}}),
            Plan::Tool { name: "write", named: vec!["zz.txt".into()], well_formed: true },
            "write",
        );
        g.push(json!({"op": "fs_mkdir", "path": format!("{root}/sub/zz2.txt")}), Plan::Harness, "mkdir");
        g.push(
            json!({"op": "tool", "driver": g.tool_driver(), "name": "apply_patch", "args": {"patch": "*** Begin Patch\n*** Add File: zz2.txt\n+zz2\n*** End Patch"}}),
            Plan::Tool { name: "apply_patch", named: vec!["zz2.txt".into()], well_formed: true },
            "patch[add]",
        );
        let _ = cwd_name;
        // file size x edit mode: for two sizes per directed history, every way of changing a covered file between the
        // checkpoint (manual and automatic) and the rewind
        for (k, bytes) in [SIZES[idx as usize % SIZES.len()], SIZES[(idx as usize + 3) % SIZES.len()]].into_iter().enumerate() {
            let rel = format!("big/d{k}.txt");
            g.m.add_parent_dirs(&rel);
            g.ext_edit(&rel, "inplace", Some(bytes)); // creates the file
            g.create(Some(vec![rel.clone()]));
            let c = g.h.steps.len() - 1;
            g.ext_edit(&rel, "append", None);
            g.rewind(c, false);
            let w = g.write_to(&rel, "append", None, false);
            g.rewind(w, false);
            let w = g.write_to(&rel, "nonatomic", Some(bytes + 1), false);
            g.rewind(w, false);
            if let Some(p) = g.update_patch(&rel, None) {
                g.rewind(p, false);
            }
            if let Some(p) = g.update_patch(&rel, Some(format!("big/moved{k}.txt"))) {
                g.rewind(p, false);
            }
            g.create(Some(vec![format!("{root}/{rel}")]));
            let c = g.h.steps.len() - 1;
            g.ext_edit(&rel, "replace", None);
            g.rewind(c, false);
            g.create(Some(vec![format!("./{rel}")]));
            let c = g.h.steps.len() - 1;
            g.ext_edit(&rel, "inplace", None);
            g.rewind(c, false);
            let w = g.write_to(&rel, "atomic", Some(SIZES[1]), false);
            g.rewind(w, false);
            // a rewind that fails half-way, after the entry of a file that did not exist at the checkpoint (and exists
            // now): the stored copy of the later entry is gone …
            let absent = format!("big/absent{k}.txt");
            g.create(Some(vec![absent.clone(), rel.clone()]));
            let c = g.h.steps.len() - 1;
            g.ext_edit(&absent, "inplace", None);
            g.push(json!({"op": "corrupt_cp", "ref": c, "how": "remove_stored"}), Plan::Harness, "corrupt_remove_stored");
            g.corrupted.insert(c);
            g.rewind(c, true);
            // … or the later entry's path has become a directory since (pure edit history, no fault)
            let (absent, y) = (format!("big/absent{k}b.txt"), format!("big/y{k}.txt"));
            g.ext_edit(&y, "inplace", None);
            g.create(Some(vec![absent.clone(), y.clone()]));
            let c = g.h.steps.len() - 1;
            g.ext_edit(&absent, "inplace", None);
            g.m.files.remove(&y);
            g.push(json!({"op": "fs_delete", "path": format!("{root}/{y}")}), Plan::Harness, "delete");
            g.m.dirs.insert(y.clone());
            g.push(json!({"op": "fs_mkdir", "path": format!("{root}/{y}")}), Plan::Harness, "mkdir_at_path");
            g.rewind(c, true);
        }
        return g.h;
    }
    let n = cfg.tier.pick(10, 14) + g.rng.usize(cfg.tier.pick(14, 30));
    g.create(None);
    while g.h.steps.len() < n {
        let cps: Vec<usize> = g.snaps.keys().cloned().filter(|k| !g.corrupted.contains(k)).collect();
        match g.rng.below(100) {
            0..=14 => g.create(None),
            15..=32 => {
                if driver == "direct" {
                    g.harness_edit();
                } else {
                    let w = g.write(false);
                    if g.rng.chance(1, 3) {
                        g.rewind(w, false);
                    }
                }
            }
            33..=36 => {
                if driver != "direct" {
                    g.write(true);
                }
            }
            37..=52 => {
                if driver == "direct" {
                    g.harness_edit();
                } else {
                    let p = g.patch();
                    if g.rng.chance(1, 3) {
                        g.rewind(p, false);
                    }
                }
            }
            53..=70 => g.harness_edit(),
            71..=90 => {
                if !cps.is_empty() {
                    let t = *g.rng.pick(&cps);
                    g.rewind(t, false);
                }
            }
            91..=95 => {
                if !cps.is_empty() {
                    let t = *g.rng.pick(&cps);
                    let how = *g.rng.pick(&["json_garbage", "json_truncate", "remove_stored", "remove_meta"]);
                    g.push(json!({"op": "corrupt_cp", "ref": t, "how": how}), Plan::Harness, &format!("corrupt_{how}"));
                    g.corrupted.insert(t);
                    g.rewind(t, true);
                }
            }
            _ => {
                let id = format!("{}-0000-4000-8000-{}", g.rng.hex(8), g.rng.hex(12));
                g.push(json!({"op": "cp_rewind", "driver": if driver == "router" { "router" } else { "runner" }, "id": id}), Plan::RewindUnknown, "rewind_unknown");
            }
        }
    }
    g.h
}

pub fn run(cfg: &Cfg) -> i32 {
    let mut r = Report::new(
        "C14",
        "exploration",
        "seeded histories of 10-40 steps (manual checkpoints over existing / missing / nested paths given relative, './'-prefixed \
         and absolute; write (atomic / atomic:false / append) and constructive apply_patch(add/update/move/delete) through ToolRunner::run \
         or the router with their automatic checkpoints; raw deletes, mkdir at covered paths, sub-tree removal, external in-place rewrites, \
         appends and rename-over replacements; tiny files mixed with line-structured files of 4 KiB, 64 KiB-1, 64 KiB, 64 KiB+1, 200 KiB \
         and 1 MiB in the initial workspace and in written contents; rewinds to any earlier manual or \
         automatic checkpoint; unknown ids; corrupted checkpoint.json / removed stored copies) x driver (Workspace, ToolRunner + mirror \
         hook, router + real hook) x process cwd (root, outer, sibling with same-named files, sub-directory, /), one child process per \
         history; distinct = (cwd, driver, step-shape sequence); non-trivial = at least one successful rewind was judged",
    );
    r.assume("a covered path is identified by lexical resolution of the supplied path against the workspace root");
    r.assume("bytes are compared through sha256 of every regular file under the root (.rip excluded); empty directories are not judged");
    r.assume("hard links are detected through st_dev/st_ino/st_nlink of every regular file below .rip/checkpoints after every step; reflinks / other copy-on-write sharing are invisible and harmless");
    r.assume("the ToolRunner-level driver uses a line-for-line mirror of ripd's private WorkspaceCheckpointHook; the router driver uses the real one");
    let base = scratch_root().join(format!("c14-{}", cfg.shard.0));
    let _ = std::fs::create_dir_all(&base);
    if let Some(path) = &cfg.replay {
        let (seed, case) = crate::c12::read_replay(path, cfg.seed);
        let mut c2 = cfg.clone();
        c2.seed = seed;
        one_history(&c2, &mut r, &base, case);
        let _ = std::fs::remove_dir_all(&base);
        return r.finish(&c2);
    }
    let max_cases = cfg.tier.pick(4_000u64, 100_000_000u64);
    let mut case = 0u64;
    while case < max_cases && !r.over(cfg) {
        let idx = case;
        case += 1;
        if !cfg.mine(idx) {
            continue;
        }
        one_history(cfg, &mut r, &base, idx);
    }
    let _ = std::fs::remove_dir_all(&base);
    if r.counters.get("rewinds_succeeded_and_judged").copied().unwrap_or(0) == 0 && r.evaluations > 0 {
        r.fatal_inconclusive("no successful rewind was observed");
    }
    r.finish(cfg)
}

struct Recorded {
    covered: BTreeMap<String, Option<String>>, // rel path -> state at checkpoint time
    forms: BTreeMap<String, &'static str>,     // rel path -> "relative" | "absolute"
    sizes: BTreeMap<String, u64>,              // rel path -> bytes at checkpoint time (existing files)
    auto: bool,
}

fn tree_sizes(v: Option<&Value>) -> BTreeMap<String, u64> {
    let mut t = BTreeMap::new();
    if let Some(m) = v.and_then(|x| x.as_object()) {
        for (p, e) in m {
            if e.get(0).and_then(|x| x.as_str()) == Some("f") {
                t.insert(p.clone(), e.get(2).and_then(|x| x.as_u64()).unwrap_or(0));
            }
        }
    }
    t
}

fn one_history(cfg: &Cfg, r: &mut Report, base: &Path, idx: u64) {
    let mut rng = cfg.case_rng(idx);
    let k = base.join(format!("k{idx}"));
    let l = build_layout(&k, &mut rng);
    let cwd_name = if idx < DIRECTED {
        CWDS[idx as usize]
    } else {
        match rng.below(20) {
            0..=6 => "root",
            7..=10 => "outer",
            11..=14 => "sibling",
            15..=17 => "subdir",
            _ => "fsroot",
        }
    };
    let cwd = cwd_path(&l, cwd_name);
    let t_gen = std::time::Instant::now();
    let h = gen_history(&l, cfg, idx, cwd_name);
    let gen_elapsed = t_gen.elapsed();
    for (rel, seed, bytes) in &h.initial_big {
        let p = l.root.join(rel);
        if let Some(parent) = p.parent() {
            let _ = std::fs::create_dir_all(parent);
        }
        let _ = std::fs::write(&p, ws_child::gen_content(*seed, *bytes));
        r.count(&format!("initial_workspace_files_size_{}", size_tag(*bytes as u64)), 1);
    }
    let spec = json!({
        "top": l.top, "root": l.root, "data": l.data, "cwd": cwd, "session": "c14-session",
        "canaries": [], "sentinels": l.sentinels, "sentinel_dirs": l.sentinel_dirs,
        "reset_root": false, "want_tree": true, "inode_check": true, "root_manifest": false, "steps": h.steps,
    });
    let t_child = std::time::Instant::now();
    let run = ws_child::run_child(&l.k, &spec, false, Duration::from_secs(cfg.tier.pick(60, 180)));
    if cfg.has_flag("--timing") {
        eprintln!("history {idx}: gen {:?}, child {:?}, steps {}, driver {}, initial_big {:?}", gen_elapsed, t_child.elapsed(), h.steps.len(), h.driver, h.initial_big.iter().map(|x| x.2).collect::<Vec<_>>());
    }
    let Some(doc) = run.doc else {
        r.inconclusive(&format!("history {idx} (cwd={cwd_name}): {}", run.error.unwrap_or_default()));
        let _ = std::fs::remove_dir_all(&k);
        return;
    };
    let results: Vec<Value> = doc.get("steps").and_then(|x| x.as_array()).cloned().unwrap_or_default();
    if results.len() != h.plans.len() {
        r.inconclusive(&format!("history {idx}: child returned {} of {} steps", results.len(), h.plans.len()));
    }
    let cwd_tag = if cwd_name == "root" { "cwd_eq_root" } else { "cwd_ne_root" };
    let mut prev: Tree = parse_tree(doc.get("initial_tree"));
    let mut prev_sizes = tree_sizes(doc.get("initial_tree"));
    let mut seen_shared: BTreeSet<String> = BTreeSet::new();
    let mut recs: BTreeMap<usize, Recorded> = BTreeMap::new();
    let mut judged_rewinds = 0u64;
    let history_json = |upto: usize| -> Value {
        let mut v = Vec::new();
        for (i, s) in h.steps.iter().enumerate().take(upto + 1) {
            let res = results.get(i);
            v.push(json!({"i": i, "step": s, "ok": res.and_then(|x| x.get("ok")), "error": res.and_then(|x| x.get("error")),
                          "cp_files": res.and_then(|x| x.get("cp_files")), "cp_meta_files": res.and_then(|x| x.pointer("/cp_meta/files")),
                          "frame_kinds": res.and_then(|x| x.get("frame_kinds"))}));
        }
        json!(v)
    };
    for (i, (res, plan)) in results.iter().zip(h.plans.iter()).enumerate() {
        let cur = parse_tree(res.get("tree"));
        let ok = res.get("ok").and_then(|x| x.as_bool()).unwrap_or(false);
        if res.get("timed_out").and_then(|x| x.as_bool()) == Some(true) {
            r.inconclusive(&format!("history {idx} step {i}: run did not end within the watchdog"));
            break;
        }
        if let Some(why) = res.get("skipped").and_then(|x| x.as_str()) {
            r.count("steps_skipped", 1);
            if !why.contains("no checkpoint") && !why.contains("stores no file") {
                r.inconclusive(&format!("history {idx} step {i}: {why}"));
            }
            prev_sizes = tree_sizes(res.get("tree"));
            prev = cur;
            continue;
        }
        let witness = |what: &str, detail: Value| {
            json!({"case": idx, "cwd": cwd_name, "driver": h.driver, "step": i, "what": what, "detail": detail,
                   "root": l.root, "history": history_json(i)})
        };
        let frame_kinds: Vec<String> = res
            .get("frame_kinds")
            .and_then(|x| x.as_array())
            .map(|a| a.iter().filter_map(|x| x.as_str().map(|s| s.to_string())).collect())
            .unwrap_or_default();
        let cp_files: Option<Vec<String>> = res.get("cp_files").and_then(|x| x.as_array()).map(|a| a.iter().filter_map(|x| x.as_str().map(|s| s.to_string())).collect());
        // inode identity: nothing in the store may be hard-linked to a file outside the store
        r.count("store_files_inode_checked", res.get("store_files_checked").and_then(|x| x.as_u64()).unwrap_or(0));
        if let Some(shared) = res.get("store_shared_inodes").and_then(|x| x.as_array()) {
            let fresh: Vec<&Value> = shared
                .iter()
                .filter(|e| seen_shared.insert(e.get("store_file").and_then(|x| x.as_str()).unwrap_or("").to_string()))
                .collect();
            if !fresh.is_empty() {
                let by = match plan {
                    Plan::Create { .. } => "manual_checkpoint",
                    Plan::Tool { .. } => "auto_checkpoint",
                    Plan::Rewind { .. } | Plan::RewindUnknown => "rewind",
                    Plan::Harness => "external_step",
                };
                let ws_file = fresh[0].get("workspace_file").and_then(|x| x.as_str()).unwrap_or("");
                let bytes = prev_sizes.get(ws_file).copied().or_else(|| tree_sizes(res.get("tree")).get(ws_file).copied());
                r.count("store_files_sharing_an_inode_with_the_workspace", fresh.len() as u64);
                r.violation(
                    &format!("C14/store_shares_inode_with_workspace/{by}"),
                    &format!(
                        "after step {i} ({by}) {} file(s) below .rip/checkpoints are hard links to files outside the store (e.g. {:?} <-> workspace file {:?}, {} bytes): \
                         the next in-place edit of the workspace file rewrites the checkpoint's copy",
                        fresh.len(), fresh[0].get("store_file").and_then(|x| x.as_str()).unwrap_or(""), ws_file, bytes.map(|b| b.to_string()).unwrap_or_else(|| "?".into())
                    ),
                    witness("stored copy shares st_dev/st_ino with a file outside the store", json!({"shared": fresh, "workspace_file_bytes": bytes})),
                );
            }
        }
        let cur_sizes = tree_sizes(res.get("tree"));
        match plan {
            Plan::Harness => {}
            Plan::Create { args } => {
                r.eval();
                r.count(if ok { "manual_checkpoints_created" } else { "manual_checkpoint_create_failed" }, 1);
                let ch = changed_files(&prev, &cur);
                if !ch.is_empty() {
                    r.violation(
                        &format!("C14/checkpoint_create_changed_workspace/{cwd_tag}"),
                        &format!("creating a checkpoint changed workspace files {:?}", ch),
                        witness("tree differs after cp_create", json!({"changed": ch})),
                    );
                }
                if ok {
                    let mut covered = BTreeMap::new();
                    let mut forms = BTreeMap::new();
                    let mut sizes = BTreeMap::new();
                    for a in args {
                        if let Some(rel) = normalize(&l.root, a) {
                            covered.insert(rel.clone(), file_state(&prev, &rel));
                            if let Some(n) = prev_sizes.get(&rel) {
                                sizes.insert(rel.clone(), *n);
                                r.count(&format!("checkpointed_file_size_{}", size_tag(*n)), 1);
                            }
                            forms.insert(rel, if a.starts_with('/') { "absolute" } else { "relative" });
                        }
                    }
                    recs.insert(i, Recorded { covered, forms, sizes, auto: false });
                }
            }
            Plan::Tool { name, named, well_formed } => {
                r.eval();
                r.count(&format!("tool_{name}_runs"), 1);
                let ch = changed_files(&prev, &cur);
                let pos_cp = frame_kinds.iter().position(|k| k == "checkpoint_created");
                let pos_ts = frame_kinds.iter().position(|k| k == "tool_started");
                let auto_before = matches!((pos_cp, pos_ts), (Some(a), Some(b)) if a < b) && res.get("cp_auto").and_then(|x| x.as_bool()) == Some(true);
                if auto_before {
                    r.count("auto_checkpoint_before_tool_started", 1);
                }
                let covered_list: Vec<String> = cp_files.clone().unwrap_or_default().iter().filter_map(|p| normalize(&l.root, p)).collect();
                let only_litter = !ch.is_empty() && ch.iter().all(|p| p.contains(".tmp-"));
                if only_litter && !auto_before {
                    r.violation(
                        &format!("C14/tool_changed_uncovered_path/{name}/tmp_litter"),
                        &format!("{name} (ok={ok}) left {:?} behind and no automatic checkpoint covers it (frames: {:?})", ch, frame_kinds),
                        witness("temporary file left behind by a failed write", json!({"changed": ch, "frames": frame_kinds})),
                    );
                } else if !ch.is_empty() && !auto_before {
                    r.violation(
                        &format!("C14/edit_without_auto_checkpoint/{name}/{cwd_tag}"),
                        &format!("{name} changed {:?} but no auto checkpoint_created frame precedes tool_started (frames: {:?})", ch, frame_kinds),
                        witness("edit without preceding automatic checkpoint", json!({"changed": ch, "frames": frame_kinds})),
                    );
                }
                if auto_before {
                    if *well_formed {
                        let missing: Vec<&String> = named.iter().filter(|p| !covered_list.contains(p)).collect();
                        if !missing.is_empty() {
                            r.violation(
                                &format!("C14/auto_checkpoint_misses_named_path/{name}"),
                                &format!("auto checkpoint of {name} lists {:?} but the invocation names {:?}", covered_list, named),
                                witness("file list does not cover every named path", json!({"missing": missing})),
                            );
                        }
                    }
                    let uncovered: Vec<&String> = ch.iter().filter(|p| !covered_list.contains(p)).collect();
                    if !uncovered.is_empty() {
                        let litter = uncovered.iter().all(|p| p.contains(".tmp-"));
                        r.violation(
                            &format!("C14/tool_changed_uncovered_path/{name}{}", if litter { "/tmp_litter" } else { "" }),
                            &format!("{name} changed {:?} which its automatic checkpoint {:?} does not cover (tool ok={ok})", uncovered, covered_list),
                            witness("tool changed a path outside its automatic checkpoint", json!({"uncovered": uncovered, "covered": covered_list})),
                        );
                    }
                    let mut covered = BTreeMap::new();
                    let mut forms = BTreeMap::new();
                    let mut sizes = BTreeMap::new();
                    for rel in &covered_list {
                        covered.insert(rel.clone(), file_state(&prev, rel));
                        if let Some(n) = prev_sizes.get(rel) {
                            sizes.insert(rel.clone(), *n);
                            r.count(&format!("checkpointed_file_size_{}", size_tag(*n)), 1);
                        }
                        forms.insert(rel.clone(), "relative");
                    }
                    recs.insert(i, Recorded { covered, forms, sizes, auto: true });
                } else if !ch.is_empty() {
                    // already reported
                } else if frame_kinds.iter().any(|k| k == "checkpoint_failed") {
                    r.count("auto_checkpoint_failed_and_tool_changed_nothing", 1);
                    // a failed tool may still leave litter
                }
                if !ok && !ch.is_empty() {
                    let litter = ch.iter().all(|p| p.contains(".tmp-"));
                    r.count(if litter { "failed_write_left_tmp_file" } else { "failed_tool_changed_tree" }, 1);
                }
            }
            Plan::Rewind { target, expect_fail } => {
                r.eval();
                let Some(rec) = recs.get(target) else {
                    // the checkpoint step did not produce a checkpoint: a rewind cannot have been issued
                    r.count("rewind_of_absent_checkpoint", 1);
                    prev = cur;
                    prev_sizes = cur_sizes;
                    continue;
                };
                let kind = if rec.auto { "auto" } else { "manual" };
                if ok {
                    judged_rewinds += 1;
                    r.count("rewinds_succeeded_and_judged", 1);
                    r.count("covered_paths_compared", rec.covered.len() as u64);
                    if *expect_fail {
                        r.count("rewind_of_corrupted_checkpoint_succeeded", 1);
                    }
                    for (p, n) in &rec.sizes {
                        if rec.covered.get(p).map(|w| w != &file_state(&prev, p)).unwrap_or(false) {
                            r.count(&format!("rewind_restored_changed_file_size_{}", size_tag(*n)), 1);
                        }
                    }
                    // which kinds of edit happened between the checkpoint and this rewind
                    // (the edit that an automatic checkpoint precedes is the step of the checkpoint itself)
                    let mut modes: BTreeSet<&str> = BTreeSet::new();
                    for t in h.shape.iter().take(i).skip(if rec.auto { *target } else { target + 1 }) {
                        let t = t.as_str();
                        for (prefix, needle, mode) in [
                            ("write_append", "", "tool_append"), ("write_nonatomic", "", "tool_nonatomic"), ("write_atomic", "", "tool_atomic_replace"),
                            ("patch[", "update", "patch_update_in_place"), ("patch[", "move", "patch_update_move"), ("ext_write", "", "external_in_place"),
                            ("ext_append", "", "external_append"), ("ext_replace", "", "external_replace_by_rename"),
                        ] {
                            if t.starts_with(prefix) && t.contains(needle) {
                                modes.insert(mode);
                            }
                        }
                    }
                    for m in modes {
                        r.count(&format!("rewinds_judged_after_{m}"), 1);
                    }
                    let mut reported = false;
                    for (p, want) in &rec.covered {
                        let got = file_state(&cur, p);
                        if &got != want {
                            let form = rec.forms.get(p).copied().unwrap_or("relative");
                            let how = match (want, &got) {
                                (Some(_), None) => "file that existed at the checkpoint is absent after rewind",
                                (None, Some(_)) => "file that did not exist at the checkpoint is present after rewind",
                                _ => "file has different bytes than at the checkpoint",
                            };
                            r.violation(
                                &format!("C14/rewind_mismatch/{kind}/{form}/{cwd_tag}"),
                                &format!("after a successful rewind to a {kind} checkpoint {p:?} ({form} path, cwd={cwd_name}): {how}"),
                                witness(how, json!({"path": p, "sha_at_checkpoint": want, "sha_after_rewind": got, "sha_before_rewind": file_state(&prev, p), "bytes_at_checkpoint": rec.sizes.get(p), "steps_since_checkpoint": h.shape.iter().take(i).skip(*target).collect::<Vec<_>>(),
                                                    "checkpoint_step": target, "stored_meta": results.get(*target).and_then(|x| x.pointer("/cp_meta/files"))})),
                            );
                            reported = true;
                            break;
                        }
                    }
                    if !reported {
                        let touched: Vec<String> = changed_files(&prev, &cur).into_iter().filter(|p| !rec.covered.contains_key(p)).collect();
                        if !touched.is_empty() {
                            r.violation(
                                &format!("C14/rewind_touched_uncovered/{kind}/{cwd_tag}"),
                                &format!("rewind to a {kind} checkpoint changed uncovered paths {:?}", touched),
                                witness("uncovered path changed by rewind", json!({"touched": touched, "covered": rec.covered.keys().collect::<Vec<_>>()})),
                            );
                        }
                    }
                } else {
                    r.count("rewinds_failed", 1);
                    if *expect_fail {
                        r.count("corrupted_checkpoint_rewinds_failed_as_expected", 1);
                    }
                    let ch = changed_files(&prev, &cur);
                    if !ch.is_empty() {
                        r.violation(
                            &format!("C14/failed_rewind_changed_tree/{kind}/{cwd_tag}"),
                            &format!("rewind reported failure ({}) but workspace files changed: {:?}", trunc(res.get("error").and_then(|x| x.as_str()).unwrap_or(""), 120), ch),
                            witness("tree differs after a failed rewind", json!({"changed": ch})),
                        );
                    } else {
                        r.count("failed_rewinds_left_tree_identical", 1);
                    }
                }
            }
            Plan::RewindUnknown => {
                r.eval();
                let ch = changed_files(&prev, &cur);
                if ok || !ch.is_empty() {
                    r.violation(
                        "C14/unknown_checkpoint_id",
                        &format!("rewind to an unknown id: ok={ok}, changed files {:?}", ch),
                        witness("unknown id", json!({"changed": ch})),
                    );
                } else {
                    r.count("unknown_id_rewinds_failed_cleanly", 1);
                }
            }
        }
        prev = cur;
        prev_sizes = cur_sizes;
    }
    if judged_rewinds > 0 {
        r.distinct_str(&format!("{cwd_name}|{}|{}", h.driver, h.shape.join(">")));
    }
    r.count(&format!("histories_cwd_{cwd_name}"), 1);
    r.count(&format!("histories_driver_{}", h.driver), 1);
    r.count("steps_executed", results.len() as u64);
    if idx >= DIRECTED && r.samples.len() < r.max_samples {
        r.sample(json!({"case": idx, "cwd": cwd_name, "driver": h.driver, "shape": h.shape, "judged_rewinds": judged_rewinds}));
    }
    let _ = std::fs::remove_dir_all(&k);
}
