//! C02 second observer: the real `rip serve` under strace while a fixed history is driven over
//! HTTP. Asserts that `data/events.jsonl` is only ever opened `O_WRONLY|O_CREAT|O_APPEND` or
//! `O_RDONLY` and never truncated, renamed, unlinked or positionally written — this also catches
//! a rewrite that happens to reproduce the same bytes. Skips (note in the evidence, no verdict)
//! when strace or the hooked binary is missing.

use crate::fixture::Store;
use crate::report::{Cfg, Report};
use serde_json::{json, Value};
use std::io::{BufRead, BufReader, Read, Write};
use std::net::TcpStream;
use std::path::{Path, PathBuf};
use std::process::{Child, Command, Stdio};
use std::time::{Duration, Instant};

fn find_bin(cfg: &Cfg) -> Option<PathBuf> {
    let mut cands: Vec<PathBuf> = Vec::new();
    if let Ok(p) = std::env::var("RV_RIP_BIN") {
        cands.push(PathBuf::from(p));
    }
    cands.push(cfg.root.join("target/repo/release/rip"));
    cands.push(PathBuf::from("/verif/target/repo/release/rip"));
    cands.into_iter().find(|p| p.is_file())
}

fn have_strace() -> bool {
    Command::new("strace")
        .arg("-V")
        .stdout(Stdio::null())
        .stderr(Stdio::null())
        .status()
        .map(|s| s.success())
        .unwrap_or(false)
}

struct Server {
    child: Child,
    addr: String,
}

impl Server {
    fn start(bin: &Path, store: &Store, trace_out: &Path) -> Result<Server, String> {
        let cfg_home = store.dir.join("cfg-home");
        let _ = std::fs::create_dir_all(&cfg_home);
        let mut child = Command::new("strace")
            .args(["-f", "-qq", "-y", "-s", "300", "-o"])
            .arg(trace_out)
            .args([
                "-e",
                "trace=open,openat,creat,rename,renameat,renameat2,unlink,unlinkat,truncate,ftruncate,pwrite64,pwritev,pwritev2",
            ])
            .arg(bin)
            .arg("serve")
            .env("RIP_SERVER_ADDR", "127.0.0.1:0")
            .env("RIP_DATA_DIR", &store.data)
            .env("RIP_WORKSPACE_ROOT", &store.ws)
            .env("RIP_CONFIG_HOME", &cfg_home)
            .env_remove("RIP_OPENRESPONSES_ENDPOINT")
            .stdin(Stdio::null())
            .stdout(Stdio::null())
            .stderr(Stdio::piped())
            .spawn()
            .map_err(|e| format!("spawn strace: {e}"))?;
        let stderr = child.stderr.take().ok_or("no stderr")?;
        let (tx, rx) = std::sync::mpsc::channel::<String>();
        std::thread::spawn(move || {
            let rd = BufReader::new(stderr);
            for line in rd.lines().map_while(Result::ok) {
                if let Some(pos) = line.find("ripd listening on http://") {
                    let _ = tx.send(line[pos + "ripd listening on http://".len()..].trim().to_string());
                }
            }
        });
        match rx.recv_timeout(Duration::from_secs(30)) {
            Ok(addr) => Ok(Server { child, addr }),
            Err(_) => {
                let _ = child.kill();
                let _ = child.wait();
                Err("server did not print its address within 30 s".into())
            }
        }
    }

    fn stop(mut self) {
        // SIGTERM to the traced server (strace forwards the exit); fall back to kill
        let pid = self.child.id();
        // the rip process is a child of strace: signal the whole group is not possible without setsid; find it via /proc
        for p in children_of(pid) {
            unsafe {
                libc::kill(p as i32, libc::SIGTERM);
            }
        }
        let start = Instant::now();
        loop {
            match self.child.try_wait() {
                Ok(Some(_)) => return,
                _ => {}
            }
            if start.elapsed() > Duration::from_secs(5) {
                for p in children_of(pid) {
                    unsafe {
                        libc::kill(p as i32, libc::SIGKILL);
                    }
                }
                let _ = self.child.kill();
                let _ = self.child.wait();
                return;
            }
            std::thread::sleep(Duration::from_millis(20));
        }
    }
}

fn children_of(pid: u32) -> Vec<u32> {
    let mut out = Vec::new();
    if let Ok(rd) = std::fs::read_dir("/proc") {
        for e in rd.flatten() {
            let name = e.file_name().to_string_lossy().to_string();
            let Ok(p) = name.parse::<u32>() else { continue };
            if let Ok(stat) = std::fs::read_to_string(format!("/proc/{p}/stat")) {
                // pid (comm) state ppid ...
                if let Some(rest) = stat.rsplit(')').next() {
                    let mut it = rest.split_whitespace();
                    let _state = it.next();
                    if it.next().and_then(|x| x.parse::<u32>().ok()) == Some(pid) {
                        out.push(p);
                    }
                }
            }
        }
    }
    out
}

/// Minimal HTTP/1.1 client (Connection: close). `read_ms` bounds the read (for SSE).
fn http(addr: &str, method: &str, path: &str, body: Option<&Value>, read_ms: u64) -> (u16, Vec<u8>) {
    let Ok(mut s) = TcpStream::connect(addr) else {
        return (0, vec![]);
    };
    let _ = s.set_read_timeout(Some(Duration::from_millis(read_ms)));
    let payload = body.map(|b| serde_json::to_vec(b).unwrap_or_default()).unwrap_or_default();
    let mut req = format!("{method} {path} HTTP/1.1\r\nhost: {addr}\r\nconnection: close\r\n");
    if body.is_some() {
        req.push_str("content-type: application/json\r\n");
    }
    req.push_str(&format!("content-length: {}\r\n\r\n", payload.len()));
    if s.write_all(req.as_bytes()).is_err() || s.write_all(&payload).is_err() {
        return (0, vec![]);
    }
    let mut buf = Vec::new();
    let mut tmp = [0u8; 8192];
    let start = Instant::now();
    loop {
        match s.read(&mut tmp) {
            Ok(0) => break,
            Ok(n) => buf.extend_from_slice(&tmp[..n]),
            Err(_) => break,
        }
        if start.elapsed() > Duration::from_millis(read_ms.max(50) * 4) {
            break;
        }
    }
    let text = String::from_utf8_lossy(&buf);
    let status = text.split(' ').nth(1).and_then(|x| x.parse::<u16>().ok()).unwrap_or(0);
    let body = match buf.windows(4).position(|w| w == b"\r\n\r\n") {
        Some(p) => buf[p + 4..].to_vec(),
        None => vec![],
    };
    (status, body)
}

fn wait_log(store: &Store, needle_a: &str, needle_b: &str, secs: u64) -> bool {
    let start = Instant::now();
    while start.elapsed() < Duration::from_secs(secs) {
        let b = store.log_bytes_settled();
        let t = String::from_utf8_lossy(&b);
        if t.lines().any(|l| l.contains(needle_a) && l.contains(needle_b)) {
            return true;
        }
        std::thread::sleep(Duration::from_millis(10));
    }
    false
}

pub fn observe(cfg: &Cfg, r: &mut Report) {
    if !have_strace() {
        r.note("strace_observer", json!("skipped: strace not available"));
        return;
    }
    let Some(bin) = find_bin(cfg) else {
        r.note(
            "strace_observer",
            json!("skipped: hooked rip binary not found (RV_RIP_BIN, <root>/target/repo/release/rip); build with lib/build.sh --with-rip"),
        );
        return;
    };
    let store = Store::new("c02strace");
    let log_path = store.log_path().to_string_lossy().to_string();
    let mut old: Vec<u8> = Vec::new();
    let mut calls = 0u64;
    let mut prefix_broken: Option<String> = None;
    let mut traces: Vec<PathBuf> = Vec::new();
    let mut err: Option<String> = None;

    for phase in 0..2 {
        let trace_out = store.dir.join(format!("strace-{phase}.out"));
        traces.push(trace_out.clone());
        let srv = match Server::start(&bin, &store, &trace_out) {
            Ok(s) => s,
            Err(e) => {
                err = Some(e);
                break;
            }
        };
        let addr = srv.addr.clone();
        let mut check = |what: &str, store: &Store| {
            let now = store.log_bytes_settled();
            if !(now.len() >= old.len() && now[..old.len()] == old[..]) && prefix_broken.is_none() {
                prefix_broken = Some(what.to_string());
            }
            old = now;
            calls += 1;
        };
        let (_, b) = http(&addr, "POST", "/threads/ensure", None, 3000);
        let tid = serde_json::from_slice::<Value>(&b)
            .ok()
            .and_then(|v| v.get("thread_id").and_then(|x| x.as_str()).map(|s| s.to_string()))
            .unwrap_or_default();
        check("ensure", &store);
        if tid.is_empty() {
            err = Some("ensure did not return a thread id".into());
            srv.stop();
            break;
        }
        let contents = [
            json!({"tool":"write","args":{"path": format!("p{phase}.txt"), "content":"x"}}).to_string(),
            json!({"tool":"bash","args":{"command":"echo hi; echo er 1>&2"}}).to_string(),
            "plain prompt".to_string(),
            "x".repeat(20_000),
        ];
        for c in &contents {
            let (st, b) = http(&addr, "POST", &format!("/threads/{tid}/messages"), Some(&json!({"content": c})), 3000);
            if st == 202 {
                if let Some(sid) = serde_json::from_slice::<Value>(&b).ok().and_then(|v| v.get("session_id").and_then(|x| x.as_str()).map(|s| s.to_string())) {
                    wait_log(&store, "continuity_run_ended", &sid, 15);
                }
            }
            check("messages", &store);
        }
        for (p, body) in [
            ("compaction-cut-points", json!({"stride_messages": 1, "limit": 33})),
            ("compaction-status", json!({"stride_messages": 2})),
            ("provider-cursor-status", json!({})),
            ("context-selection-status", json!({"limit": 0})),
            ("compaction-auto", json!({"stride_messages": 2, "dry_run": true, "actor_id": "", "origin": ""})),
            ("compaction-auto-schedule", json!({"stride_messages": 2, "dry_run": true, "actor_id": "", "origin": ""})),
            ("provider-cursor-rotate", json!({"actor_id": "", "origin": ""})),
        ] {
            http(&addr, "POST", &format!("/threads/{tid}/{p}"), Some(&body), 3000);
            check(p, &store);
        }
        let (st, b) = http(&addr, "POST", &format!("/threads/{tid}/compaction-auto"), Some(&json!({"stride_messages": 2, "max_new_checkpoints": 2, "actor_id": "", "origin": ""})), 3000);
        if st == 202 {
            if let Some(j) = serde_json::from_slice::<Value>(&b).ok().and_then(|v| v.get("job_id").and_then(|x| x.as_str()).map(|s| s.to_string())) {
                wait_log(&store, "continuity_job_ended", &j, 15);
            }
        }
        check("compaction-auto", &store);
        http(&addr, "POST", &format!("/threads/{tid}/branch"), Some(&json!({"title": "b"})), 3000);
        check("branch", &store);
        http(&addr, "POST", &format!("/threads/{tid}/handoff"), Some(&json!({"summary_markdown": "s"})), 3000);
        check("handoff", &store);
        http(&addr, "POST", &format!("/threads/{tid}/compaction-checkpoint"), Some(&json!({"summary_markdown": "s", "to_seq": 1})), 3000);
        check("checkpoint", &store);
        let (st, b) = http(&addr, "POST", "/tasks", Some(&json!({"tool":"bash","args":{"command":"echo t"}})), 3000);
        if st == 201 {
            if let Some(t) = serde_json::from_slice::<Value>(&b).ok().and_then(|v| v.get("task_id").and_then(|x| x.as_str()).map(|s| s.to_string())) {
                wait_log(&store, "tool_task_status", "\"exited\"", 15);
                http(&addr, "GET", &format!("/tasks/{t}/events"), None, 150);
                http(&addr, "GET", &format!("/tasks/{t}/output?stream=stdout"), None, 1000);
            }
        }
        check("tasks", &store);
        http(&addr, "GET", &format!("/threads/{tid}/events"), None, 150);
        check("thread events", &store);
        // cache deletion, then the rebuild paths
        let _ = std::fs::remove_dir_all(store.streams_dir());
        http(&addr, "GET", &format!("/threads/{tid}/events"), None, 150);
        check("thread events after cache deletion", &store);
        for p in ["compaction-cut-points", "compaction-status", "provider-cursor-status", "context-selection-status"] {
            http(&addr, "POST", &format!("/threads/{tid}/{p}"), Some(&json!({})), 3000);
            check(p, &store);
        }
        http(&addr, "POST", "/threads/..%2Fevents/compaction-status", Some(&json!({})), 3000);
        http(&addr, "GET", "/threads/..%2Fevents/events", None, 300);
        check("malformed id", &store);
        let _ = std::fs::remove_file(store.data.join("continuities").join("index.json"));
        srv.stop(); // phase 1 = restart on the same store with the index deleted
    }

    // parse the traces
    let mut opens_append = 0u64;
    let mut opens_read = 0u64;
    let mut lines_seen = 0u64;
    let mut offences: Vec<(String, String)> = Vec::new();
    for t in &traces {
        let Ok(text) = std::fs::read_to_string(t) else { continue };
        for line in text.lines() {
            lines_seen += 1;
            if !line.contains(&log_path) {
                continue;
            }
            // strip "pid " prefix
            let l = line.trim_start_matches(|c: char| c.is_ascii_digit() || c == ' ');
            let failed = l.contains(" = -1 ");
            let sys = l.split('(').next().unwrap_or("").to_string();
            let quoted = format!("\"{log_path}\"");
            match sys.as_str() {
                "open" | "openat" | "creat" => {
                    if !l.contains(&quoted) {
                        continue; // only as dirfd annotation
                    }
                    let flags: String = l
                        .split(&quoted)
                        .nth(1)
                        .unwrap_or("")
                        .split(')')
                        .next()
                        .unwrap_or("")
                        .trim_start_matches(',')
                        .split(',')
                        .next()
                        .unwrap_or("")
                        .trim()
                        .to_string();
                    let fl: Vec<&str> = flags.split('|').collect();
                    let has = |f: &str| fl.iter().any(|x| *x == f);
                    let ok_read = has("O_RDONLY") && !has("O_TRUNC") && !has("O_CREAT");
                    let ok_append = has("O_WRONLY") && has("O_APPEND") && !has("O_TRUNC");
                    if ok_read {
                        opens_read += 1;
                    } else if ok_append {
                        opens_append += 1;
                    } else if !failed || sys == "creat" {
                        let mut norm: Vec<&str> = fl.iter().copied().filter(|f| *f != "O_CLOEXEC" && *f != "O_LARGEFILE").collect();
                        norm.sort();
                        offences.push((format!("open_flags/{}", norm.join("+")), line.to_string()));
                    }
                }
                "rename" | "renameat" | "renameat2" | "unlink" | "unlinkat" | "truncate" => {
                    if l.contains(&quoted) && !failed {
                        offences.push((format!("{sys}_on_log"), line.to_string()));
                    }
                }
                "ftruncate" | "pwrite64" | "pwritev" | "pwritev2" => {
                    if l.contains(&format!("<{log_path}>")) && !failed {
                        offences.push((format!("{sys}_on_log"), line.to_string()));
                    }
                }
                _ => {}
            }
        }
    }
    let keep_traces = !offences.is_empty();
    if let Some(e) = &err {
        r.inconclusive(&format!("strace observer: {e}"));
        r.note("strace_observer", json!({"status": "inconclusive", "error": e}));
        return;
    }
    if opens_append == 0 {
        r.inconclusive("strace observer: never saw the log opened for append (trace empty?)");
        r.note("strace_observer", json!({"status": "inconclusive", "trace_lines": lines_seen}));
        return;
    }
    for (kind, line) in &offences {
        r.violation(
            &format!("C02/strace/{kind}"),
            &format!("real `rip serve` touched events.jsonl with a forbidden syscall: {line}"),
            json!({"case": "strace_observer", "line": line}),
        );
    }
    if let Some(w) = &prefix_broken {
        r.violation(
            "C02/strace/prefix_changed_in_real_server",
            &format!("real `rip serve`: the log lost its previous prefix after {w}"),
            json!({"case": "strace_observer", "after": w}),
        );
    }
    r.eval();
    r.distinct_str("strace_observer");
    r.count("strace_trace_lines", lines_seen);
    r.count("strace_log_opens_append", opens_append);
    r.count("strace_log_opens_readonly", opens_read);
    r.count("strace_http_calls_checked", calls);
    r.note(
        "strace_observer",
        json!({"status": "ran", "binary": bin.to_string_lossy(), "phases": traces.len(), "log_opens_append": opens_append,
               "log_opens_readonly": opens_read, "offences": offences.len(), "final_log_bytes": old.len()}),
    );
    if keep_traces {
        let dst = cfg.root.join("replays").join("C02");
        let _ = std::fs::create_dir_all(&dst);
        for (i, t) in traces.iter().enumerate() {
            let _ = std::fs::copy(t, dst.join(format!("strace-{i}.out")));
        }
    }
}
